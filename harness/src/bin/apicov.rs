//! apicov — PUBLIC-API COVERAGE harness.
//!
//! Every externally reachable function of the crate (see `/verif/tools/api_census.py`) that no other harness bin calls is
//! exercised here in realistic sequences, each call followed by MODEL-FREE oracles derived from the property statements
//! (`/verif/properties.jsonl`). The model output column is the constant `ok` (like `kern`): the bin only supports the search
//! for failing inputs / mutations hidden behind otherwise unexercised public API; `checks/api_cov.py` turns oracle FAILs into
//! obligations of the calling check (evidence mode `public-api-coverage`).
//!
//! Modes (named after the property whose statement supplies the oracle):
//!   c01  Ising constructors (`new_qmc`, `new_qmc_from_graph`, `new_from_graph`, `new_with_rng_with_manager_hook`, snapshot
//!        restore) build what `new_with_rng` builds; offset formula; `hamiltonian` table; `print_debug`
//!   c03  `BondContainer` public surface against a naive list + the representation invariant (`BC.Inv`)
//!   c04  generic constructors (`Qmc::new`, `new_with_state`, `…_with_manager_hook`), `Qmc::from(ising)` = `into_qmc`
//!   c06  convenience wrappers (thread_rng inside) on the op manager + `_with_rng` vs `_with_rng_and_state_ref` vs the
//!        sampler-level calls under the same RNG state; `state_mut`/`get_manager_mut` round trips; invariants C06/C07/C11/C12/C18
//!   c07  `Op` trait surface of `BasicOp` (edit / clone-and-edit re-derive the diagonal tag, keep vars/bond/constant)
//!   c08  a heat-bath sweep assembled by hand from `heat_bath_single_diagonal_update` = the library sweep
//!   c09  `find_constant_op`, `is_valid_cluster_edge`, `flip_each_cluster_*` variants, sampler-level cluster step
//!   c10  trait-level tempering helpers for both samplers and the container helpers (`new_thread_rng`, `iter_over_states`, …)
//!   c11  accessors = scan (`constant_ops_on_var`, `spin_flips_on_var`, debug counters, `get_propagated_substate_with_hint`,
//!        `iter_ops_above_p`, `MutateArgs`, `get_node_mut`, …); a NAIVE slot-array container drives the generic sampler
//!        through the trait-default methods and must reproduce the FastOps trajectory
//!   c12  cutoff API (`set_cutoff`, `increase_cutoff_to`, `set_op_cutoff`) and the cutoff rule afterwards
//!   c13  Clone / Debug / PartialEq / serde of every public type; clones and restored objects continue identically
//!   c17  every measuring helper of `QmcStepper` = manual loop on a clone
//!   c18  allocator public surface (`Factory` on every pooled type, `Reset`, wrapper allocator), pool balance
//!   c19  classical `GraphState` constructors, `Clone`, `Debug`, `do_spin_flip`, `should_flip`, energy
//!   all  everything above
//! Every case line: `CASE nt | <mode> <label> <inputs…> | ok | ok/FAIL:<why>`.

#![allow(clippy::too_many_arguments, clippy::type_complexity)]

use qmc::classical::graph::{make_random_spin_state, GraphState};
use qmc::sse::fast_op_alloc::{DefaultFastOpAllocator, FastOpAllocator, SwitchableFastOpAllocator};
use qmc::sse::fast_ops::*;
use qmc::sse::qmc_ising::serialization::SerializeQmcGraph;
use qmc::sse::qmc_types::OpSide;
use qmc::sse::*;
use qmc::util::allocator::{verif_log, Factory, Reset};
use qmc::util::bondcontainer::BondContainer;
use rand::{Rng, RngCore};
use serde_json::Value;
use std::cell::RefCell;
use std::cmp::{max, Reverse};
use std::collections::{BTreeMap, BinaryHeap};
use vh::*;

type G = QmcIsingGraph<SplitMix64, FastOps>;
type Q = Qmc<SplitMix64, FastOps>;
type TC = TemperingContainer<SplitMix64, G>;
type TQ = TemperingContainer<SplitMix64, Q>;

const EPS: f64 = std::f64::EPSILON;
const GAMMA64: u64 = 0x9E3779B97F4A7C15;

// ------------------------------------------------------------------------------------------------------------------
// bookkeeping: coverage counters, checks, case emission
// ------------------------------------------------------------------------------------------------------------------
thread_local! {
    static COV: RefCell<BTreeMap<&'static str, u64>> = RefCell::new(BTreeMap::new());
    static NCASES: RefCell<(u64, u64)> = RefCell::new((0, 0));
}
/// one more exercised call of the public function `key` (`Owner::name`)
fn hit(key: &'static str) {
    COV.with(|c| *c.borrow_mut().entry(key).or_insert(0) += 1);
}
fn hits(keys: &[&'static str]) {
    for k in keys {
        hit(k);
    }
}
fn flush_cov() {
    COV.with(|c| {
        for (k, v) in c.borrow().iter() {
            stat(&format!("api.{}", k), v);
        }
        stat("api_functions_exercised", c.borrow().len());
    });
    NCASES.with(|n| {
        stat("cases", n.borrow().0);
        stat("oracle_fail", n.borrow().1);
    });
}

/// collects the failed sub-oracles of one case
struct Chk {
    errs: Vec<String>,
}
impl Chk {
    fn new() -> Self {
        Chk { errs: vec![] }
    }
    fn ck(&mut self, cond: bool, msg: impl FnOnce() -> String) {
        if !cond && self.errs.len() < 4 {
            self.errs.push(msg());
        }
    }
    fn eq<T: PartialEq + std::fmt::Debug>(&mut self, what: &str, a: &T, b: &T) {
        if a != b && self.errs.len() < 4 {
            let (sa, sb) = (format!("{:?}", a), format!("{:?}", b));
            self.errs.push(format!("{}: {} vs {}", what, clip(&sa), clip(&sb)));
        }
    }
    fn res(&mut self, r: Result<(), String>) {
        if let Err(e) = r {
            if self.errs.len() < 4 {
                self.errs.push(e);
            }
        }
    }
    /// run a library call; a panic is an oracle failure carrying the panic text
    fn call<T>(&mut self, what: &str, f: impl FnOnce() -> T) -> Option<T> {
        match catch(f) {
            Ok(t) => Some(t),
            Err(e) => {
                self.errs.push(format!("{} panicked: {}", what, e));
                None
            }
        }
    }
    fn done(self) -> Result<(), String> {
        if self.errs.is_empty() {
            Ok(())
        } else {
            Err(self.errs.join("; "))
        }
    }
}
fn clip(s: &str) -> String {
    if s.len() > 300 {
        format!("{}…", &s[..300])
    } else {
        s.to_string()
    }
}
fn case(nt: bool, input: &str, r: Result<(), String>) {
    NCASES.with(|n| {
        n.borrow_mut().0 += 1;
        if r.is_err() {
            n.borrow_mut().1 += 1;
        }
    });
    emit(nt, &input.replace('|', "/"), "ok", Some(r));
}

fn js<T: serde::Serialize>(x: &T) -> Value {
    serde_json::to_value(x).expect("serialises")
}
fn json_rt<T: serde::Serialize + serde::de::DeserializeOwned>(x: &T) -> Result<T, String> {
    let s = serde_json::to_string(x).map_err(|e| format!("serialise: {}", e))?;
    serde_json::from_str(&s).map_err(|e| format!("deserialise: {}", e))
}
/// first path at which two JSON values differ
fn json_diff(a: &Value, b: &Value, path: &str, skip: &[&str]) -> Option<String> {
    match (a, b) {
        (Value::Object(x), Value::Object(y)) => {
            for (k, v) in x.iter() {
                if skip.contains(&k.as_str()) {
                    continue;
                }
                match y.get(k) {
                    None => return Some(format!("{}.{} missing", path, k)),
                    Some(w) => {
                        if let Some(d) = json_diff(v, w, &format!("{}.{}", path, k), skip) {
                            return Some(d);
                        }
                    }
                }
            }
            for k in y.keys() {
                if !skip.contains(&k.as_str()) && !x.contains_key(k) {
                    return Some(format!("{}.{} extra", path, k));
                }
            }
            None
        }
        (Value::Array(x), Value::Array(y)) => {
            if x.len() != y.len() {
                return Some(format!("{} length {} vs {}", path, x.len(), y.len()));
            }
            for (i, (v, w)) in x.iter().zip(y.iter()).enumerate() {
                if let Some(d) = json_diff(v, w, &format!("{}[{}]", path, i), skip) {
                    return Some(d);
                }
            }
            None
        }
        _ => {
            if a == b {
                None
            } else {
                Some(format!("{}: {} vs {}", path, clip(&a.to_string()), clip(&b.to_string())))
            }
        }
    }
}
fn json_same(what: &str, a: &Value, b: &Value, skip: &[&str]) -> Result<(), String> {
    match json_diff(a, b, "", skip) {
        None => Ok(()),
        Some(d) => Err(format!("{}: snapshots differ at {}", what, d)),
    }
}
/// state of the SplitMix64 owned by a sampler (from its serde snapshot)
fn rng_of<T: serde::Serialize>(x: &T) -> SplitMix64 {
    SplitMix64::new(js(x)["rng"]["s"].as_u64().expect("sampler rng state"))
}
fn words_between(a: u64, b: u64) -> u64 {
    // SplitMix64 advances its state by a fixed odd constant per word
    let inv = {
        // modular inverse of GAMMA64 mod 2^64 (Newton)
        let mut x: u64 = GAMMA64;
        for _ in 0..6 {
            x = x.wrapping_mul(2u64.wrapping_sub(GAMMA64.wrapping_mul(x)));
        }
        x
    };
    b.wrapping_sub(a).wrapping_mul(inv)
}

// ------------------------------------------------------------------------------------------------------------------
// scan of a container (definition side of every "getter = scan" oracle)
// ------------------------------------------------------------------------------------------------------------------
#[derive(Clone, Debug, PartialEq, Eq)]
struct SOp {
    p: usize,
    bond: usize,
    vars: Vec<usize>,
    ins: Vec<bool>,
    outs: Vec<bool>,
    diag: bool,
    constant: bool,
}
fn sop<O: Op>(p: usize, op: &O) -> SOp {
    SOp {
        p,
        bond: op.get_bond(),
        vars: op.get_vars().to_vec(),
        ins: op.get_inputs().to_vec(),
        outs: op.get_outputs().to_vec(),
        diag: op.is_diagonal(),
        constant: op.is_constant(),
    }
}
fn scan<M: OpContainer>(m: &M) -> Vec<Option<SOp>> {
    (0..m.get_cutoff()).map(|p| m.get_pth(p).map(|op| sop(p, op))).collect()
}
fn occupied(s: &[Option<SOp>]) -> Vec<usize> {
    s.iter().enumerate().filter(|(_, o)| o.is_some()).map(|(p, _)| p).collect()
}
fn skeleton(s: &[Option<SOp>]) -> Vec<(usize, usize, Vec<usize>, bool)> {
    s.iter().flatten().map(|o| (o.p, o.bond, o.vars.clone(), o.constant)).collect()
}
fn offdiag(s: &[Option<SOp>]) -> Vec<SOp> {
    s.iter().flatten().filter(|o| o.ins != o.outs).cloned().collect()
}
/// states entering every slot, by plain propagation of `state`; Err(p) if the op at p does not meet its inputs
fn propagate(s: &[Option<SOp>], state: &[bool]) -> Result<(Vec<Vec<bool>>, Vec<bool>), usize> {
    let mut st = state.to_vec();
    let mut out = Vec::with_capacity(s.len());
    for (p, o) in s.iter().enumerate() {
        out.push(st.clone());
        if let Some(op) = o {
            for (k, v) in op.vars.iter().enumerate() {
                if st[*v] != op.ins[k] {
                    return Err(p);
                }
            }
            for (k, v) in op.vars.iter().enumerate() {
                st[*v] = op.outs[k];
            }
        }
    }
    Ok((out, st))
}

/// The Hamiltonian as the oracle sees it (closures over the real code's public matrix-element functions).
struct HamView<'a> {
    token: String,
    nbonds: usize,
    edge: Box<dyn Fn(usize) -> (Vec<usize>, bool) + 'a>,
    w: Box<dyn Fn(usize, &[bool], &[bool]) -> f64 + 'a>,
}
fn ising_nbonds(g: &G) -> usize {
    let n = g.get_nvars();
    g.get_edges().len() + n + if g.get_longitudinal_field().abs() > EPS { n } else { 0 }
}
fn ising_token(g: &G) -> String {
    let edges: Vec<String> = g.get_edges().iter().map(|(e, j)| format!("{},{},{}", e[0], e[1], rat(*j))).collect();
    format!(
        "I!{}!{}!{}!{}",
        g.get_nvars(),
        if edges.is_empty() { "-".to_string() } else { edges.join(";") },
        rat(g.get_transverse_field()),
        rat(g.get_longitudinal_field())
    )
}
fn ising_view(g: &G) -> HamView<'_> {
    let nvars = g.get_nvars();
    let ne = g.get_edges().len();
    HamView {
        token: ising_token(g),
        nbonds: ising_nbonds(g),
        edge: Box::new(move |b| {
            if b < ne {
                (g.get_edges()[b].0.clone(), false)
            } else if b < ne + nvars {
                (vec![b - ne], true)
            } else {
                (vec![b - ne - nvars], false)
            }
        }),
        w: Box::new(move |b, i, o| {
            let info = g.make_haminfo();
            let vars: Vec<usize> = if b < ne { g.get_edges()[b].0.clone() } else { vec![0] };
            G::hamiltonian(&info, &vars, b, i, o)
        }),
    }
}
fn patterns(n: usize) -> Vec<Vec<bool>> {
    (0..(1usize << n)).map(|i| (0..n).map(|b| (i >> (n - 1 - b)) & 1 == 1).collect()).collect()
}
fn generic_vars(bonds: &[Interaction]) -> Vec<Vec<usize>> {
    js(&bonds.to_vec())
        .as_array()
        .unwrap()
        .iter()
        .map(|b| b["vars"].as_array().unwrap().iter().map(|v| v.as_u64().unwrap() as usize).collect())
        .collect()
}
/// table form of the generic sampler's Hamiltonian, read through the public `Interaction::at`
fn generic_table(bonds: &[Interaction], vars: &[Vec<usize>]) -> Vec<TableBond> {
    bonds
        .iter()
        .zip(vars.iter())
        .map(|(b, vs)| {
            let pats = patterns(vs.len());
            let mut mat = vec![];
            for o in pats.iter() {
                for i in pats.iter() {
                    mat.push(b.at(i, o).unwrap());
                }
            }
            // the constant flag is recomputed from the MATRIX, never taken from the library's own classification
            let constant = mat.iter().all(|x| *x == mat[0]);
            TableBond { vars: vs.clone(), constant, mat }
        })
        .collect()
}
fn generic_view<'a>(bonds: &'a [Interaction], table: &'a [TableBond]) -> HamView<'a> {
    HamView {
        token: show_table_ham(table),
        nbonds: table.len(),
        edge: Box::new(move |b| (table[b].vars.clone(), table[b].constant)),
        w: Box::new(move |b, i, o| bonds[b].at(i, o).unwrap_or(f64::NAN)),
    }
}

/// C06 (world-line consistency, periodicity) + C07 (legality) + C12 (n <= cutoff) of a configuration
fn check_config<M: OpContainer>(m: &M, state: &[bool], hv: &HamView) -> Result<(), String> {
    let s = scan(m);
    if state.len() != m.get_nvars() {
        return Err(format!("C06 state has {} spins, container {} variables", state.len(), m.get_nvars()));
    }
    match propagate(&s, state) {
        Err(p) => return Err(format!("C06 op at p={} does not meet its recorded inputs", p)),
        Ok((_, fin)) => {
            if fin != state {
                return Err(format!("C06 propagation ends in {} not in the reported state {}", bits(&fin), bits(state)));
            }
        }
    }
    if !m.verify(state) {
        return Err("C06 OpContainer::verify(state) is false on a consistent configuration".into());
    }
    for op in s.iter().flatten() {
        if op.bond >= hv.nbonds {
            return Err(format!("C07 p={} bond {} out of range {}", op.p, op.bond, hv.nbonds));
        }
        let (vars, c) = (hv.edge)(op.bond);
        if vars != op.vars {
            return Err(format!("C07 p={} bond {} vars {:?} but the bond acts on {:?}", op.p, op.bond, op.vars, vars));
        }
        if c != op.constant {
            return Err(format!("C07 p={} bond {} constant flag {} but bond says {}", op.p, op.bond, op.constant, c));
        }
        if op.ins.len() != vars.len() || op.outs.len() != vars.len() {
            return Err(format!("C07 p={} wrong number of values", op.p));
        }
        if op.diag != (op.ins == op.outs) {
            return Err(format!("C07 p={} tag diagonal={} but ins {} outs {}", op.p, op.diag, bits(&op.ins), bits(&op.outs)));
        }
        let w = (hv.w)(op.bond, &op.ins, &op.outs);
        if !(w > 0.0) {
            return Err(format!("C07 p={} bond {} {}->{} has matrix element {}", op.p, op.bond, bits(&op.ins), bits(&op.outs), w));
        }
    }
    let n = occupied(&s).len();
    if m.get_n() != n {
        return Err(format!("C11 get_n {} but {} occupied slots", m.get_n(), n));
    }
    if n > m.get_cutoff() {
        return Err("C12 more ops than slots".into());
    }
    Ok(())
}

fn prev_var(s: &[Option<SOp>], p: usize, v: usize) -> Option<PRel> {
    (0..p).rev().find_map(|q| s[q].as_ref().and_then(|o| o.vars.iter().position(|x| *x == v).map(|relv| PRel { p: q, relv })))
}
fn next_var(s: &[Option<SOp>], p: usize, v: usize) -> Option<PRel> {
    (p + 1..s.len()).find_map(|q| s[q].as_ref().and_then(|o| o.vars.iter().position(|x| *x == v).map(|relv| PRel { p: q, relv })))
}

/// C11: every navigation getter of the container equals what a scan of the slots gives
fn check_nav<M: LoopUpdater>(m: &M, nbonds: usize) -> Result<(), String> {
    let s = scan(m);
    let occ = occupied(&s);
    let nvars = m.get_nvars();
    if m.get_n() != occ.len() {
        return Err(format!("C11 get_n {} vs scan {}", m.get_n(), occ.len()));
    }
    if m.get_first_p() != occ.first().cloned() || m.get_last_p() != occ.last().cloned() {
        return Err(format!("C11 first/last p {:?}/{:?} vs scan {:?}/{:?}", m.get_first_p(), m.get_last_p(), occ.first(), occ.last()));
    }
    for b in 0..nbonds + 2 {
        let c = s.iter().flatten().filter(|o| o.bond == b).count();
        if m.get_count(b) != c {
            return Err(format!("C11 get_count({}) = {} vs scan {}", b, m.get_count(b), c));
        }
    }
    for v in 0..nvars {
        let f = (0..s.len()).find_map(|q| s[q].as_ref().and_then(|o| o.vars.iter().position(|x| *x == v).map(|relv| PRel { p: q, relv })));
        let l = prev_var(&s, s.len(), v);
        if m.get_first_p_for_var(v) != f || m.get_last_p_for_var(v) != l {
            return Err(format!("C11 var {} first/last {:?}/{:?} vs scan {:?}/{:?}", v, m.get_first_p_for_var(v), m.get_last_p_for_var(v), f, l));
        }
        if m.does_var_have_ops(v) != f.is_some() {
            return Err(format!("C11 does_var_have_ops({}) = {} vs scan {}", v, m.does_var_have_ops(v), f.is_some()));
        }
    }
    for (k, p) in occ.iter().enumerate() {
        let node = match m.get_node_ref(*p) {
            Some(n) => n,
            None => return Err(format!("C11 get_node_ref({}) is None on an occupied slot", p)),
        };
        let o = s[*p].as_ref().unwrap();
        if sop(*p, node.get_op_ref()) != *o {
            return Err(format!("C11 node at {} holds another op than get_pth", p));
        }
        let pp = if k > 0 { Some(occ[k - 1]) } else { None };
        let np = occ.get(k + 1).cloned();
        if m.get_previous_p(node) != pp || m.get_next_p(node) != np {
            return Err(format!("C11 p={} prev/next {:?}/{:?} vs scan {:?}/{:?}", p, m.get_previous_p(node), m.get_next_p(node), pp, np));
        }
        for (relv, v) in o.vars.iter().enumerate() {
            let (pv, nv) = (prev_var(&s, *p, *v), next_var(&s, *p, *v));
            if m.get_previous_p_for_rel_var(relv, node) != pv || m.get_next_p_for_rel_var(relv, node) != nv {
                return Err(format!("C11 p={} var {} prev/next by rel var vs scan {:?}/{:?}", p, v, pv, nv));
            }
            if m.get_previous_p_for_var(*v, node) != Ok(pv) || m.get_next_p_for_var(*v, node) != Ok(nv) {
                return Err(format!("C11 p={} var {} prev/next by var vs scan {:?}/{:?}", p, v, pv, nv));
            }
        }
        for v in 0..nvars {
            if !o.vars.contains(&v) && (m.get_previous_p_for_var(v, node).is_ok() || m.get_next_p_for_var(v, node).is_ok()) {
                return Err(format!("C11 p={} by-variable navigation answers for variable {} that is not on the op", p, v));
            }
        }
        if m.get_nth_p(k) != *p {
            return Err(format!("C11 get_nth_p({}) = {} vs scan {}", k, m.get_nth_p(k), p));
        }
    }
    for (p, o) in s.iter().enumerate() {
        if o.is_none() && m.get_node_ref(p).is_some() {
            return Err(format!("C11 get_node_ref({}) is Some on an empty slot", p));
        }
    }
    Ok(())
}

// ------------------------------------------------------------------------------------------------------------------
// pool oracle (C18): balance of one call from the hook log + snapshot of the allocator
// ------------------------------------------------------------------------------------------------------------------
fn pool_begin() {
    let _ = verif_log::take();
}
fn pool_end(what: &str) -> Result<(), String> {
    let log = verif_log::take();
    let mut bal: BTreeMap<&'static str, i64> = BTreeMap::new();
    for (ty, d, clean, _left) in log.iter() {
        match d {
            1 => *bal.entry(ty).or_insert(0) += 1,
            -1 => {
                *bal.entry(ty).or_insert(0) -= 1;
                if !*clean {
                    return Err(format!("C18 {}: returned {} not clean after reset", what, ty));
                }
            }
            _ => return Err(format!("C18 {}: pool exhausted for {}", what, ty)),
        }
    }
    for (ty, b) in bal.iter() {
        if *b != 0 {
            return Err(format!("C18 {}: {} gets - returns = {}", what, ty, b));
        }
    }
    Ok(())
}
fn alloc_snap<T: serde::Serialize>(m: &T) -> Value {
    js(m)["alloc"].clone()
}

// ------------------------------------------------------------------------------------------------------------------
// generators (dyadic inputs only)
// ------------------------------------------------------------------------------------------------------------------
fn gen_beta(r: &mut SplitMix64) -> f64 {
    *r.pick(&[0.25, 0.5, 1.0, 1.0, 1.5, 2.0, 3.0, 4.0])
}
#[derive(Clone, Debug)]
struct IsingSpec {
    nvars: usize,
    edges: Vec<((usize, usize), f64)>,
    gamma: f64,
    h: f64,
}
fn gen_ising_spec(r: &mut SplitMix64, force_h: Option<bool>) -> IsingSpec {
    let nvars = r.range(2, 5) as usize;
    let mut pairs = vec![];
    for v in 0..nvars - 1 {
        pairs.push((v, v + 1));
    }
    for _ in 0..r.range(0, 3) {
        let a = r.below(nvars as u64) as usize;
        let b = r.below(nvars as u64) as usize;
        if a != b {
            pairs.push((a, b));
        }
    }
    let edges = pairs
        .into_iter()
        .map(|(a, b)| {
            let mag = *r.pick(&[0.25, 0.5, 1.0, 1.0, 1.5]);
            let j = if r.coin() { mag } else { -mag };
            if r.coin() {
                ((a, b), j)
            } else {
                ((b, a), j)
            }
        })
        .collect();
    let gamma = *r.pick(&[0.25, 0.5, 1.0, 1.0, 2.0]);
    let with_h = force_h.unwrap_or_else(|| r.chance(1, 2));
    let h = if with_h { *r.pick(&[0.25, 0.5, 1.0, -0.25, -0.5, -1.0]) } else { 0.0 };
    IsingSpec { nvars, edges, gamma, h }
}
fn spec_token(s: &IsingSpec) -> String {
    let e: Vec<String> = s.edges.iter().map(|((a, b), j)| format!("{},{},{}", a, b, rat(*j))).collect();
    format!("I!{}!{}!{}!{}", s.nvars, e.join(";"), rat(s.gamma), rat(s.h))
}
/// same lattice and signs, magnitudes scaled by powers of two (replicas that may be exchanged; ratios stay exact)
fn scale_spec(r: &mut SplitMix64, s: &IsingSpec) -> IsingSpec {
    let f = *r.pick(&[0.5, 1.0, 2.0]);
    IsingSpec {
        nvars: s.nvars,
        edges: s.edges.iter().map(|(e, j)| (*e, j * f)).collect(),
        gamma: s.gamma * *r.pick(&[0.5, 1.0, 2.0]),
        h: s.h * *r.pick(&[0.5, 1.0, 2.0]),
    }
}
fn gen_state(r: &mut SplitMix64, n: usize) -> Vec<bool> {
    match r.below(4) {
        0 => vec![false; n],
        1 => vec![true; n],
        _ => (0..n).map(|_| r.coin()).collect(),
    }
}
fn build_ising(s: &IsingSpec, cutoff: usize, state: Option<Vec<bool>>, seed: u64) -> G {
    G::new_with_rng(s.edges.clone(), s.gamma, s.h, cutoff, SplitMix64::new(seed), state)
}
/// a sampler with a non-trivial operator string (some time steps, options at random)
fn warm_ising(r: &mut SplitMix64, force_h: Option<bool>) -> (IsingSpec, G, f64) {
    let s = gen_ising_spec(r, force_h);
    let beta = gen_beta(r);
    let st = if r.chance(1, 5) { None } else { Some(gen_state(r, s.nvars)) };
    let mut g = build_ising(&s, r.range(1, 12) as usize, st, r.next());
    if r.chance(1, 3) {
        g.set_run_rvb(true);
    }
    if r.chance(1, 4) {
        g.set_enable_heatbath(true);
    }
    for _ in 0..r.range(1, 6) {
        g.timestep(beta);
    }
    g.set_run_rvb(false);
    g.set_enable_heatbath(false);
    (s, g, beta)
}

/// one interaction of the generic sampler, as data (so that the same model can be installed on any manager type)
#[derive(Clone, Debug)]
struct Term {
    /// 0 make_interaction, 1 make_interaction_and_offset, 2 make_diagonal_interaction, 3 make_diagonal_interaction_and_offset
    ctor: u8,
    mat: Vec<f64>,
    vars: Vec<usize>,
}
fn gen_terms(r: &mut SplitMix64, kind: u64, nvars: usize) -> Vec<Term> {
    let mut t = vec![];
    let pop = |x: usize| x.count_ones() as usize;
    match kind {
        0 => {
            // exchange type (XXZ-like) ring + optional sz+sx+1 site terms
            let d = *r.pick(&[0.5, 1.0, 2.0]);
            let x = *r.pick(&[0.5, 1.0]);
            for v in 0..nvars {
                let w = (v + 1) % nvars;
                if w != v && !(nvars == 2 && v == 1) {
                    let mut m = vec![0.0; 16];
                    m[5] = d;
                    m[10] = d;
                    m[0] = *r.pick(&[0.0, 0.25]);
                    m[15] = m[0];
                    m[6] = x;
                    m[9] = x;
                    t.push(Term { ctor: 0, mat: m, vars: vec![v, w] });
                }
            }
            if r.coin() {
                for v in 0..nvars {
                    t.push(Term { ctor: 0, mat: vec![2.0, 1.0, 1.0, 0.0], vars: vec![v] });
                }
            }
        }
        1 => {
            // Ising symmetric two-site diagonal terms + constant single-site terms (cluster updates run)
            for v in 0..nvars - 1 {
                let j = *r.pick(&[0.5, 1.0, 1.5]);
                let m = if r.coin() { vec![j, 0.0, 0.0, j] } else { vec![0.0, j, j, 0.0] };
                let vars = if r.coin() { vec![v, v + 1] } else { vec![v + 1, v] };
                t.push(Term { ctor: 2, mat: m, vars });
            }
            let c = *r.pick(&[0.5, 1.0, 2.0]);
            for v in 0..nvars {
                t.push(Term { ctor: 0, mat: vec![c, c, c, c], vars: vec![v] });
            }
            if r.coin() {
                let mut m = vec![0.0; 16];
                m[0] = 1.0;
                m[15] = 1.0;
                m[3] = 0.5;
                m[12] = 0.5;
                t.push(Term { ctor: 0, mat: m, vars: vec![0, nvars - 1] });
            }
        }
        2 => {
            // mixed: three-variable diagonal table, offset constructors (negative entries), non-symmetric site terms
            if nvars >= 3 {
                let m: Vec<f64> = (0..8).map(|_| *r.pick(&[-0.5, 0.0, 0.5, 1.0, 2.0])).collect();
                t.push(Term { ctor: 3, mat: m, vars: vec![0, 2, 1] });
            }
            for v in 0..nvars {
                let a = *r.pick(&[0.5, 1.0]);
                t.push(Term { ctor: 1, mat: vec![-a, 0.5, 0.5, a], vars: vec![v] });
            }
            for v in 0..nvars - 1 {
                t.push(Term { ctor: 2, mat: vec![1.0, 0.0, 0.25, 1.0], vars: vec![v, v + 1] });
            }
        }
        _ => {
            // three-variable FULL matrix by Hamming distance + two-site full/diagonal terms + site terms (some constant)
            let d = *r.pick(&[0.5, 1.0, 2.0]);
            let x1 = *r.pick(&[0.25, 0.5, 1.0]);
            let x2 = *r.pick(&[0.25, 0.5, 0.75]);
            if nvars >= 3 {
                let mut m3 = vec![0.0; 64];
                for o in 0..8usize {
                    for i in 0..8usize {
                        m3[(o << 3) | i] = match pop(o ^ i) {
                            0 => d,
                            1 => x1,
                            2 => x2,
                            _ => 0.125,
                        };
                    }
                }
                let v0 = r.below(nvars as u64 - 2) as usize;
                t.push(Term { ctor: 0, mat: m3, vars: vec![v0 + 2, v0, v0 + 1] });
            }
            for v in 0..nvars - 1 {
                if r.coin() {
                    let mut m2 = vec![0.0; 16];
                    for o in 0..4usize {
                        for i in 0..4usize {
                            m2[(o << 2) | i] = match pop(o ^ i) {
                                0 => d,
                                1 => x1,
                                _ => x2,
                            };
                        }
                    }
                    t.push(Term { ctor: 0, mat: m2, vars: vec![v, v + 1] });
                } else {
                    t.push(Term { ctor: 2, mat: vec![1.0, 0.0, 0.0, 1.0], vars: vec![v, v + 1] });
                }
            }
            for v in 0..nvars {
                match r.below(3) {
                    0 => t.push(Term { ctor: 0, mat: vec![1.0, 0.5, 0.5, 1.0], vars: vec![v] }),
                    1 => t.push(Term { ctor: 0, mat: vec![1.0, 1.0, 1.0, 1.0], vars: vec![v] }),
                    _ => {}
                }
            }
        }
    }
    t
}
fn add_terms<R: Rng, M: QmcManager>(q: &mut Qmc<R, M>, terms: &[Term]) -> Result<(), String> {
    for t in terms {
        match t.ctor {
            0 => q.make_interaction(t.mat.clone(), t.vars.clone())?,
            1 => q.make_interaction_and_offset(t.mat.clone(), t.vars.clone())?,
            2 => q.make_diagonal_interaction(t.mat.clone(), t.vars.clone())?,
            _ => q.make_diagonal_interaction_and_offset(t.mat.clone(), t.vars.clone())?,
        }
    }
    Ok(())
}
fn terms_token(nvars: usize, terms: &[Term]) -> String {
    let parts: Vec<String> = terms.iter().map(|t| format!("{}:{}:{}", t.ctor, list(&t.vars), rats(&t.mat))).collect();
    format!("T{}!{}", nvars, parts.join("!"))
}
struct GenSpec {
    kind: u64,
    nvars: usize,
    terms: Vec<Term>,
    loops: bool,
    heatbath: bool,
}
fn gen_generic_spec(r: &mut SplitMix64) -> GenSpec {
    let kind = r.below(4);
    let nvars = if kind == 3 { r.range(3, 4) as usize } else { r.range(2, 4) as usize };
    let terms = gen_terms(r, kind, nvars);
    let loops = kind == 0 || kind == 3 || r.coin();
    GenSpec { kind, nvars, terms, loops, heatbath: r.chance(1, 3) }
}
fn build_generic(gs: &GenSpec, state: Vec<bool>, seed: u64) -> Q {
    let mut q = Q::new_with_state(gs.nvars, SplitMix64::new(seed), state, gs.loops);
    add_terms(&mut q, &gs.terms).expect("legal interactions");
    q.set_do_heatbath(gs.heatbath);
    q
}
fn warm_generic(r: &mut SplitMix64) -> (GenSpec, Q, f64) {
    let gs = gen_generic_spec(r);
    let beta = gen_beta(r);
    let mut q = build_generic(&gs, gen_state(r, gs.nvars), r.next());
    for _ in 0..r.range(1, 6) {
        q.timestep(beta);
    }
    (gs, q, beta)
}

// ------------------------------------------------------------------------------------------------------------------
// Hamiltonians / edge navigation handed to the TRAIT-LEVEL update functions (the harness's own statement of the bond layout)
// ------------------------------------------------------------------------------------------------------------------
/// bonds 0..ne: edges (not constant); ne..ne+n: transverse (constant); ne+n..ne+2n: longitudinal (only if |h| > EPSILON)
#[derive(Clone, Copy)]
struct IsingHam<'a> {
    g: &'a G,
    vars: &'a [usize],
}
impl<'a> Hamiltonian<'a> for IsingHam<'a> {
    fn hamiltonian(&self, vars: &[usize], bond: usize, inputs: &[bool], outputs: &[bool]) -> f64 {
        G::hamiltonian(&self.g.make_haminfo(), vars, bond, inputs, outputs)
    }
    fn edge_fn(&self, b: usize) -> (&'a [usize], bool) {
        let g: &'a G = self.g;
        let vars: &'a [usize] = self.vars;
        let (ne, n) = (g.get_edges().len(), g.get_nvars());
        if b < ne {
            (&g.get_edges()[b].0, false)
        } else if b < ne + n {
            (&vars[b - ne..b - ne + 1], true)
        } else {
            (&vars[b - ne - n..b - ne - n + 1], false)
        }
    }
    fn num_bonds(&self) -> usize {
        ising_nbonds(self.g)
    }
}
#[derive(Clone, Copy)]
struct GenHam<'a> {
    bonds: &'a [Interaction],
    table: &'a [TableBond],
}
impl<'a> Hamiltonian<'a> for GenHam<'a> {
    fn hamiltonian(&self, _vars: &[usize], bond: usize, inputs: &[bool], outputs: &[bool]) -> f64 {
        self.bonds[bond].at(inputs, outputs).unwrap()
    }
    fn edge_fn(&self, b: usize) -> (&'a [usize], bool) {
        let t: &'a [TableBond] = self.table;
        (&t[b].vars, t[b].constant)
    }
    fn num_bonds(&self) -> usize {
        self.table.len()
    }
}
struct Nav {
    var_to_bonds: Vec<Vec<usize>>,
    edges: Vec<(Vec<usize>, f64)>,
}
fn nav_of(g: &G) -> Nav {
    let mut var_to_bonds = vec![vec![]; g.get_nvars()];
    for (b, (e, _)) in g.get_edges().iter().enumerate() {
        var_to_bonds[e[0]].push(b);
        var_to_bonds[e[1]].push(b);
    }
    Nav { var_to_bonds, edges: g.get_edges().to_vec() }
}
impl EdgeNavigator for Nav {
    fn n_bonds(&self) -> usize {
        hit("EdgeNavigator::n_bonds");
        self.edges.len()
    }
    fn bonds_for_var(&self, var: usize) -> &[usize] {
        hit("EdgeNavigator::bonds_for_var");
        &self.var_to_bonds[var]
    }
    fn vars_for_bond(&self, bond: usize) -> (usize, usize) {
        hit("EdgeNavigator::vars_for_bond");
        (self.edges[bond].0[0], self.edges[bond].0[1])
    }
    fn bond_prefers_aligned(&self, bond: usize) -> bool {
        hit("EdgeNavigator::bond_prefers_aligned");
        self.edges[bond].1 < 0.0
    }
    fn bond_mag(&self, b: usize) -> f64 {
        hit("EdgeNavigator::bond_mag");
        self.edges[b].1.abs()
    }
}

// ------------------------------------------------------------------------------------------------------------------
// a NAIVE slot-array container written against the public traits only: everything is found by scanning, every
// provided (default) trait method is inherited — `mutate_ops`, `try_iterate_ops`, `iterate_*`, `get_nth_p`,
// `get_*_p_for_var`, `does_var_have_ops`, `make_loop_update*`, `flip_each_cluster*`, `find_constant_op`, the diagonal
// and heat-bath sweeps, `verify` — and the three `post_*_hook`s are counted.
// ------------------------------------------------------------------------------------------------------------------
#[derive(Clone, Debug)]
struct NaiveNode {
    op: FastOp,
    p: usize,
}
impl OpNode<FastOp> for NaiveNode {
    fn get_op(&self) -> FastOp {
        self.op.clone()
    }
    fn get_op_ref(&self) -> &FastOp {
        &self.op
    }
    fn get_op_mut(&mut self) -> &mut FastOp {
        &mut self.op
    }
}
#[derive(Clone, Debug, Default)]
struct NaiveOps {
    slots: Vec<Option<NaiveNode>>,
    nvars: usize,
    hooks: [usize; 3],
    gets: usize,
    rets: usize,
    dirty_returns: usize,
}
impl OpContainerConstructor for NaiveOps {
    fn new(nvars: usize) -> Self {
        NaiveOps { nvars, ..Default::default() }
    }
    fn new_with_bonds(nvars: usize, _nbonds: usize) -> Self {
        NaiveOps { nvars, ..Default::default() }
    }
}
impl OpContainer for NaiveOps {
    type Op = FastOp;
    fn get_cutoff(&self) -> usize {
        self.slots.len()
    }
    fn set_cutoff(&mut self, cutoff: usize) {
        if cutoff > self.slots.len() {
            self.slots.resize(cutoff, None)
        }
    }
    fn get_n(&self) -> usize {
        self.slots.iter().filter(|s| s.is_some()).count()
    }
    fn get_nvars(&self) -> usize {
        self.nvars
    }
    fn get_pth(&self, p: usize) -> Option<&FastOp> {
        self.slots.get(p).and_then(|s| s.as_ref()).map(|n| &n.op)
    }
    fn get_count(&self, bond: usize) -> usize {
        self.slots.iter().flatten().filter(|n| n.op.get_bond() == bond).count()
    }
    fn itime_fold<F, T>(&self, state: &mut [bool], fold_fn: F, init: T) -> T
    where
        F: Fn(T, &[bool]) -> T,
    {
        let mut acc = init;
        for p in 0..self.slots.len() {
            acc = fold_fn(acc, state);
            if let Some(n) = &self.slots[p] {
                for (k, v) in n.op.get_vars().iter().enumerate() {
                    state[*v] = n.op.get_outputs()[k];
                }
            }
        }
        acc
    }
}
impl DiagonalUpdater for NaiveOps {
    fn mutate_ps<F, T>(&mut self, pstart: usize, pend: usize, t: T, f: F) -> T
    where
        F: Fn(&Self, Option<&Self::Op>, T) -> (Option<Option<Self::Op>>, T),
    {
        if pend > self.slots.len() {
            self.slots.resize(pend, None);
        }
        let mut t = t;
        for p in pstart..pend {
            let (new, tt) = f(self, self.slots[p].as_ref().map(|n| &n.op), t);
            t = tt;
            if let Some(new) = new {
                self.slots[p] = new.map(|op| NaiveNode { op, p });
            }
        }
        t
    }
    fn try_iterate_ps<F, T, V>(&self, pstart: usize, pend: usize, t: T, f: F) -> Result<T, V>
    where
        F: Fn(&Self, Option<&Self::Op>, T) -> Result<T, V>,
    {
        let l = self.slots.len();
        self.slots[pstart.min(l)..pend.min(l)].iter().try_fold(t, |t, s| f(self, s.as_ref().map(|n| &n.op), t))
    }
    fn post_diagonal_update_hook(&mut self) {
        self.hooks[0] += 1;
    }
}
impl HeatBathDiagonalUpdater for NaiveOps {}
impl NaiveOps {
    fn on_var(&self, q: usize, v: usize) -> Option<PRel> {
        self.slots[q].as_ref().and_then(|n| n.op.get_vars().iter().position(|x| *x == v).map(|relv| PRel { p: q, relv }))
    }
}
impl LoopUpdater for NaiveOps {
    type Node = NaiveNode;
    fn get_node_ref(&self, p: usize) -> Option<&NaiveNode> {
        self.slots.get(p).and_then(|s| s.as_ref())
    }
    fn get_node_mut(&mut self, p: usize) -> Option<&mut NaiveNode> {
        self.slots.get_mut(p).and_then(|s| s.as_mut())
    }
    fn get_first_p(&self) -> Option<usize> {
        self.slots.iter().position(|s| s.is_some())
    }
    fn get_last_p(&self) -> Option<usize> {
        self.slots.iter().rposition(|s| s.is_some())
    }
    fn get_first_p_for_var(&self, var: usize) -> Option<PRel> {
        (0..self.slots.len()).find_map(|q| self.on_var(q, var))
    }
    fn get_last_p_for_var(&self, var: usize) -> Option<PRel> {
        (0..self.slots.len()).rev().find_map(|q| self.on_var(q, var))
    }
    fn get_previous_p(&self, node: &NaiveNode) -> Option<usize> {
        (0..node.p).rev().find(|q| self.slots[*q].is_some())
    }
    fn get_next_p(&self, node: &NaiveNode) -> Option<usize> {
        (node.p + 1..self.slots.len()).find(|q| self.slots[*q].is_some())
    }
    fn get_previous_p_for_rel_var(&self, relvar: usize, node: &NaiveNode) -> Option<PRel> {
        let v = node.op.get_vars()[relvar];
        (0..node.p).rev().find_map(|q| self.on_var(q, v))
    }
    fn get_next_p_for_rel_var(&self, relvar: usize, node: &NaiveNode) -> Option<PRel> {
        let v = node.op.get_vars()[relvar];
        (node.p + 1..self.slots.len()).find_map(|q| self.on_var(q, v))
    }
    fn post_loop_update_hook(&mut self) {
        self.hooks[1] += 1;
    }
}
impl ClusterUpdater for NaiveOps {
    fn post_cluster_update_hook(&mut self) {
        self.hooks[2] += 1;
    }
}
macro_rules! naive_factory {
    ($t:ty) => {
        impl Factory<$t> for NaiveOps {
            fn get_instance(&mut self) -> $t {
                self.gets += 1;
                Default::default()
            }
            fn return_instance(&mut self, t: $t) {
                self.rets += 1;
                // the library hands buffers back WITHOUT emptying them (the pool resets them); only count
                if !t.is_empty() {
                    self.dirty_returns += 1;
                }
            }
        }
    };
}
naive_factory!(Vec<bool>);
naive_factory!(Vec<usize>);
naive_factory!(Vec<Option<usize>>);
naive_factory!(Vec<OpSide>);
naive_factory!(Vec<(usize, OpSide)>);
naive_factory!(Vec<f64>);
impl QmcManager for NaiveOps {}

// ------------------------------------------------------------------------------------------------------------------
// sampler-level invariant bundles
// ------------------------------------------------------------------------------------------------------------------
/// C06 C07 C11 C12 on an Ising sampler (any rng type): configuration, navigation, fold, counters, verify
fn check_ising<R: Rng>(g: &QmcIsingGraph<R, FastOps>, view_of: &G) -> Result<(), String> {
    // `view_of` supplies the Hamiltonian (a SplitMix64-typed twin with the same parameters)
    let hv = ising_view(view_of);
    let m = g.get_manager_ref();
    check_config(m, g.state_ref(), &hv)?;
    check_nav(m, hv.nbonds)?;
    if !g.verify() {
        return Err("C06 Verify::verify() is false on a consistent sampler".into());
    }
    let s = scan(m);
    let (states, _) = propagate(&s, g.state_ref()).map_err(|p| format!("C06 inconsistent at {}", p))?;
    let fold = catch(|| {
        g.imaginary_time_fold(
            |mut acc: Vec<Vec<bool>>, st: &[bool]| {
                acc.push(st.to_vec());
                acc
            },
            vec![],
        )
    })
    .map_err(|e| format!("C06 imaginary_time_fold panicked: {}", e))?;
    if fold != states {
        return Err("C06/C17 imaginary_time_fold states differ from the propagated states".into());
    }
    if QmcStepper::get_n(g) != occupied(&s).len() || g.get_n() != occupied(&s).len() {
        return Err("C11 sampler get_n differs from the scan".into());
    }
    for b in 0..hv.nbonds {
        if g.get_bond_count(b) != s.iter().flatten().filter(|o| o.bond == b).count() {
            return Err(format!("C11 get_bond_count({}) differs from the scan", b));
        }
    }
    if g.get_cutoff() < occupied(&s).len() {
        return Err(format!("C12 cutoff {} < n {}", g.get_cutoff(), occupied(&s).len()));
    }
    if let Some(last) = occupied(&s).last() {
        if *last >= g.get_cutoff() {
            return Err(format!("C12 op at p={} beyond the sampler cutoff {}", last, g.get_cutoff()));
        }
    }
    Ok(())
}
fn cutoff_rule(cutoff: usize, n: usize) -> Result<(), String> {
    if cutoff < n + n / 2 + 1 {
        Err(format!("C12 after a time step cutoff {} < n + n/2 + 1 with n = {}", cutoff, n))
    } else {
        Ok(())
    }
}
fn check_generic<R: Rng>(q: &Qmc<R, FastOps>) -> Result<(), String> {
    let vars = generic_vars(q.get_bonds());
    let table = generic_table(q.get_bonds(), &vars);
    let hv = generic_view(q.get_bonds(), &table);
    let m = q.get_manager_ref();
    check_config(m, q.state_ref(), &hv)?;
    check_nav(m, hv.nbonds)?;
    let s = scan(m);
    let (states, _) = propagate(&s, q.state_ref()).map_err(|p| format!("C06 inconsistent at {}", p))?;
    let fold = catch(|| {
        q.imaginary_time_fold(
            |mut acc: Vec<Vec<bool>>, st: &[bool]| {
                acc.push(st.to_vec());
                acc
            },
            vec![],
        )
    })
    .map_err(|e| format!("C06 imaginary_time_fold panicked: {}", e))?;
    if fold != states {
        return Err("C06/C17 imaginary_time_fold states differ from the propagated states".into());
    }
    if QmcStepper::get_n(q) != occupied(&s).len() {
        return Err("C11 sampler get_n differs from the scan".into());
    }
    for b in 0..hv.nbonds {
        if q.get_bond_count(b) != s.iter().flatten().filter(|o| o.bond == b).count() {
            return Err(format!("C11 get_bond_count({}) differs from the scan", b));
        }
    }
    if q.get_cutoff() < occupied(&s).len() {
        return Err(format!("C12 cutoff {} < n {}", q.get_cutoff(), occupied(&s).len()));
    }
    Ok(())
}

// ------------------------------------------------------------------------------------------------------------------
// c01: Ising constructors, offset, Hamiltonian table
// ------------------------------------------------------------------------------------------------------------------
/// matrix element demanded by the property statement: -H_b + (smallest shift making the diagonal non-negative)
fn ising_expected_w(s: &IsingSpec, b: usize, ins: &[bool], outs: &[bool]) -> f64 {
    let ne = s.edges.len();
    if b < ne {
        let j = s.edges[b].1;
        if ins != outs {
            0.0
        } else if ins[0] == ins[1] {
            j.abs() - j
        } else {
            j.abs() + j
        }
    } else if b < ne + s.nvars {
        s.gamma
    } else if ins != outs {
        0.0
    } else if ins[0] {
        s.h.abs() + s.h
    } else {
        s.h.abs() - s.h
    }
}
fn ising_same_model<R: Rng>(c: &mut Chk, what: &str, s: &IsingSpec, cutoff: usize, st: Option<&[bool]>, g: &QmcIsingGraph<R, FastOps>) {
    let edges: Vec<(Vec<usize>, f64)> = s.edges.iter().map(|((a, b), j)| (vec![*a, *b], *j)).collect();
    c.eq(&format!("{} edges", what), &g.get_edges().to_vec(), &edges);
    c.eq(&format!("{} transverse", what), &g.get_transverse_field(), &s.gamma);
    c.eq(&format!("{} longitudinal", what), &g.get_longitudinal_field(), &s.h);
    c.eq(&format!("{} nvars", what), &g.get_nvars(), &s.nvars);
    c.eq(&format!("{} cutoff", what), &g.get_cutoff(), &cutoff);
    c.ck(g.get_manager_ref().get_cutoff() >= cutoff, || format!("{}: manager holds fewer slots than the cutoff", what));
    c.eq(&format!("{} manager nvars", what), &g.get_manager_ref().get_nvars(), &s.nvars);
    c.eq(&format!("{} n", what), &g.get_n(), &0);
    let off = s.edges.iter().map(|(_, j)| j.abs()).sum::<f64>() + s.nvars as f64 * (s.gamma + s.h.abs());
    c.eq(&format!("{} C01 offset = sum|J| + n(Gamma+|h|)", what), &g.get_offset(), &off);
    for nbar in [0.0, 1.5, 7.25] {
        for beta in [0.5, 2.0] {
            c.eq(&format!("{} C17 energy(-n/beta+offset)", what), &g.get_energy_for_average_n(nbar, beta), &(-(nbar / beta) + off));
        }
    }
    if let Some(st) = st {
        c.eq(&format!("{} state", what), &g.state_ref().to_vec(), &st.to_vec());
        c.eq(&format!("{} clone_state", what), &g.clone_state(), &st.to_vec());
    }
    let info = g.make_haminfo();
    let ne = s.edges.len();
    let nb = ne + 2 * s.nvars;
    for b in 0..nb {
        let k = if b < ne { 2 } else { 1 };
        let vars: Vec<usize> = if b < ne { vec![s.edges[b].0 .0, s.edges[b].0 .1] } else { vec![(b - ne) % s.nvars] };
        for i in patterns(k) {
            for o in patterns(k) {
                let w = QmcIsingGraph::<R, FastOps>::hamiltonian(&info, &vars, b, &i, &o);
                let e = ising_expected_w(s, b, &i, &o);
                c.ck(w == e, || format!("{} C01 hamiltonian(bond {}, {}->{}) = {} expected {}", what, b, bits(&i), bits(&o), w, e));
            }
        }
    }
}
fn mode_c01(r: &mut SplitMix64, n: usize) {
    for i in 0..n {
        let s = gen_ising_spec(r, None);
        let cutoff = r.range(1, 12) as usize;
        let beta = gen_beta(r);
        let with_state = r.chance(3, 4);
        let st = gen_state(r, s.nvars);
        let seed = r.next();
        let input = format!(
            "c01 ctor {} cutoff={} beta={} state={} seed={}",
            spec_token(&s),
            cutoff,
            rat(beta),
            if with_state { bits(&st) } else { "-".into() },
            seed
        );
        let sa = || if with_state { Some(st.clone()) } else { None };
        let mut c = Chk::new();
        hit("QmcIsingGraph::new_with_rng");
        let canon = match c.call("new_with_rng", || build_ising(&s, cutoff, sa(), seed)) {
            Some(g) => g,
            None => {
                case(true, &input, c.done());
                continue;
            }
        };
        let drawn = make_random_spin_state(s.nvars, &mut SplitMix64::new(seed));
        hit("graph::make_random_spin_state");
        let expect_state: Vec<bool> = if with_state { st.clone() } else { drawn };
        ising_same_model(&mut c, "new_with_rng", &s, cutoff, Some(&expect_state), &canon);
        hits(&[
            "QmcIsingGraph::get_offset",
            "QmcIsingGraph::get_cutoff",
            "QmcIsingGraph::clone_state",
            "QmcIsingGraph::get_manager_ref",
            "QmcIsingGraph::hamiltonian",
            "QmcIsingGraph::make_haminfo",
        ]);
        let zeros = vec![0.0; s.nvars];
        let mk_graph = || {
            if with_state {
                GraphState::new_with_state_and_rng(st.clone(), &s.edges, &zeros, SplitMix64::new(seed))
            } else {
                hit("GraphState::new");
                GraphState::new(&s.edges, &zeros, SplitMix64::new(seed))
            }
        };
        let mut variants: Vec<(&'static str, G)> = vec![];
        if let Some(g) = c.call("new_with_rng_with_manager_hook", || {
            G::new_with_rng_with_manager_hook(s.edges.clone(), s.gamma, s.h, cutoff, SplitMix64::new(seed), sa(), |nv, nb| {
                hit("OpContainerConstructor::new_with_bonds");
                <FastOps as OpContainerConstructor>::new_with_bonds(nv, nb)
            })
        }) {
            variants.push(("new_with_rng_with_manager_hook", g));
        }
        if let Some(g) = c.call("new_from_graph", || G::new_from_graph(mk_graph(), s.gamma, s.h, cutoff)) {
            hit("QmcIsingGraph::new_from_graph");
            variants.push(("new_from_graph", g));
        }
        if let Some(g) = c.call("new_qmc_from_graph", || new_qmc_from_graph(mk_graph(), s.gamma, s.h, cutoff)) {
            hit("qmc_ising::new_qmc_from_graph");
            variants.push(("new_qmc_from_graph", g));
        }
        if let Some(g) = c.call("SerializeQmcGraph::from + into_qmc", || {
            let sg: SerializeQmcGraph<FastOps> = canon.clone().into();
            sg.into_qmc(rng_of(&canon))
        }) {
            hits(&["SerializeQmcGraph::from", "SerializeQmcGraph::into_qmc", "QmcIsingGraph::clone"]);
            variants.push(("rngless-snapshot", g));
        }
        if let Some(g) = c.call("(SerializeQmcGraph, R)::from + into_qmc", || {
            let (sg, rng): (SerializeQmcGraph<FastOps>, SplitMix64) = canon.clone().into();
            sg.into_qmc(rng)
        }) {
            hit("SerializeQmcGraph_tuple::from");
            variants.push(("rngless-snapshot-tuple", g));
        }
        if let Some(Ok(g)) = c.call("serde round trip", || json_rt(&canon)) {
            hit("QmcIsingGraph::serde");
            variants.push(("serde", g));
        }
        let jc = js(&canon);
        let mut canon_run = canon.clone();
        for _ in 0..3 {
            canon_run.timestep(beta);
        }
        let jr = js(&canon_run);
        for (name, g) in variants.iter_mut() {
            ising_same_model(&mut c, name, &s, cutoff, Some(&expect_state), g);
            c.res(json_same(&format!("C13 {} vs new_with_rng", name), &jc, &js(g), &[]));
            c.ck(canon.make_haminfo() == g.make_haminfo(), || format!("{}: HamInfo differs from new_with_rng's", name));
            hit("HamInfo::eq");
            // same RNG state => identical trajectory
            if c.call("timestep", || (0..3).for_each(|_| {
                g.timestep(beta);
            }))
            .is_some()
            {
                c.res(json_same(&format!("C13 {} after 3 steps vs new_with_rng after 3 steps", name), &jr, &js(g), &[]));
            }
        }
        // thread_rng constructor: only the model and the invariants can be compared
        hit("qmc_ising::new_qmc");
        if let Some(mut g) = c.call("new_qmc", || new_qmc(s.edges.clone(), s.gamma, s.h, cutoff, sa())) {
            ising_same_model(&mut c, "new_qmc", &s, cutoff, if with_state { Some(&st) } else { None }, &g);
            c.res(check_ising(&g, &canon));
            let mut last_cut = g.get_cutoff();
            for _ in 0..4 {
                if c.call("new_qmc timestep", || {
                    g.timestep(beta);
                })
                .is_none()
                {
                    break;
                }
                c.res(check_ising(&g, &canon));
                c.res(cutoff_rule(g.get_cutoff(), g.get_n()));
                c.ck(g.get_cutoff() >= last_cut, || "C12 cutoff decreased".into());
                last_cut = g.get_cutoff();
            }
            if i == 0 {
                hits(&["QmcIsingGraph::print_debug", "diagonal::debug_print_diagonal"]);
                c.call("print_debug", || g.print_debug());
                c.call("debug_print_diagonal", || debug_print_diagonal(g.get_manager_ref(), g.state_ref()));
            }
            let fin = g.state_ref().to_vec();
            hit("QmcIsingGraph::into_vec");
            c.eq("into_vec = state_ref", &g.into_vec(), &fin);
        }
        let info = canon.make_haminfo();
        let d = format!("{:?}", info);
        hit("HamInfo::fmt");
        c.ck(d.contains("HamInfo") && d.contains("transverse"), || format!("HamInfo Debug: {}", d));
        // a different model is a different HamInfo
        let mut s2 = s.clone();
        s2.gamma *= 2.0;
        let other = build_ising(&s2, cutoff, sa(), seed);
        c.ck(canon.make_haminfo() != other.make_haminfo(), || "HamInfo::eq ignores the transverse field".into());
        if s.h != 0.0 {
            let mut s3 = s.clone();
            s3.h *= 2.0;
            let other = build_ising(&s3, cutoff, sa(), seed);
            c.ck(canon.make_haminfo() != other.make_haminfo(), || "HamInfo::eq ignores the longitudinal field".into());
        }
        case(true, &input, c.done());
    }
}

// ------------------------------------------------------------------------------------------------------------------
// c04: generic constructors, offsets, flags, Clone, conversion
// ------------------------------------------------------------------------------------------------------------------
/// the matrix the sampler must hold for a term (after the documented diagonal shift) and the recorded offset
fn term_expected(t: &Term) -> (Vec<f64>, f64) {
    let mut m = t.mat.clone();
    let k = t.vars.len();
    match t.ctor {
        1 => {
            let tn = 1usize << k;
            let min = (0..tn).map(|i| m[(1 + tn) * i]).fold(f64::MAX, f64::min);
            (0..tn).for_each(|i| m[(1 + tn) * i] -= min);
            (m, min)
        }
        3 => {
            let min = m.iter().cloned().fold(f64::MAX, f64::min);
            m.iter_mut().for_each(|x| *x -= min);
            (m, min)
        }
        _ => (m, 0.0),
    }
}
fn term_at(t: &Term, m: &[f64], ins: &[bool], outs: &[bool]) -> f64 {
    if t.ctor >= 2 {
        if ins == outs {
            m[bit_index(ins.iter())]
        } else {
            0.0
        }
    } else {
        m[bit_index(outs.iter().chain(ins.iter()))]
    }
}
fn generic_same_model<R: Rng, M: QmcManager>(c: &mut Chk, what: &str, gs: &GenSpec, q: &Qmc<R, M>) {
    c.eq(&format!("{} number of bonds", what), &q.get_bonds().len(), &gs.terms.len());
    let mut off = 0.0;
    let mut sym = true;
    let mut edges = false;
    for (b, t) in gs.terms.iter().enumerate() {
        let (m, min) = term_expected(t);
        off -= min;
        let k = t.vars.len();
        let mut all = vec![];
        for o in patterns(k) {
            for i in patterns(k) {
                let e = term_at(t, &m, &i, &o);
                all.push(e);
                if let Some(bond) = q.get_bonds().get(b) {
                    let w = bond.at(&i, &o);
                    c.ck(w == Ok(e), || format!("{} C04 bond {} at({}->{}) = {:?} expected {}", what, b, bits(&i), bits(&o), w, e));
                }
            }
        }
        // all[idx] is indexed by (outs ++ ins); global flip = complement of the index
        let mask = all.len() - 1;
        let s = (0..all.len()).all(|i| all[i] == all[!i & mask]);
        sym &= s;
        let constant = all.iter().all(|x| *x == all[0]);
        if constant && k == 1 && t.ctor < 2 {
            edges = true;
        }
        if let Some(bond) = q.get_bonds().get(b) {
            c.eq(&format!("{} C16 bond {} sym_under_ising", what, b), &bond.sym_under_ising(), &s);
            c.eq(&format!("{} C16 bond {} is_constant", what, b), &bond.is_constant(), &(constant && t.ctor < 2));
        }
    }
    c.eq(&format!("{} C04 offset = -sum(min diag)", what), &q.get_offset(), &off);
    c.eq(&format!("{} C17 energy", what), &q.get_energy_for_average_n(3.5, 2.0), &(-(3.5 / 2.0) + off));
    c.eq(&format!("{} should_do_loop_update", what), &q.should_do_loop_update(), &gs.loops);
    c.eq(&format!("{} should_do_heatbath", what), &q.should_do_heatbath(), &gs.heatbath);
    c.eq(&format!("{} should_do_cluster_update", what), &q.should_do_cluster_update(), &(sym && edges));
}
fn mode_c04(r: &mut SplitMix64, n: usize) {
    for _ in 0..n {
        let gs = gen_generic_spec(r);
        let st = gen_state(r, gs.nvars);
        let seed = r.next();
        let beta = gen_beta(r);
        let input = format!(
            "c04 ctor kind={} {} loops={} hb={} state={} beta={} seed={}",
            gs.kind,
            terms_token(gs.nvars, &gs.terms),
            gs.loops,
            gs.heatbath,
            bits(&st),
            rat(beta),
            seed
        );
        let mut c = Chk::new();
        hit("Qmc::new_with_state");
        let canon = build_generic(&gs, st.clone(), seed);
        generic_same_model(&mut c, "new_with_state", &gs, &canon);
        hits(&["Qmc::get_offset", "Qmc::get_cutoff", "Qmc::get_manager_ref", "Qmc::clone_state"]);
        c.eq("C12 initial cutoff = nvars", &canon.get_cutoff(), &gs.nvars);
        c.eq("state", &canon.clone_state(), &st);
        c.eq("n", &canon.get_manager_ref().get_n(), &0);
        let mut variants: Vec<(&'static str, Q)> = vec![];
        if let Some(mut q) = c.call("new_with_state_with_manager_hook", || {
            Q::new_with_state_with_manager_hook(gs.nvars, SplitMix64::new(seed), st.clone(), gs.loops, |nv| {
                hit("OpContainerConstructor::new");
                <FastOps as OpContainerConstructor>::new(nv)
            })
        }) {
            c.res(add_terms(&mut q, &gs.terms));
            q.set_do_heatbath(gs.heatbath);
            variants.push(("new_with_state_with_manager_hook", q));
        }
        if let Some(q) = c.call("clone", || canon.clone()) {
            hit("Qmc::clone");
            variants.push(("clone", q));
        }
        if let Some(Ok(q)) = c.call("serde", || json_rt(&canon)) {
            hit("Qmc::serde");
            variants.push(("serde", q));
        }
        let jc = js(&canon);
        let mut run = canon.clone();
        for _ in 0..3 {
            run.timestep(beta);
        }
        let jr = js(&run);
        for (name, q) in variants.iter_mut() {
            generic_same_model(&mut c, name, &gs, q);
            c.res(json_same(&format!("C13 {} vs new_with_state", name), &jc, &js(q), &[]));
            if c.call("timestep", || (0..3).for_each(|_| {
                q.timestep(beta);
            }))
            .is_some()
            {
                c.res(json_same(&format!("C13 {} after 3 steps", name), &jr, &js(q), &[]));
                c.res(check_generic(q));
            }
        }
        // a clone does not influence its original
        c.res(json_same("C13 original untouched by its clones", &jc, &js(&canon), &[]));
        // Qmc::new draws the state from the rng it is given
        hit("Qmc::new");
        if let Some(mut q) = c.call("Qmc::new", || Q::new(gs.nvars, SplitMix64::new(seed), gs.loops)) {
            let mut rr = SplitMix64::new(seed);
            let drawn = make_random_spin_state(gs.nvars, &mut rr);
            c.res(add_terms(&mut q, &gs.terms));
            q.set_do_heatbath(gs.heatbath);
            let mut twin = Q::new_with_state(gs.nvars, rr, drawn.clone(), gs.loops);
            c.res(add_terms(&mut twin, &gs.terms));
            twin.set_do_heatbath(gs.heatbath);
            c.eq("Qmc::new state = make_random_spin_state(rng)", &q.clone_state(), &drawn);
            c.res(json_same("C13 Qmc::new vs new_with_state(drawn state, advanced rng)", &js(&twin), &js(&q), &[]));
            generic_same_model(&mut c, "Qmc::new", &gs, &q);
            let fin = q.state_ref().to_vec();
            hit("Qmc::into_vec");
            c.eq("into_vec = state_ref", &q.into_vec(), &fin);
        }
        let d = format!("{:?}", canon);
        hit("Qmc::fmt");
        c.ck(d.starts_with("Qmc"), || "Debug of Qmc".into());
        // interactions: Clone / PartialEq / Debug / serde
        for (b, bond) in canon.get_bonds().iter().enumerate() {
            let cl = bond.clone();
            hits(&["Interaction::clone", "Interaction::eq", "Interaction::fmt", "Interaction::serde"]);
            c.ck(cl == *bond, || format!("Interaction {} != its clone", b));
            c.res(json_same("Interaction clone", &js(bond), &js(&cl), &[]));
            match json_rt(bond) {
                Ok(rt) => c.ck(rt == *bond && js(&rt) == js(bond), || format!("Interaction {} serde round trip differs", b)),
                Err(e) => c.ck(false, || e),
            }
            c.ck(format!("{:?}", bond) == format!("{:?}", cl) && format!("{:?}", bond).contains("Interaction"), || "Interaction Debug".into());
            for (b2, other) in canon.get_bonds().iter().enumerate() {
                let same = js(bond) == js(other);
                c.ck((bond == other) == same, || format!("Interaction::eq({}, {}) = {} but snapshots equal = {}", b, b2, bond == other, same));
            }
        }
        case(true, &input, c.done());
    }
    // conversion: `Qmc::from(ising)` is `into_qmc`
    for _ in 0..max(2, n / 3) {
        let (s, g, beta) = warm_ising(r, None);
        let input = format!("c04 from-ising {} beta={} state={} slots={}", spec_token(&s), rat(beta), bits(g.state_ref()), show_slots(g.get_manager_ref()));
        let mut c = Chk::new();
        hits(&["Qmc::from", "IntoQmc::into_qmc"]);
        let a = c.call("Qmc::from", || Q::from(g.clone()));
        let b = c.call("into_qmc", || g.clone().into_qmc());
        if let (Some(mut a), Some(mut b)) = (a, b) {
            c.res(json_same("C15 Qmc::from vs into_qmc", &js(&b), &js(&a), &[]));
            c.eq("C15 state carried", &a.state_ref().to_vec(), &g.state_ref().to_vec());
            c.eq("C15 cutoff carried", &a.get_cutoff(), &g.get_cutoff());
            c.eq("C15 slots carried", &show_slots(a.get_manager_ref()), &show_slots(g.get_manager_ref()));
            c.res(check_generic(&a));
            a.timestep(beta);
            b.timestep(beta);
            c.res(json_same("C15 Qmc::from vs into_qmc after a step", &js(&b), &js(&a), &[]));
            c.res(check_generic(&a));
        }
        case(g.get_n() > 0, &input, c.done());
    }
}

// ------------------------------------------------------------------------------------------------------------------
// c19: classical sampler
// ------------------------------------------------------------------------------------------------------------------
fn classical_energy(edges: &[((usize, usize), f64)], biases: &[f64], s: &[bool]) -> f64 {
    let sp = |b: bool| if b { 1.0 } else { -1.0 };
    edges.iter().map(|((a, b), j)| j * sp(s[*a]) * sp(s[*b])).sum::<f64>() + biases.iter().enumerate().map(|(i, h)| -h * sp(s[i])).sum::<f64>()
}
fn mode_c19(r: &mut SplitMix64, n: usize) {
    for _ in 0..n {
        let nv = r.range(2, 6) as usize;
        let mut edges: Vec<((usize, usize), f64)> = vec![];
        for a in 0..nv {
            for b in a + 1..nv {
                if r.chance(1, 2) {
                    let j = *r.pick(&[-1.5, -1.0, -0.5, 0.5, 1.0, 1.5, 0.25]);
                    edges.push(if r.coin() { ((a, b), j) } else { ((b, a), j) });
                }
            }
        }
        if edges.is_empty() {
            edges.push(((0, 1), 1.0));
        }
        let biases: Vec<f64> = (0..nv).map(|_| *r.pick(&[0.0, 0.0, 0.5, -0.5, 1.0, -0.25])).collect();
        let beta = gen_beta(r);
        let st = gen_state(r, nv);
        let seed = r.next();
        let es: Vec<String> = edges.iter().map(|((a, b), j)| format!("{}:{}:{}", a, b, rat(*j))).collect();
        let input = format!("c19 classical {} {} beta={} state={} seed={}", es.join(","), rats(&biases), rat(beta), bits(&st), seed);
        let mut c = Chk::new();
        let canon = GraphState::new_with_state_and_rng(st.clone(), &edges, &biases, SplitMix64::new(seed));
        hits(&["GraphState::get_energy", "GraphState::state_ref", "GraphState::clone_state", "GraphState::fmt", "GraphState::clone"]);
        c.eq("C19 energy = direct sum", &canon.get_energy(), &classical_energy(&edges, &biases, &st));
        c.eq("state_ref", &canon.state_ref().to_vec(), &st);
        c.eq("clone_state", &canon.clone_state(), &st);
        c.eq("Debug", &format!("{:?}", canon), &format!("{}\t{}", bits(&st), canon.get_energy()));
        // GraphState::new draws its state from the rng
        hit("GraphState::new");
        let fresh = GraphState::new(&edges, &biases, SplitMix64::new(seed));
        let mut rr = SplitMix64::new(seed);
        let drawn = make_random_spin_state(nv, &mut rr);
        c.eq("GraphState::new state = make_random_spin_state(rng)", &fresh.state_ref().to_vec(), &drawn);
        let twin = GraphState::new_with_state_and_rng(drawn.clone(), &edges, &biases, rr);
        // lockstep: new vs canonical twin; original vs clone
        let run = |c: &mut Chk, what: &str, mut a: GraphState<SplitMix64>, mut b: GraphState<SplitMix64>, r: &mut SplitMix64| {
            let imp = r.coin();
            a.enable_edge_importance_sampling(imp);
            b.enable_edge_importance_sampling(imp);
            let mut script = SplitMix64::new(r.next());
            for step in 0..6 {
                let ns = if script.coin() { None } else { Some(script.range(1, 3) as usize) };
                let ne = if script.coin() { None } else { Some(script.range(1, 3) as usize) };
                let nw = if script.coin() { None } else { Some(1) };
                let basic = if script.coin() { None } else { Some(script.coin()) };
                let ra = catch(|| a.do_time_step(beta, ns, ne, nw, basic));
                let rb = catch(|| b.do_time_step(beta, ns, ne, nw, basic));
                match (ra, rb) {
                    (Ok(x), Ok(y)) => c.eq(&format!("{} step {} result", what, step), &x, &y),
                    (x, y) => {
                        c.ck(false, || format!("{} step {} panicked: {:?} / {:?}", what, step, x.err(), y.err()));
                        return;
                    }
                }
                c.eq(&format!("C13 {} step {} states", what, step), &a.state_ref().to_vec(), &b.state_ref().to_vec());
                c.eq(&format!("C19 {} number of spins", what), &a.state_ref().len(), &nv);
                c.eq(&format!("C19 {} energy = direct sum", what), &a.get_energy(), &classical_energy(&edges, &biases, a.state_ref()));
                c.eq(&format!("C13 {} Debug", what), &format!("{:?}", a), &format!("{:?}", b));
            }
            // the rngs must have advanced identically: one more step each
            let _ = a.do_time_step(beta, Some(3), Some(3), Some(1), None);
            let _ = b.do_time_step(beta, Some(3), Some(3), Some(1), None);
            c.eq(&format!("C13 {} after the run", what), &a.get_state(), &b.get_state());
            hit("GraphState::get_state");
        };
        run(&mut c, "GraphState::new vs new_with_state_and_rng", fresh, twin, r);
        let cl = canon.clone();
        c.eq("C13 clone Debug", &format!("{:?}", cl), &format!("{:?}", canon));
        let mut stepped = canon.clone();
        let _ = stepped.do_time_step(beta, Some(4), Some(4), Some(1), None);
        c.eq("C13 original untouched by stepping a clone", &canon.state_ref().to_vec(), &st);
        run(&mut c, "clone vs original", canon.clone(), cl, r);
        // set_state then energy (a stale cached value would show here)
        let mut g = canon.clone();
        let e0 = g.get_energy();
        let st2: Vec<bool> = st.iter().enumerate().map(|(i, b)| if i % 2 == 0 { !*b } else { *b }).collect();
        hit("GraphState::set_state");
        g.set_state(st2.clone());
        c.eq("C19 energy after set_state", &g.get_energy(), &classical_energy(&edges, &biases, &st2));
        let _ = e0;
        let _ = g.do_time_step(beta, None, None, None, None);
        c.eq("C19 energy after a step", &g.get_energy(), &classical_energy(&edges, &biases, g.state_ref()));
        // do_spin_flip / should_flip: the Metropolis rule with E = the energy the sampler reports
        let mut bm: Vec<Vec<(usize, f64)>> = vec![vec![]; nv];
        for ((a, b), j) in edges.iter() {
            bm[*a].push((*b, *j));
            bm[*b].push((*a, *j));
        }
        bm.iter_mut().for_each(|v| v.sort_by_key(|(i, _)| *i));
        for _ in 0..8 {
            let mut rec = RecRng::new(r.next());
            let mut replay = rec.clone();
            let mut s = gen_state(r, nv);
            let before = s.clone();
            hit("GraphState::do_spin_flip");
            if c.call("do_spin_flip", || GraphState::<RecRng>::do_spin_flip(&mut rec, beta, &bm, &biases, &mut s)).is_none() {
                break;
            }
            let idx = replay.gen_range(0..nv);
            let mut flipped = before.clone();
            flipped[idx] = !flipped[idx];
            let de = classical_energy(&edges, &biases, &flipped) - classical_energy(&edges, &biases, &before);
            let expect = if de > 0.0 {
                let u: f64 = replay.gen();
                let ch = (-beta * de).exp();
                if (u - ch).abs() < 1e-12 {
                    None
                } else {
                    Some(u < ch)
                }
            } else {
                Some(true)
            };
            c.eq("C19 do_spin_flip draws", &rec.log.len(), &replay.log.len());
            if let Some(e) = expect {
                c.eq(
                    &format!("C19 do_spin_flip on {} site {} dE={} accepts", bits(&before), idx, de),
                    &s,
                    &(if e { flipped.clone() } else { before.clone() }),
                );
            }
            // should_flip itself
            let mut rec = RecRng::new(r.next());
            let mut replay = rec.clone();
            hit("GraphState::should_flip");
            let got = GraphState::<RecRng>::should_flip(&mut rec, beta, de);
            if de > 0.0 {
                let u: f64 = replay.gen();
                let ch = (-beta * de).exp();
                if (u - ch).abs() >= 1e-12 {
                    c.eq(&format!("C19 should_flip(dE={})", de), &got, &(u < ch));
                }
                c.eq("C19 should_flip draws one word", &rec.log.len(), &1);
            } else {
                c.ck(got && rec.log.is_empty(), || format!("C19 should_flip(dE={} <= 0) must accept without a draw", de));
            }
        }
        case(true, &input, c.done());
    }
}

// @@NEXT@@

fn main() {
    quiet_panics();
    let a = args();
    let scale = if a.thorough { 6 } else { 1 };
    let modes: Vec<&str> = if a.mode == "all" {
        vec!["c01", "c03", "c04", "c06", "c07", "c08", "c09", "c10", "c11", "c12", "c13", "c17", "c18", "c19"]
    } else {
        vec![a.mode.as_str()]
    };
    for (k, m) in modes.iter().enumerate() {
        // fixed per-mode seed derived from --seed
        let tag = m.bytes().fold(0u64, |h, b| h.wrapping_mul(131).wrapping_add(b as u64));
        let mut r = SplitMix64::new(a.seed.wrapping_mul(0x9E37_79B9_7F4A_7C15).wrapping_add(tag).wrapping_add(k as u64 * 0));
        match *m {
            "c01" => mode_c01(&mut r, 10 * scale),
            "c04" => mode_c04(&mut r, 10 * scale),
            "c19" => mode_c19(&mut r, 12 * scale),
            other => {
                eprintln!("unknown mode {}", other);
                std::process::exit(2);
            }
        }
    }
    flush_cov();
}
