//! C08 — diagonal update: exact detailed balance in every slot (Metropolis and heat-bath).
//! Drives the real `make_diagonal_update_with_rng_and_state_ref` /
//! `make_heatbath_diagonal_update_with_rng_and_state_ref` on `FastOps` with a harness-defined table
//! Hamiltonian and a recording / scripted RNG.
//!   traj : exact trajectories (before string, state, β, cutoff, Hamiltonian, draw log → after string,
//!          state, draw verdict), plus `bw` cases for `make_bond_weights`.
//!   prob : threshold bisection of the draws of one slot *inside* a sweep: measures the probabilities
//!          the real code uses for inserting bond b at slot k and for removing it again, and checks
//!          p_insert / p_remove = β·w/(L−n) with the n current at that slot (oracle: real code only).

#[path = "c08_shared/mod.rs"]
mod shared;

use qmc::sse::fast_ops::FastOp;
use qmc::sse::qmc_traits::*;
use shared::samplers::*;
use shared::*;
use vh::*;

fn table_for(g: &mut SplitMix64, cfg: &Cfg) -> BondWeights {
    let real = real_table(&cfg.bonds);
    if g.chance(2, 3) {
        real
    } else {
        // any table with entries >= the true maxima is a valid heat-bath table
        let (mx, _) = table_columns(&real);
        BondWeights::new(mx.into_iter().map(|w| w + *g.pick(&[0.0, 0.0, 0.25, 1.0, 2.5])))
    }
}

fn traj(g: &mut SplitMix64, ncases: usize) {
    for i in 0..ncases {
        let cfg = gen_cfg(g, true);
        let seed = g.next();
        let heat = i % 2 == 1;
        let table = if heat { Some(table_for(g, &cfg)) } else { None };
        let wtot = table.as_ref().map(|t| table_columns(t).1.last().cloned().unwrap_or(0.0));
        if heat && wtot == Some(0.0) && cfg.slots.iter().all(|o| o.is_some()) && cfg.slots.len() >= cfg.cutoff {
            // W = 0 and no free slot: 0/0 would be a NaN probability (outside the domain, DESIGN App. A)
            continue;
        }
        let res = run_sweep(&cfg, table.as_ref(), vec![], seed);
        let head = match &table {
            None => format!("msweep {}", show_table_ham(&cfg.bonds)),
            Some(t) => format!("hsweep {} {}", show_table_ham(&cfg.bonds), rats(&table_columns(t).0)),
        };
        let n0 = count_ops(&cfg.slots);
        let nontrivial = cfg.cutoff > n0 || n0 > 0;
        match res {
            Ok(out) => {
                let input = format!(
                    "{} {} {} {} {} {}",
                    head,
                    rat(cfg.beta),
                    cfg.cutoff,
                    bits(&cfg.state),
                    show_cfg_slots(&cfg.slots),
                    words(&out.log)
                );
                let output = format!("{} {} ok", show_cfg_slots(&out.slots), bits(&out.state));
                stat(if heat { "traj_heatbath" } else { "traj_metropolis" }, 1);
                stat(&format!("traj_draws_{}", (out.log.len() / 4) * 4), 1);
                stat(&format!("traj_dn_{}", out.n as i64 - n0 as i64), 1);
                if cfg.slots.len() < cfg.cutoff {
                    stat("traj_container_grown", 1);
                }
                if n0 >= cfg.cutoff {
                    stat(if heat { "traj_full_string_heatbath" } else { "traj_full_string_metropolis" }, 1);
                }
                emit(nontrivial, &input, &output, Some(sweep_oracle(&cfg, &out)));
            }
            Err(_) if tail_ops(&cfg) > 0 => {
                // operators beyond the sweep count in n: `cutoff - n` may legitimately run out (outside the samplers' use)
                stat("traj_tail_ops_overflow_skipped", 1);
            }
            Err(p) => {
                let input = format!("{} {} {} {} {} -", head, rat(cfg.beta), cfg.cutoff, bits(&cfg.state), show_cfg_slots(&cfg.slots));
                emit(true, &input, &format!("PANIC:{}", p.replace(' ', "_")), Some(Err(format!("sweep panicked: {}", p))));
            }
        }
    }
    // make_bond_weights against the model
    for _ in 0..(ncases / 4).max(10) {
        let nvars = g.range(1, 4) as usize;
        let bonds = gen_bonds(g, nvars);
        let bw = real_table(&bonds);
        let (mx, cum) = table_columns(&bw);
        // oracle: each entry is the largest diagonal element (or 0), cumulative = running sum
        let mut ok = Ok(());
        let mut run = 0.0;
        for (b, tb) in bonds.iter().enumerate() {
            let dim = 1usize << tb.vars.len();
            let m = (0..dim).map(|s| tb.mat[s * dim + s]).fold(0.0, f64::max);
            run += m;
            if mx[b] != m || cum[b] != run {
                ok = Err(format!("table entry {}: ({}, {}) expected ({}, {})", b, mx[b], cum[b], m, run));
            }
        }
        emit(true, &format!("bw {}", show_table_ham(&bonds)), &format!("{} {}", rats(&mx), rats(&cum)), Some(ok));
    }
}

/// Pick a configuration with an empty slot, the slot k and a bond b.
fn pick_case(g: &mut SplitMix64) -> (Cfg, usize, usize) {
    // in a third of the cases insist on a bond on >= 3 variables whose (unique) maximal weight is the one
    // at the current sub-state of slot k: that is where a wrong table maximum shows
    let want_multi = g.chance(1, 3);
    let mut tries = 0;
    loop {
        tries += 1;
        let cfg = gen_cfg(g, true);
        let before = padded(&cfg);
        if tail_ops(&cfg) > 0 {
            continue;
        }
        let empties: Vec<usize> = (0..before.len().min(cfg.cutoff)).filter(|p| before[*p].is_none()).collect();
        if empties.is_empty() {
            continue;
        }
        let k = *g.pick(&empties);
        let mut b = g.below(cfg.bonds.len() as u64) as usize;
        if want_multi && tries < 400 {
            let st = state_at(&cfg, k);
            let hit: Vec<usize> = (0..cfg.bonds.len())
                .filter(|b| {
                    let tb = &cfg.bonds[*b];
                    tb.vars.len() >= 3 && unique_argmax(tb) == Some(bit_index(substate(&st, &tb.vars).iter()))
                })
                .collect();
            if hit.is_empty() {
                continue;
            }
            b = *g.pick(&hit);
            stat(&format!("prob_multivar_at_argmax_{}", bit_index(substate(&st, &cfg.bonds[b].vars).iter())), 1);
        }
        if cfg.slots.len() > cfg.cutoff {
            stat("prob_container_longer_than_sweep", 1);
        }
        let mut cfg = cfg;
        if g.chance(1, 3) {
            // FULL strings: every other empty slot of the sweep gets a diagonal operator (all of them, or all after a
            // random position so that the string becomes full during the sweep), so that slot k is the last free slot:
            // the insertion runs with L - n = 1 and the removal of the installed operator with n = L (L - n + 1 = 1)
            while cfg.slots.len() < cfg.cutoff {
                cfg.slots.push(None);
            }
            let from = if g.coin() { 0 } else { g.below(k as u64 + 1) as usize };
            for p in from..cfg.cutoff {
                if p == k || cfg.slots[p].is_some() {
                    continue;
                }
                let st = state_at(&cfg, p);
                let pos: Vec<usize> = (0..cfg.bonds.len()).filter(|b| diag_weight(&cfg.bonds[*b], &substate(&st, &cfg.bonds[*b].vars)) > 0.0).collect();
                if let Some(bb) = pos.get(g.below(pos.len().max(1) as u64) as usize) {
                    let tb = &cfg.bonds[*bb];
                    cfg.slots[p] = Some(FastOp::diagonal(tb.vars.clone(), *bb, substate(&st, &tb.vars), tb.constant));
                }
            }
            if count_ops(&cfg.slots) + 1 == cfg.cutoff {
                stat("prob_string_full_except_examined_slot", 1);
            }
        }
        return (cfg, k, b);
    }
}

/// the configuration with bond b's diagonal operator installed at (empty) slot k
fn with_op(cfg: &Cfg, k: usize, b: usize) -> Cfg {
    let mut c2 = cfg.clone();
    while c2.slots.len() <= k {
        c2.slots.push(None);
    }
    let st = state_at(cfg, k);
    let tb = &cfg.bonds[b];
    c2.slots[k] = Some(FastOp::diagonal(tb.vars.clone(), b, substate(&st, &tb.vars), tb.constant));
    c2
}

/// index (in the draw log) of the acceptance word of slot k in a Metropolis sweep, read from the
/// instrumented run: the real code evaluates the Hamiltonian exactly once per non-off-diagonal slot,
/// after the bond draw and before the acceptance draw.
fn locate_m(before: &[Option<FastOp>], out: &RunOut, k: usize) -> Option<usize> {
    let visited = before.iter().filter(|o| !is_offdiag(o)).count();
    if out.calls.len() != visited {
        return None;
    }
    let i = before[..k].iter().filter(|o| !is_offdiag(o)).count();
    Some(out.calls[i].1)
}

/// index of the first word of slot k in a heat-bath sweep: every diagonal op costs one word, every empty
/// slot one word or — if the Hamiltonian was evaluated three words later — three.
fn locate_h(before: &[Option<FastOp>], out: &RunOut, k: usize) -> Option<usize> {
    let mut pos = 0usize;
    let mut ci = 0usize;
    let mut at_k = None;
    for (p, o) in before.iter().enumerate() {
        if p == k {
            at_k = Some(pos);
        }
        match o {
            Some(op) if !op.is_diagonal() => {}
            Some(_) => pos += 1,
            None => {
                if ci < out.calls.len() && out.calls[ci].1 == pos + 3 {
                    pos += 3;
                    ci += 1;
                } else {
                    pos += 1;
                }
            }
        }
    }
    if ci != out.calls.len() || pos != out.log.len() {
        return None;
    }
    at_k
}

fn slot_has_bond(out: &RunOut, k: usize, b: usize) -> bool {
    out.slots[k].as_ref().map(|o| o.is_diagonal() && o.get_bond() == b).unwrap_or(false)
}

fn prob_metropolis(g: &mut SplitMix64) -> bool {
    let (cfg, k, b) = pick_case(g);
    let seed = g.next();
    let before = padded(&cfg);
    let nb = cfg.bonds.len();
    let base = match run_sweep(&cfg, None, vec![], seed) {
        Ok(o) => o,
        Err(_) => return false,
    };
    let s = base.log.clone();
    let input = format!(
        "mprob {} {} {} {} {} {} {} {}",
        show_table_ham(&cfg.bonds),
        rat(cfg.beta),
        cfg.cutoff,
        bits(&cfg.state),
        show_cfg_slots(&cfg.slots),
        words(&s),
        k,
        b
    );
    let jdec = match locate_m(&before[..cfg.cutoff], &base, k) {
        Some(j) if j >= 1 => j,
        _ => {
            emit(true, &input, "unlocatable", None);
            return true;
        }
    };
    let jpick = jdec - 1;
    let i_call = before[..k].iter().filter(|o| !is_offdiag(o)).count();
    let n_k = count_ops(&base.slots[..k]) + count_ops(&before[k..]);
    let prefix_a: Vec<String> = base.slots[..k].iter().map(|o| format!("{:?}", o)).collect();
    let mut oracle: Result<(), String> = Ok(());
    // --- bond choice: interval of first words that select bond b (fallback word 0 selects bond 0)
    // a word a quarter into bond bb's interval: inside the accepted part of gen_range's zone
    let anchor = |bb: usize| -> u64 { ((((bb as u128) << 64) + (1u128 << 62)) / nb as u128) as u64 };
    let picked = |x: u64| -> Option<usize> {
        let mut sc = s[..jpick].to_vec();
        sc.extend_from_slice(&[x, 0, 0, 0]);
        run_sweep(&cfg, None, sc, seed).ok().and_then(|o| o.calls.get(i_call).map(|c| c.0))
    };
    let mut bound = |bb: usize| -> Result<u128, String> {
        // smallest first word whose pick is >= bb
        if bb == 0 {
            return Ok(0);
        }
        if bb >= nb {
            return Ok(1u128 << 64);
        }
        if picked(anchor(bb - 1)) != Some(bb - 1) || picked(anchor(bb)) != Some(bb) {
            return Err(format!("bond draw at word fraction ({}+1/4)/{} does not select that bond", bb, nb));
        }
        Ok(first_true(anchor(bb - 1), anchor(bb), |x| picked(x).map(|p| p >= bb).unwrap_or(false)) as u128)
    };
    let p_pick = match (bound(b), bound(b + 1)) {
        (Ok(lo), Ok(hi)) => frac(hi - lo),
        (Err(e), _) | (_, Err(e)) => {
            oracle = Err(e);
            f64::NAN
        }
    };
    // --- acceptance of the insertion of bond b at slot k
    let t_ins = threshold_down(|x| {
        let mut sc = s[..jpick].to_vec();
        sc.extend_from_slice(&[anchor(b), x]);
        run_sweep(&cfg, None, sc, seed).map(|o| slot_has_bond(&o, k, b)).unwrap_or(false)
    });
    let p_acc = frac(t_ins);
    // --- removal of that operator: same prefix script, operator installed at k
    let cfg2 = with_op(&cfg, k, b);
    let before2 = padded(&cfg2);
    let base2 = match run_sweep(&cfg2, None, s.clone(), seed) {
        Ok(o) => o,
        Err(_) => return false,
    };
    let prefix_b: Vec<String> = base2.slots[..k].iter().map(|o| format!("{:?}", o)).collect();
    if prefix_a != prefix_b {
        stat("prob_prefix_diverged", 1);
        return false;
    }
    let jrem = match locate_m(&before2[..cfg2.cutoff], &base2, k) {
        Some(j) => j,
        None => {
            emit(true, &input, "unlocatable", None);
            return true;
        }
    };
    let t_rem = threshold_down(|x| {
        // the words the prefix actually consumed in the run with the operator installed (the prefix may
        // consume a different number of words than in the first run although its outcome is the same)
        let mut sc = base2.log[..jrem].to_vec();
        sc.push(x);
        run_sweep(&cfg2, None, sc, seed).map(|o| o.slots[k].is_none()).unwrap_or(false)
    });
    let p_rem = frac(t_rem);
    // --- the property, on measured numbers only
    let st = state_at(&cfg, k);
    let w = diag_weight(&cfg.bonds[b], &substate(&st, &cfg.bonds[b].vars));
    let want = cfg.beta * w / ((cfg.cutoff - n_k) as f64);
    if oracle.is_ok() {
        if !(p_rem > 0.0) {
            oracle = Err(format!("removal probability measured as {}", p_rem));
        } else if !close(p_pick * p_acc / p_rem, want) {
            oracle = Err(format!(
                "p_insert/p_remove = {}*{}/{} = {} but beta*w/(L-n) = {}*{}/({}-{}) = {}",
                p_pick,
                p_acc,
                p_rem,
                p_pick * p_acc / p_rem,
                cfg.beta,
                w,
                cfg.cutoff,
                n_k,
                want
            ));
        }
    }
    let x = cfg.beta * nb as f64 * w / ((cfg.cutoff - n_k) as f64);
    stat(if w == 0.0 { "mprob_zero_weight" } else if x > 1.0 { "mprob_insert_clipped" } else if x < 1.0 { "mprob_remove_clipped" } else { "mprob_both_unclipped" }, 1);
    stat(if k == 0 { "mprob_slot_first" } else { "mprob_slot_inside" }, 1);
    if n_k + 1 == cfg.cutoff {
        stat("mprob_last_free_slot_removal_at_n_equals_L", 1);
    }
    if n_k != count_ops(&before) {
        stat("mprob_n_changed_before_slot", 1);
    }
    let output = format!("{} {} {} {}", n_k, approx(p_pick), approx(p_acc), approx(p_rem));
    emit(true, &input, &output, Some(oracle));
    true
}

fn prob_heatbath(g: &mut SplitMix64) -> bool {
    let (cfg, k, b) = pick_case(g);
    let seed = g.next();
    let table = table_for(g, &cfg);
    let (mx, cum) = table_columns(&table);
    let wtot = *cum.last().unwrap();
    if wtot == 0.0 {
        return false;
    }
    let before = padded(&cfg);
    let nb = cfg.bonds.len();
    let base = match run_sweep(&cfg, Some(&table), vec![], seed) {
        Ok(o) => o,
        Err(_) => return false,
    };
    let s = base.log.clone();
    let input = format!(
        "hprob {} {} {} {} {} {} {} {} {}",
        show_table_ham(&cfg.bonds),
        rats(&mx),
        rat(cfg.beta),
        cfg.cutoff,
        bits(&cfg.state),
        show_cfg_slots(&cfg.slots),
        words(&s),
        k,
        b
    );
    let j = match locate_h(&before[..cfg.cutoff], &base, k) {
        Some(j) => j,
        None => {
            emit(true, &input, "unlocatable", None);
            return true;
        }
    };
    let n_k = count_ops(&base.slots[..k]) + count_ops(&before[k..]);
    let prefix_a: Vec<String> = base.slots[..k].iter().map(|o| format!("{:?}", o)).collect();
    let run = |tail: &[u64]| -> Option<RunOut> {
        let mut sc = s[..j].to_vec();
        sc.extend_from_slice(tail);
        run_sweep(&cfg, Some(&table), sc, seed).ok()
    };
    // the Hamiltonian evaluation of slot k (if the attempt draw said yes) is logged with count j+3
    let call_at = |o: &RunOut| -> Option<usize> { o.calls.iter().find(|c| c.1 == j + 3).map(|c| c.0) };
    // --- attempt
    let p_att = frac(threshold_down(|x| run(&[x, 0, 0]).map(|o| call_at(&o).is_some()).unwrap_or(false)));
    // --- bond choice by the cumulative table
    let mut bound = |bb: usize| -> u128 {
        if bb == 0 {
            return 0;
        }
        let ge = |x: u64| run(&[0, 0, x]).and_then(|o| call_at(&o)).map(|p| p >= bb).unwrap_or(false);
        if bb >= nb || !ge(u64::MAX) {
            return 1u128 << 64;
        }
        if ge(0) {
            return 0;
        }
        first_true(0, u64::MAX, ge) as u128
    };
    let (lo, hi) = (bound(b), bound(b + 1));
    let p_pick = frac(hi.saturating_sub(lo));
    // --- rejection test u*maxw < w
    let p_acc = if hi <= lo {
        0.0
    } else {
        let xmid = (lo + (hi - lo) / 2) as u64;
        frac(threshold_down(|u| run(&[0, u, xmid]).map(|o| slot_has_bond(&o, k, b)).unwrap_or(false)))
    };
    // --- removal
    let cfg2 = with_op(&cfg, k, b);
    let before2 = padded(&cfg2);
    let base2 = match run_sweep(&cfg2, Some(&table), s.clone(), seed) {
        Ok(o) => o,
        Err(_) => return false,
    };
    let prefix_b: Vec<String> = base2.slots[..k].iter().map(|o| format!("{:?}", o)).collect();
    if prefix_a != prefix_b {
        stat("prob_prefix_diverged", 1);
        return false;
    }
    let j2 = match locate_h(&before2[..cfg2.cutoff], &base2, k) {
        Some(j2) => j2,
        None => {
            // The draw structure of this run is not the expected one. Model-free fallback: with the words of the run up to
            // ANY position followed by zero words (a zero word says yes to every gen_bool with p > 0), is the operator at
            // slot k ever removed while the slots before it come out as in the run? If not, its removal probability is 0.
            let removable = (0..=base2.log.len()).any(|j| {
                let mut sc = base2.log[..j].to_vec();
                sc.extend_from_slice(&[0u64; 8]);
                run_sweep(&cfg2, Some(&table), sc, seed).map(|o| o.slots[..k] == base2.slots[..k] && o.slots[k].is_none()).unwrap_or(false)
            });
            let n2 = count_ops(&base2.slots[..k]) + count_ops(&before2[k..]);
            let oracle = if removable {
                None
            } else {
                Some(Err(format!(
                    "the diagonal operator (bond {}) at slot {} is never removed (n = {} at that slot, L = {}): removal probability 0 but (L-n+1)/(L-n+1+beta*W) = {}",
                    b,
                    k,
                    n2,
                    cfg2.cutoff,
                    (cfg2.cutoff as f64 - n2 as f64 + 1.0) / (cfg2.cutoff as f64 - n2 as f64 + 1.0 + cfg.beta * wtot)
                )))
            };
            emit(true, &input, "unlocatable", oracle);
            return true;
        }
    };
    let p_rem = frac(threshold_down(|x| {
        let mut sc = base2.log[..j2].to_vec();
        sc.push(x);
        run_sweep(&cfg2, Some(&table), sc, seed).map(|o| o.slots[k].is_none()).unwrap_or(false)
    }));
    let st = state_at(&cfg, k);
    let w = diag_weight(&cfg.bonds[b], &substate(&st, &cfg.bonds[b].vars));
    let want = cfg.beta * w / ((cfg.cutoff - n_k) as f64);
    let mut oracle = Ok(());
    if !(p_rem > 0.0) {
        oracle = Err(format!("removal probability measured as {}", p_rem));
    } else if !close(p_att * p_pick * p_acc / p_rem, want) {
        oracle = Err(format!(
            "p_insert/p_remove = {}*{}*{}/{} = {} but beta*w/(L-n) = {}*{}/({}-{}) = {}",
            p_att,
            p_pick,
            p_acc,
            p_rem,
            p_att * p_pick * p_acc / p_rem,
            cfg.beta,
            w,
            cfg.cutoff,
            n_k,
            want
        ));
    }
    stat(if w == 0.0 { "hprob_zero_weight" } else if w < mx[b] { "hprob_below_max" } else { "hprob_at_max" }, 1);
    stat(if k == 0 { "hprob_slot_first" } else { "hprob_slot_inside" }, 1);
    if n_k + 1 == cfg.cutoff {
        stat("hprob_last_free_slot_removal_at_n_equals_L", 1);
    }
    if n_k != count_ops(&before) {
        stat("hprob_n_changed_before_slot", 1);
    }
    let output = format!("{} {} {} {} {}", n_k, approx(p_att), approx(p_pick), approx(p_acc), approx(p_rem));
    emit(true, &input, &output, Some(oracle));
    true
}

/// Generic sampler `Qmc` with heat-bath on: the sampler has already swept (its lazily built table exists) when a
/// further interaction is added — in most cases one whose diagonal entries are all equal (transverse-field-like
/// term / constant shift) — and then sweeps on. The sweeps are replayed by the model with the table of the CURRENT
/// interaction list (`gsweep`), and the insert probability of the NEW bond is bisected (`gprob`).
fn generic(g: &mut SplitMix64, ncases: usize) {
    let mut done = 0;
    let mut tries = 0;
    while done < ncases && tries < ncases * 20 {
        tries += 1;
        let rng = SharedRng::new(g.next());
        let mut smp = if g.chance(1, 4) { gen_generic_multi(g, &rng) } else { gen_generic(g, &rng) };
        enable_heatbath(&mut smp, true);
        let beta = *g.pick(&[0.25, 0.5, 1.0, 2.0]);
        let warm = g.range(0, 4);
        let mut ok = true;
        for _ in 0..warm {
            ok &= catch(|| smp.timestep(beta)).is_ok();
        }
        if !ok {
            continue;
        }
        let had_table = smp.table().is_some();
        let mut new_bond = None;
        let mut kind = "generic_plain";
        if g.chance(3, 4) {
            if let Smp::Gen(q, vars_list) = &mut smp {
                let nvars = q.clone_state().len();
                let r = g.below(4);
                let w = *g.pick(&[0.25, 0.5, 1.0, 2.0]);
                let res = if r == 0 {
                    // constant single-site term (all 4 entries equal)
                    let v = g.below(nvars as u64) as usize;
                    vars_list.push(reg(vec![v], vec![w; 4]));
                    kind = "generic_add_constant_term";
                    q.make_interaction(vec![w; 4], vec![v])
                } else if r == 1 {
                    // full matrix, equal diagonal, other off-diagonal entries
                    let v = g.below(nvars as u64) as usize;
                    vars_list.push(reg(vec![v], vec![w, 0.5, 0.5, w]));
                    kind = "generic_add_equal_diagonal_full";
                    q.make_interaction(vec![w, 0.5, 0.5, w], vec![v])
                } else if r == 2 {
                    // diagonal constructor with a constant diagonal (pure energy shift), 1 or 2 variables
                    let k = if nvars >= 2 && g.coin() { 2 } else { 1 };
                    let mut vars: Vec<usize> = vec![];
                    while vars.len() < k {
                        let v = g.below(nvars as u64) as usize;
                        if !vars.contains(&v) {
                            vars.push(v);
                        }
                    }
                    vars_list.push(reg(vars.clone(), full_from_diag(&vec![w; 1 << k])));
                    kind = "generic_add_constant_diagonal";
                    q.make_diagonal_interaction(vec![w; 1 << k], vars)
                } else {
                    let (mat, vars, d) = gen_interaction(g, nvars);
                    vars_list.push(reg(vars.clone(), mat.clone()));
                    kind = "generic_add_state_dependent";
                    add_interaction(q, &mat, &vars, d)
                };
                if res.is_err() {
                    continue;
                }
                new_bond = Some(vars_list.len() - 1);
            }
            if had_table {
                stat("generic_added_after_table_was_built", 1);
            }
        }
        // --- trajectories of the next sweeps
        let mut failed = false;
        for _ in 0..g.range(1, 3) {
            let cfg = cfg_of(&smp, beta);
            rng.take_log();
            if let Err(p) = catch(|| smp.sweep(beta)) {
                emit(true, &format!("sweep-panic {}", kind), "PANIC", Some(Err(format!("diagonal_update panicked: {}", p))));
                failed = true;
                break;
            }
            let log = rng.take_log();
            let out = RunOut { slots: smp.slots(), state: smp.state(), n: smp.get_n(), log: log.clone(), calls: vec![] };
            let mut oracle = check_registered(&smp).and_then(|_| sweep_oracle(&cfg, &out));
            if oracle.is_ok() {
                oracle = check_table(&smp.table(), &cfg.bonds, true);
            }
            let input = format!(
                "gsweep {} {} {} {} {} {}",
                show_table_ham(&cfg.bonds),
                rat(beta),
                cfg.cutoff,
                bits(&cfg.state),
                show_cfg_slots(&cfg.slots),
                words(&log)
            );
            stat(&format!("generic_traj_{}", kind), 1);
            emit(true, &input, &format!("{} {} ok", show_cfg_slots(&out.slots), bits(&out.state)), Some(oracle));
            if g.coin() && catch(|| smp.timestep(beta)).is_err() {
                failed = true;
                break;
            }
        }
        if failed {
            continue;
        }
        // --- insert/remove probabilities, preferably of the bond just added
        let bond = if g.chance(3, 4) { new_bond } else { None };
        if prob_on(g, &rng, smp, kind, beta, ProbOpts { bond, table_from_ham: true, ..Default::default() }) {
            if bond.is_some() {
                stat("generic_prob_on_new_bond", 1);
            }
        }
        done += 1;
    }
}

/// Ising sampler run hot (the cutoff grows), then cold (few operators spread over the long string), converted with
/// `into_qmc` (also: converted before any step), then stepped as a generic sampler: the sweep has to use the cutoff the
/// string was built with, visit every slot, and at β = 1e-12 empty every slot of diagonal operators.
fn converted(g: &mut SplitMix64, ncases: usize) {
    let mut done = 0;
    let mut tries = 0;
    while done < ncases && tries < ncases * 20 {
        tries += 1;
        let rng = SharedRng::new(g.next());
        let spec = if g.chance(1, 4) { gen_frustrated_spec(g) } else { gen_ising_spec(g) };
        let mut ising = Smp::Ising(spec.build(&rng), spec.edges.clone());
        if g.coin() {
            enable_heatbath(&mut ising, true);
        }
        let fresh = g.chance(1, 6);
        let mut ok = true;
        if !fresh {
            let hot = *g.pick(&[2.0, 4.0, 8.0]);
            for _ in 0..g.range(2, 5) {
                ok &= catch(|| ising.timestep(hot)).is_ok();
            }
            let cold = *g.pick(&[0.125, 0.25, 0.5]);
            for _ in 0..g.range(0, 4) {
                ok &= catch(|| ising.timestep(cold)).is_ok();
            }
        }
        if !ok {
            continue;
        }
        let n_at = ising.get_n();
        let last = ising.slots().iter().rposition(|o| o.is_some()).map(|p| p + 1).unwrap_or(0);
        let (mut smp, l) = match convert_to_generic(ising) {
            Some(x) => x,
            None => {
                emit(true, "convert-panic", "PANIC", Some(Err("into_qmc panicked".into())));
                continue;
            }
        };
        let kind = if fresh { "converted_fresh" } else { "converted_hot_cold" };
        if last > n_at + n_at / 2 + 1 {
            stat("converted_last_op_beyond_n_plus_half_n", 1);
        }
        let beta = *g.pick(&[0.25, 0.5, 1.0]);
        let heat = g.coin();
        enable_heatbath(&mut smp, heat);
        // first sweep after the conversion: with the cutoff of the Ising sampler
        if !emit_sweep(&mut smp, &rng, beta, kind, heat, Some(l), false) {
            continue;
        }
        if g.coin() && !emit_sweep(&mut smp, &rng, beta, kind, heat, None, false) {
            continue;
        }
        // probabilities (heat-bath), on a second conversion-fresh clone when possible
        let mut p = smp.clone();
        enable_heatbath(&mut p, true);
        prob_on(g, &rng, p, kind, beta, ProbOpts { table_from_ham: true, ..Default::default() });
        // drain: at beta = 1e-12 every diagonal operator anywhere in the string has to go
        let heat2 = g.coin();
        enable_heatbath(&mut smp, heat2);
        emit_sweep(&mut smp, &rng, beta, kind, heat2, None, true);
        done += 1;
    }
    // the drain / cutoff oracle directly after the conversion (no sweep in between)
    let mut done = 0;
    let mut tries = 0;
    while done < ncases / 2 && tries < ncases * 20 {
        tries += 1;
        let rng = SharedRng::new(g.next());
        let spec = gen_ising_spec(g);
        let mut ising = Smp::Ising(spec.build(&rng), spec.edges.clone());
        let mut ok = true;
        let hot = *g.pick(&[2.0, 4.0, 8.0]);
        for _ in 0..g.range(2, 5) {
            ok &= catch(|| ising.timestep(hot)).is_ok();
        }
        for _ in 0..g.range(1, 4) {
            ok &= catch(|| ising.timestep(0.125)).is_ok();
        }
        if !ok {
            continue;
        }
        if let Some((mut smp, l)) = convert_to_generic(ising) {
            let heat = g.coin();
            enable_heatbath(&mut smp, heat);
            if g.coin() {
                emit_sweep(&mut smp, &rng, 1.0, "converted_then_drain", heat, Some(l), true);
            } else {
                let mut p = smp.clone();
                enable_heatbath(&mut p, true);
                let b2 = *g.pick(&[0.25, 0.5, 1.0]);
                prob_on(g, &rng, p, "converted_then_prob", b2, ProbOpts { table_from_ham: true, expect_cutoff: Some(l), ..Default::default() });
            }
            done += 1;
        }
    }
}

/// Ising sampler with a longitudinal field of either sign under heat-bath: sweeps replayed with the table of the FULL
/// Hamiltonian (edges, transverse and field bonds) and the insert/remove probabilities of FIELD bonds bisected on
/// favoured spins (weight 2|h|) resp. shown to be 0 on unfavoured spins (weight 0).
fn ising_field(g: &mut SplitMix64, ncases: usize) {
    let mut done = 0;
    let mut tries = 0;
    while done < ncases && tries < ncases * 20 {
        tries += 1;
        let rng = SharedRng::new(g.next());
        let mut spec = gen_ising_spec(g);
        spec.h = *g.pick(&[0.25, -0.25, 0.5, -0.5, 1.0, -1.0, 2.0, -1.5]);
        let mut smp = Smp::Ising(spec.build(&rng), spec.edges.clone());
        let heat = g.chance(3, 4);
        enable_heatbath(&mut smp, heat);
        let beta = *g.pick(&[0.25, 0.5, 1.0, 2.0]);
        let mut ok = true;
        for _ in 0..g.range(0, 4) {
            ok &= catch(|| smp.timestep(beta)).is_ok();
        }
        if !ok {
            continue;
        }
        let kind = if spec.h > 0.0 { "ising_field_positive" } else { "ising_field_negative" };
        // in half of the cases the container is grown by hand beyond the sampler's sweep (`get_manager_mut().set_cutoff(big)`)
        if g.coin() && grow_manager(&mut smp, g.range(1, 40) as usize) {
            stat(if heat { "ising_manager_grown_heatbath" } else { "ising_manager_grown_metropolis" }, 1);
        }
        if !emit_sweep(&mut smp, &rng, beta, kind, heat, None, false) {
            continue;
        }
        if !heat {
            done += 1;
            continue;
        }
        if g.coin() {
            let _ = catch(|| smp.timestep(beta));
            if !emit_sweep(&mut smp, &rng, beta, kind, true, None, false) {
                continue;
            }
        }
        let v = g.below(spec.nvars as u64) as usize;
        let bond = Some(spec.edges.len() + spec.nvars + v);
        prob_on(g, &rng, smp, kind, beta, ProbOpts { bond, table_from_ham: true, zero_ok: true, ..Default::default() });
        done += 1;
    }
}

/// Generic samplers with several CONSTANT single-site terms of different weights (weight 0 included): each constant bond
/// must be filled / emptied with ITS OWN weight, whatever was evaluated earlier in the sweep. Metropolis (`mprob_fresh`) and
/// heat-bath (`prob_on` with an earlier insertion of another constant bond), plus trajectories of both variants.
fn constant_terms(g: &mut SplitMix64, ncases: usize) {
    for _ in 0..ncases {
        let nvars = g.range(2, 4) as usize;
        let weights = [0.25, 0.5, 1.0, 1.5, 2.0, 3.0];
        let mut spec: Vec<(Vec<f64>, Vec<usize>, bool)> = vec![];
        let mut consts: Vec<(usize, f64)> = vec![];
        for v in 0..nvars {
            if v < 2 || g.chance(2, 3) {
                let mut w = if g.chance(1, 4) { 0.0 } else { *g.pick(&weights) };
                if v == 1 && w == consts[0].1 {
                    w += 0.75;
                }
                consts.push((spec.len(), w));
                spec.push((vec![w; 4], vec![v], false));
            }
        }
        for _ in 0..g.range(0, 2) {
            spec.push(gen_interaction(g, nvars));
        }
        // random order of registration
        for i in (1..spec.len()).rev() {
            let j = g.below(i as u64 + 1) as usize;
            spec.swap(i, j);
            for c in consts.iter_mut() {
                if c.0 == i {
                    c.0 = j
                } else if c.0 == j {
                    c.0 = i
                }
            }
        }
        let state: Vec<bool> = (0..nvars).map(|_| g.coin()).collect();
        let build = |rng: &SharedRng| -> Smp {
            let mut q = GenQ::new_with_state(nvars, rng.clone(), state.clone(), false);
            let mut vl = vec![];
            for (mat, vars, d) in spec.iter() {
                add_interaction(&mut q, mat, vars, *d).unwrap();
                vl.push(reg(vars.clone(), mat.clone()));
            }
            Smp::Gen(q, vl)
        };
        let b = consts[g.below(consts.len() as u64) as usize];
        let others: Vec<(usize, f64)> = consts.iter().cloned().filter(|c| c.0 != b.0).collect();
        let pre = *g.pick(&others);
        // --- Metropolis
        let rng = SharedRng::new(g.next());
        mprob_fresh(g, &rng, build(&rng), "constant_terms", b.0, pre.0);
        // --- heat-bath: an earlier insertion of another constant bond (positive weight), then bond b
        let pos: Vec<(usize, f64)> = others.iter().cloned().filter(|c| c.1 > 0.0).collect();
        let rng = SharedRng::new(g.next());
        let mut smp = build(&rng);
        enable_heatbath(&mut smp, true);
        let beta = *g.pick(&[0.25, 0.5, 1.0, 2.0]);
        smp.set_cutoff(g.range(4, 12) as usize);
        for _ in 0..g.range(0, 2) {
            let _ = catch(|| smp.timestep(beta));
        }
        let heat_first = g.coin();
        enable_heatbath(&mut smp, heat_first);
        emit_sweep(&mut smp, &rng, beta, "constant_terms", heat_first, None, false);
        enable_heatbath(&mut smp, true);
        emit_sweep(&mut smp, &rng, beta, "constant_terms", true, None, false);
        if !pos.is_empty() {
            let c = *g.pick(&pos);
            if prob_on(g, &rng, smp, "constant_terms", beta, ProbOpts { bond: Some(b.0), pre_bond: Some(c.0), table_from_ham: true, zero_ok: true, ..Default::default() }) {
                stat("constant_terms_heatbath_bisected", 1);
            }
        }
    }
}

fn main() {
    quiet_panics();
    let a = args();
    let mut g = SplitMix64::new(a.seed ^ 0xC08);
    match a.mode.as_str() {
        "traj" => traj(&mut g, if a.thorough { 40000 } else { 4000 }),
        "prob" => {
            let want = if a.thorough { 4000 } else { 400 };
            let mut done = 0;
            let mut tries = 0;
            while done < want && tries < want * 20 {
                tries += 1;
                if prob_metropolis(&mut g) {
                    done += 1;
                }
            }
            let mut done = 0;
            let mut tries = 0;
            while done < want && tries < want * 20 {
                tries += 1;
                if prob_heatbath(&mut g) {
                    done += 1;
                }
            }
        }
        "generic" => {
            generic(&mut g, if a.thorough { 3000 } else { 300 });
            converted(&mut g, if a.thorough { 2000 } else { 200 });
            ising_field(&mut g, if a.thorough { 3000 } else { 300 });
            constant_terms(&mut g, if a.thorough { 3000 } else { 300 });
        }
        m => panic!("unknown mode {}", m),
    }
}
