//! fault — FAULT-INJECTION harness (model-free supporting oracle, like `apicov` / `kern`).
//!
//! A public update call is made to fail PART-WAY (it panics under `catch_unwind`), the caller keeps the object and goes on
//! using it. Fault points:
//!   * an illegal temperature: beta in {NaN, -1, -1/2, +inf} (`gen_bool` panics at the first acceptance test that sees it;
//!     +inf only on a zero-weight bond), next to the legal extremes beta = 0 and beta = 2^40 which must NOT panic;
//!   * the user's random number generator (`FRng`, a SplitMix64 with a fuse) panics on its k-th draw inside the call, k uniform
//!     over the draws the same call makes on a clone — this reaches every update (cluster, RVB, loop, free spins, exchange);
//!   * a user `Hamiltonian` that panics on its k-th evaluation inside `make_diagonal_update_with_rng_and_state_ref` /
//!     `make_heatbath_diagonal_update_with_rng_and_state_ref`;
//!   * a user callback of `mutate_p` / `mutate_ps` / `mutate_ops` / `mutate_subsection` / `mutate_subsection_ops` that panics on
//!     its k-th invocation (occupied and empty slots).
//! After every caught panic the object is probed: if its basic accessors panic it is UNUSABLE (on the unchanged tree the samplers
//! `take()` state / manager / rng for the duration of an update, so nothing inconsistent can be observed afterwards) — a STAT, no
//! failure. Otherwise the oracles of the property statements must hold (each message starts with the property that supplies it):
//! C06 world lines (own propagation + `verify`), C07 legality (own matrix-element formula), C11 getters = scan, C12 cutoff; then
//! the object is used for 20 further valid steps with the same oracles after each one. Mutation callbacks additionally inspect the
//! container FROM INSIDE (C11 "at every moment"): the op handed over, `get_pth` of every slot against the contents requested so
//! far, and every navigation getter against the scan.
//!
//! Modes: `ising`, `generic`, `container`, `tempering`, `all`. Every scenario runs on its own thread inside a panic guard; one
//! line per scenario `CASE nt | <mode> <label> <inputs…> | ok | ok/FAIL:<why>` (nt = a panic was caught); `STAT fault.*` lines
//! classify the outcomes. Deterministic in `--seed`; wall-clock never decides.

#![allow(clippy::too_many_arguments, clippy::type_complexity)]

use qmc::sse::fast_ops::*;
use qmc::sse::*;
use rand::{Error, RngCore};
use std::cell::{Cell, RefCell};
use std::cmp::max;
use std::collections::BTreeMap;
use vh::*;

type GI = QmcIsingGraph<FRng, FastOps>;
type GQ = Qmc<FRng, FastOps>;
type TC = TemperingContainer<FRng, GI>;

const EPS: f64 = std::f64::EPSILON;
const FOLLOW_UP: usize = 20;

// ------------------------------------------------------------------------------------------------------------------
// fuses (thread local: every scenario has its own thread) and the fused generator
// ------------------------------------------------------------------------------------------------------------------
thread_local! {
    static RNG_FUSE: Cell<Option<u64>> = Cell::new(None);
    static RNG_DRAWS: Cell<u64> = Cell::new(0);
    static HAM_FUSE: Cell<Option<u64>> = Cell::new(None);
    static HAM_EVALS: Cell<u64> = Cell::new(0);
}
fn tick(fuse: &'static std::thread::LocalKey<Cell<Option<u64>>>, count: &'static std::thread::LocalKey<Cell<u64>>, what: &str) {
    count.with(|c| c.set(c.get() + 1));
    let blow = fuse.with(|f| match f.get() {
        Some(0) => {
            f.set(None);
            true
        }
        Some(k) => {
            f.set(Some(k - 1));
            false
        }
        None => false,
    });
    if blow {
        panic!("injected fault: {}", what);
    }
}
fn arm(fuse: &'static std::thread::LocalKey<Cell<Option<u64>>>, k: Option<u64>) {
    fuse.with(|f| f.set(k));
}
fn disarm() {
    arm(&RNG_FUSE, None);
    arm(&HAM_FUSE, None);
}
fn draws() -> u64 {
    RNG_DRAWS.with(|c| c.get())
}
fn evals() -> u64 {
    HAM_EVALS.with(|c| c.get())
}

/// SplitMix64 (same words as `vh::SplitMix64`) whose k-th draw panics when the thread's fuse is armed
#[derive(Clone, Debug)]
struct FRng(SplitMix64);
impl RngCore for FRng {
    fn next_u32(&mut self) -> u32 {
        tick(&RNG_FUSE, &RNG_DRAWS, "the random number generator failed");
        (self.0.next() >> 32) as u32
    }
    fn next_u64(&mut self) -> u64 {
        tick(&RNG_FUSE, &RNG_DRAWS, "the random number generator failed");
        self.0.next()
    }
    fn fill_bytes(&mut self, dest: &mut [u8]) {
        for chunk in dest.chunks_mut(8) {
            let w = self.next_u64().to_le_bytes();
            chunk.copy_from_slice(&w[..chunk.len()]);
        }
    }
    fn try_fill_bytes(&mut self, dest: &mut [u8]) -> Result<(), Error> {
        self.fill_bytes(dest);
        Ok(())
    }
}

// ------------------------------------------------------------------------------------------------------------------
// scenario bookkeeping
// ------------------------------------------------------------------------------------------------------------------
struct Sc {
    input: Vec<String>,
    errs: Vec<String>,
    stats: BTreeMap<String, u64>,
    nt: bool,
}
impl Sc {
    fn new() -> Self {
        Sc { input: vec![], errs: vec![], stats: BTreeMap::new(), nt: false }
    }
    fn tok(&mut self, s: impl std::fmt::Display) {
        self.input.push(s.to_string().replace(' ', "_"));
    }
    fn stat(&mut self, k: &str) {
        *self.stats.entry(k.to_string()).or_insert(0) += 1;
    }
    fn fail(&mut self, msg: String) {
        if self.errs.len() < 4 {
            self.errs.push(clip(&msg));
        }
    }
    /// true = ok
    fn res(&mut self, ctx: &str, r: Result<(), String>) -> bool {
        match r {
            Ok(()) => true,
            Err(e) => {
                // the property id stays in front
                self.fail(format!("{} [{}]", e, ctx));
                false
            }
        }
    }
}
fn clip(s: &str) -> String {
    if s.len() > 400 {
        let mut k = 400;
        while !s.is_char_boundary(k) {
            k -= 1;
        }
        format!("{}…", &s[..k])
    } else {
        s.to_string()
    }
}
fn pool_exhausted(msg: &str) -> bool {
    msg.contains("Out of instances")
}

// ------------------------------------------------------------------------------------------------------------------
// scan of a container (definition side of every "getter = scan" oracle)
// ------------------------------------------------------------------------------------------------------------------
#[derive(Clone, Debug, PartialEq, Eq)]
struct SOp {
    p: usize,
    bond: usize,
    vars: Vec<usize>,
    ins: Vec<bool>,
    outs: Vec<bool>,
    diag: bool,
    constant: bool,
}
fn sop<O: Op>(p: usize, op: &O) -> SOp {
    SOp {
        p,
        bond: op.get_bond(),
        vars: op.get_vars().to_vec(),
        ins: op.get_inputs().to_vec(),
        outs: op.get_outputs().to_vec(),
        diag: op.is_diagonal(),
        constant: op.is_constant(),
    }
}
fn scan<M: OpContainer>(m: &M) -> Vec<Option<SOp>> {
    (0..m.get_cutoff()).map(|p| m.get_pth(p).map(|op| sop(p, op))).collect()
}
fn occupied(s: &[Option<SOp>]) -> Vec<usize> {
    s.iter().enumerate().filter(|(_, o)| o.is_some()).map(|(p, _)| p).collect()
}
/// states entering every slot (+ the final one), by plain propagation of `state`; Err(p) if the op at p does not meet its inputs
fn propagate(s: &[Option<SOp>], state: &[bool]) -> Result<Vec<Vec<bool>>, usize> {
    let mut st = state.to_vec();
    let mut out = Vec::with_capacity(s.len() + 1);
    for (p, o) in s.iter().enumerate() {
        out.push(st.clone());
        if let Some(op) = o {
            for (k, v) in op.vars.iter().enumerate() {
                if *v >= st.len() || k >= op.ins.len() || st[*v] != op.ins[k] {
                    return Err(p);
                }
            }
            for (k, v) in op.vars.iter().enumerate() {
                st[*v] = op.outs[k];
            }
        }
    }
    out.push(st);
    Ok(out)
}

// ------------------------------------------------------------------------------------------------------------------
// the Hamiltonians as the HARNESS states them (own matrix-element formulas, own bond layout)
// ------------------------------------------------------------------------------------------------------------------
trait Model {
    fn nbonds(&self) -> usize;
    fn edge(&self, b: usize) -> (Vec<usize>, bool);
    fn weight(&self, b: usize, ins: &[bool], outs: &[bool]) -> f64;
}

/// transverse-field Ising model: bonds 0..ne two-site couplings (not constant), ne..ne+n transverse (constant),
/// ne+n..ne+2n longitudinal (only if |h| > EPSILON)
#[derive(Clone, Debug)]
struct IsingModel {
    nvars: usize,
    pairs: Vec<((usize, usize), f64)>,
    edges: Vec<Vec<usize>>,
    gamma: f64,
    h: f64,
    vars: Vec<usize>,
}
impl IsingModel {
    fn new(nvars: usize, pairs: Vec<((usize, usize), f64)>, gamma: f64, h: f64) -> Self {
        let edges = pairs.iter().map(|((a, b), _)| vec![*a, *b]).collect();
        IsingModel { nvars, pairs, edges, gamma, h, vars: (0..nvars).collect() }
    }
    fn ne(&self) -> usize {
        self.pairs.len()
    }
    fn edge_ref(&self, b: usize) -> (&[usize], bool) {
        let (ne, n) = (self.ne(), self.nvars);
        if b < ne {
            (&self.edges[b], false)
        } else if b < ne + n {
            (&self.vars[b - ne..b - ne + 1], true)
        } else {
            (&self.vars[b - ne - n..b - ne - n + 1], false)
        }
    }
    fn token(&self) -> String {
        let e: Vec<String> = self.pairs.iter().map(|((a, b), j)| format!("{},{},{}", a, b, rat(*j))).collect();
        format!("I!{}!{}!{}!{}", self.nvars, e.join(";"), rat(self.gamma), rat(self.h))
    }
}
impl Model for IsingModel {
    fn nbonds(&self) -> usize {
        self.ne() + self.nvars + if self.h.abs() > EPS { self.nvars } else { 0 }
    }
    fn edge(&self, b: usize) -> (Vec<usize>, bool) {
        let (v, c) = self.edge_ref(b);
        (v.to_vec(), c)
    }
    /// -H_b + the smallest shift that makes the diagonal non-negative
    fn weight(&self, b: usize, ins: &[bool], outs: &[bool]) -> f64 {
        let (ne, n) = (self.ne(), self.nvars);
        if b < ne {
            let j = self.pairs[b].1;
            if ins != outs {
                0.0
            } else if ins[0] == ins[1] {
                j.abs() - j
            } else {
                j.abs() + j
            }
        } else if b < ne + n {
            self.gamma
        } else if ins != outs {
            0.0
        } else if ins[0] {
            self.h.abs() + self.h
        } else {
            self.h.abs() - self.h
        }
    }
}
/// the model handed to the TRAIT-LEVEL update functions; `fused`: the k-th evaluation panics when the thread's fuse is armed
#[derive(Clone, Copy)]
struct IsingHam<'a> {
    m: &'a IsingModel,
    fused: bool,
}
impl<'a> Hamiltonian<'a> for IsingHam<'a> {
    fn hamiltonian(&self, _vars: &[usize], bond: usize, inputs: &[bool], outputs: &[bool]) -> f64 {
        if self.fused {
            tick(&HAM_FUSE, &HAM_EVALS, "the Hamiltonian cannot evaluate this matrix element");
        }
        self.m.weight(bond, inputs, outputs)
    }
    fn edge_fn(&self, b: usize) -> (&'a [usize], bool) {
        let m: &'a IsingModel = self.m;
        m.edge_ref(b)
    }
    fn num_bonds(&self) -> usize {
        self.m.nbonds()
    }
}

/// one interaction of the generic sampler, as data
#[derive(Clone, Debug)]
struct Term {
    /// 0 make_interaction, 1 make_interaction_and_offset, 2 make_diagonal_interaction, 3 make_diagonal_interaction_and_offset
    ctor: u8,
    mat: Vec<f64>,
    vars: Vec<usize>,
}
#[derive(Clone, Debug)]
struct GenModel {
    nvars: usize,
    terms: Vec<Term>,
}
impl GenModel {
    fn token(&self) -> String {
        let parts: Vec<String> = self.terms.iter().map(|t| format!("{}:{}:{}", t.ctor, list(&t.vars), rats(&t.mat))).collect();
        format!("T{}!{}", self.nvars, parts.join("!"))
    }
    /// the matrix the sampler must use: the user's matrix, diagonal shifted by its minimum for the `_and_offset` constructors
    fn entry(t: &Term, ins: &[bool], outs: &[bool]) -> f64 {
        let k = t.vars.len();
        let tn = 1usize << k;
        match t.ctor {
            0 => t.mat[bit_index(outs.iter().chain(ins.iter()))],
            1 => {
                let min_diag = (0..tn).map(|i| t.mat[(1 + tn) * i]).fold(f64::MAX, f64::min);
                let x = t.mat[bit_index(outs.iter().chain(ins.iter()))];
                if ins == outs {
                    x - min_diag
                } else {
                    x
                }
            }
            2 => {
                if ins == outs {
                    t.mat[bit_index(ins.iter())]
                } else {
                    0.0
                }
            }
            _ => {
                let min = t.mat.iter().cloned().fold(f64::MAX, f64::min);
                if ins == outs {
                    t.mat[bit_index(ins.iter())] - min
                } else {
                    0.0
                }
            }
        }
    }
}
fn patterns(n: usize) -> Vec<Vec<bool>> {
    (0..(1usize << n)).map(|i| (0..n).map(|b| (i >> (n - 1 - b)) & 1 == 1).collect()).collect()
}
impl Model for GenModel {
    fn nbonds(&self) -> usize {
        self.terms.len()
    }
    fn edge(&self, b: usize) -> (Vec<usize>, bool) {
        let t = &self.terms[b];
        // constant = a FULL matrix whose entries are all equal (recomputed from the matrix)
        let constant = t.ctor <= 1 && {
            let pats = patterns(t.vars.len());
            let first = GenModel::entry(t, &pats[0], &pats[0]);
            pats.iter().all(|o| pats.iter().all(|i| GenModel::entry(t, i, o) == first))
        };
        (t.vars.clone(), constant)
    }
    fn weight(&self, b: usize, ins: &[bool], outs: &[bool]) -> f64 {
        GenModel::entry(&self.terms[b], ins, outs)
    }
}

// ------------------------------------------------------------------------------------------------------------------
// oracles
// ------------------------------------------------------------------------------------------------------------------
/// C06 (world-line consistency, periodicity, `verify` agrees) + C07 (legality) + C11 n + C12 (n <= slots)
fn check_config<M: OpContainer>(m: &M, state: &[bool], mdl: &dyn Model) -> Result<(), String> {
    let s = scan(m);
    if state.len() != m.get_nvars() {
        return Err(format!("C06 state has {} spins, container {} variables", state.len(), m.get_nvars()));
    }
    let consistent = match propagate(&s, state) {
        Err(p) => Err(format!("C06 op at p={} ({:?}) does not meet its recorded inputs when the reported state {} is propagated", p, s[p].as_ref().unwrap(), bits(state))),
        Ok(states) => {
            let fin = states.last().unwrap();
            if fin != state {
                Err(format!("C06 propagation ends in {} not in the reported state {}", bits(fin), bits(state)))
            } else {
                Ok(())
            }
        }
    };
    let lib = catch(|| m.verify(state));
    match (&consistent, &lib) {
        (Ok(()), Ok(true)) => {}
        (Ok(()), other) => return Err(format!("C06 OpContainer::verify(state) answers {:?} on a consistent configuration", other)),
        (Err(e), Ok(true)) => return Err(format!("{}; and OpContainer::verify(state) answers true", e)),
        (Err(e), _) => return Err(e.clone()),
    }
    for op in s.iter().flatten() {
        if op.bond >= mdl.nbonds() {
            return Err(format!("C07 p={} bond {} out of range {}", op.p, op.bond, mdl.nbonds()));
        }
        let (vars, c) = mdl.edge(op.bond);
        if vars != op.vars {
            return Err(format!("C07 p={} bond {} vars {:?} but the bond acts on {:?}", op.p, op.bond, op.vars, vars));
        }
        if c != op.constant {
            return Err(format!("C07 p={} bond {} constant flag {} but bond says {}", op.p, op.bond, op.constant, c));
        }
        if op.ins.len() != vars.len() || op.outs.len() != vars.len() {
            return Err(format!("C07 p={} wrong number of values", op.p));
        }
        if op.diag != (op.ins == op.outs) {
            return Err(format!("C07 p={} tag diagonal={} but ins {} outs {}", op.p, op.diag, bits(&op.ins), bits(&op.outs)));
        }
        let w = mdl.weight(op.bond, &op.ins, &op.outs);
        if !(w > 0.0) {
            return Err(format!("C07 p={} bond {} {}->{} has matrix element {}", op.p, op.bond, bits(&op.ins), bits(&op.outs), w));
        }
    }
    let n = occupied(&s).len();
    if m.get_n() != n {
        return Err(format!("C11 get_n {} but {} occupied slots", m.get_n(), n));
    }
    if n > m.get_cutoff() {
        return Err("C12 more ops than slots".into());
    }
    Ok(())
}

fn prev_var(s: &[Option<SOp>], p: usize, v: usize) -> Option<PRel> {
    (0..p).rev().find_map(|q| s[q].as_ref().and_then(|o| o.vars.iter().position(|x| *x == v).map(|relv| PRel { p: q, relv })))
}
fn next_var(s: &[Option<SOp>], p: usize, v: usize) -> Option<PRel> {
    (p + 1..s.len()).find_map(|q| s[q].as_ref().and_then(|o| o.vars.iter().position(|x| *x == v).map(|relv| PRel { p: q, relv })))
}

/// C11: every navigation getter of the container equals what a scan of the slots gives (panics of a getter are answers too)
fn check_nav<M: LoopUpdater>(m: &M, nbonds: usize) -> Result<(), String> {
    match catch(|| check_nav_inner(m, nbonds)) {
        Ok(r) => r,
        Err(e) => Err(format!("C11 a navigation getter panicked: {}", e)),
    }
}
fn check_nav_inner<M: LoopUpdater>(m: &M, nbonds: usize) -> Result<(), String> {
    let s = scan(m);
    let occ = occupied(&s);
    let nvars = m.get_nvars();
    if m.get_n() != occ.len() {
        return Err(format!("C11 get_n {} vs scan {}", m.get_n(), occ.len()));
    }
    if m.get_first_p() != occ.first().cloned() || m.get_last_p() != occ.last().cloned() {
        return Err(format!("C11 first/last p {:?}/{:?} vs scan {:?}/{:?}", m.get_first_p(), m.get_last_p(), occ.first(), occ.last()));
    }
    for b in 0..nbonds + 2 {
        let c = s.iter().flatten().filter(|o| o.bond == b).count();
        if m.get_count(b) != c {
            return Err(format!("C11 get_count({}) = {} vs scan {}", b, m.get_count(b), c));
        }
    }
    for v in 0..nvars {
        let f = (0..s.len()).find_map(|q| s[q].as_ref().and_then(|o| o.vars.iter().position(|x| *x == v).map(|relv| PRel { p: q, relv })));
        let l = prev_var(&s, s.len(), v);
        if m.get_first_p_for_var(v) != f || m.get_last_p_for_var(v) != l {
            return Err(format!("C11 var {} first/last {:?}/{:?} vs scan {:?}/{:?}", v, m.get_first_p_for_var(v), m.get_last_p_for_var(v), f, l));
        }
        if m.does_var_have_ops(v) != f.is_some() {
            return Err(format!("C11 does_var_have_ops({}) = {} vs scan {}", v, m.does_var_have_ops(v), f.is_some()));
        }
    }
    for (k, p) in occ.iter().enumerate() {
        let node = match m.get_node_ref(*p) {
            Some(n) => n,
            None => return Err(format!("C11 get_node_ref({}) is None on an occupied slot", p)),
        };
        let o = s[*p].as_ref().unwrap();
        if sop(*p, node.get_op_ref()) != *o {
            return Err(format!("C11 node at {} holds another op than get_pth", p));
        }
        let pp = if k > 0 { Some(occ[k - 1]) } else { None };
        let np = occ.get(k + 1).cloned();
        if m.get_previous_p(node) != pp || m.get_next_p(node) != np {
            return Err(format!("C11 p={} prev/next {:?}/{:?} vs scan {:?}/{:?}", p, m.get_previous_p(node), m.get_next_p(node), pp, np));
        }
        for (relv, v) in o.vars.iter().enumerate() {
            let (pv, nv) = (prev_var(&s, *p, *v), next_var(&s, *p, *v));
            if m.get_previous_p_for_rel_var(relv, node) != pv || m.get_next_p_for_rel_var(relv, node) != nv {
                return Err(format!(
                    "C11 p={} var {} prev/next by rel var {:?}/{:?} vs scan {:?}/{:?}",
                    p,
                    v,
                    m.get_previous_p_for_rel_var(relv, node),
                    m.get_next_p_for_rel_var(relv, node),
                    pv,
                    nv
                ));
            }
            if m.get_previous_p_for_var(*v, node) != Ok(pv) || m.get_next_p_for_var(*v, node) != Ok(nv) {
                return Err(format!("C11 p={} var {} prev/next by var vs scan {:?}/{:?}", p, v, pv, nv));
            }
        }
        if m.get_nth_p(k) != *p {
            return Err(format!("C11 get_nth_p({}) = {} vs scan {}", k, m.get_nth_p(k), p));
        }
    }
    for (p, o) in s.iter().enumerate() {
        if o.is_none() && m.get_node_ref(p).is_some() {
            return Err(format!("C11 get_node_ref({}) is Some on an empty slot", p));
        }
    }
    Ok(())
}

/// what both samplers expose to the oracles
trait Sampler {
    fn s_state(&self) -> &[bool];
    fn s_manager(&self) -> &FastOps;
    fn s_cutoff(&self) -> usize;
    fn s_n(&self) -> usize;
    fn s_bond_count(&self, b: usize) -> usize;
    fn s_fold(&self) -> Vec<Vec<bool>>;
    /// `Verify::verify` where the sampler has one
    fn s_verify(&self) -> Option<bool>;
}
impl Sampler for GI {
    fn s_state(&self) -> &[bool] {
        self.state_ref()
    }
    fn s_manager(&self) -> &FastOps {
        self.get_manager_ref()
    }
    fn s_cutoff(&self) -> usize {
        self.get_cutoff()
    }
    fn s_n(&self) -> usize {
        QmcStepper::get_n(self)
    }
    fn s_bond_count(&self, b: usize) -> usize {
        self.get_bond_count(b)
    }
    fn s_fold(&self) -> Vec<Vec<bool>> {
        self.imaginary_time_fold(
            |mut acc: Vec<Vec<bool>>, st: &[bool]| {
                acc.push(st.to_vec());
                acc
            },
            vec![],
        )
    }
    fn s_verify(&self) -> Option<bool> {
        Some(self.verify())
    }
}
impl Sampler for GQ {
    fn s_state(&self) -> &[bool] {
        self.state_ref()
    }
    fn s_manager(&self) -> &FastOps {
        self.get_manager_ref()
    }
    fn s_cutoff(&self) -> usize {
        self.get_cutoff()
    }
    fn s_n(&self) -> usize {
        QmcStepper::get_n(self)
    }
    fn s_bond_count(&self, b: usize) -> usize {
        self.get_bond_count(b)
    }
    fn s_fold(&self) -> Vec<Vec<bool>> {
        self.imaginary_time_fold(
            |mut acc: Vec<Vec<bool>>, st: &[bool]| {
                acc.push(st.to_vec());
                acc
            },
            vec![],
        )
    }
    fn s_verify(&self) -> Option<bool> {
        None
    }
}
/// the basic accessors; Err = the sampler is unusable
fn probe<S: Sampler>(g: &S) -> Result<(), String> {
    catch(|| {
        let _ = g.s_state().to_vec();
        let _ = g.s_manager().get_n();
        let _ = g.s_n();
        let _ = g.s_cutoff();
    })
}
/// C06 C07 C11 C12 on a sampler
fn check_sampler<S: Sampler>(g: &S, mdl: &dyn Model) -> Result<(), String> {
    let m = g.s_manager();
    let state = g.s_state().to_vec();
    check_config(m, &state, mdl)?;
    check_nav(m, mdl.nbonds())?;
    if g.s_verify() == Some(false) {
        return Err("C06 Verify::verify() is false on a consistent sampler".into());
    }
    let s = scan(m);
    let states = propagate(&s, &state).map_err(|p| format!("C06 inconsistent at {}", p))?;
    let fold = catch(|| g.s_fold()).map_err(|e| format!("C06 imaginary_time_fold panicked: {}", e))?;
    if fold[..] != states[..states.len() - 1] {
        return Err("C06 imaginary_time_fold states differ from the propagated states".into());
    }
    let occ = occupied(&s);
    if g.s_n() != occ.len() {
        return Err(format!("C11 sampler get_n {} differs from the scan {}", g.s_n(), occ.len()));
    }
    for b in 0..mdl.nbonds() {
        let c = s.iter().flatten().filter(|o| o.bond == b).count();
        if g.s_bond_count(b) != c {
            return Err(format!("C11 get_bond_count({}) = {} differs from the scan {}", b, g.s_bond_count(b), c));
        }
    }
    if g.s_cutoff() < occ.len() {
        return Err(format!("C12 cutoff {} < n {}", g.s_cutoff(), occ.len()));
    }
    if let Some(last) = occ.last() {
        if *last >= g.s_cutoff() {
            return Err(format!("C12 op at p={} beyond the sampler cutoff {}", last, g.s_cutoff()));
        }
    }
    Ok(())
}
fn cutoff_rule(cutoff: usize, n: usize) -> Result<(), String> {
    if cutoff < n + n / 2 + 1 {
        Err(format!("C12 after a time step cutoff {} < n + n/2 + 1 with n = {}", cutoff, n))
    } else {
        Ok(())
    }
}

// ------------------------------------------------------------------------------------------------------------------
// generators (dyadic inputs only)
// ------------------------------------------------------------------------------------------------------------------
fn gen_beta(r: &mut SplitMix64) -> f64 {
    *r.pick(&[0.25, 0.5, 1.0, 1.0, 1.5, 2.0, 3.0, 4.0])
}
fn gen_ising(r: &mut SplitMix64, force_h: Option<bool>) -> IsingModel {
    let nvars = r.range(2, 5) as usize;
    let mut pairs = vec![];
    for v in 0..nvars - 1 {
        pairs.push((v, v + 1));
    }
    for _ in 0..r.range(0, 3) {
        let a = r.below(nvars as u64) as usize;
        let b = r.below(nvars as u64) as usize;
        if a != b {
            pairs.push((a, b));
        }
    }
    let pairs = pairs
        .into_iter()
        .map(|(a, b)| {
            let mag = *r.pick(&[0.25, 0.5, 1.0, 1.0, 1.5]);
            let j = if r.coin() { mag } else { -mag };
            if r.coin() {
                ((a, b), j)
            } else {
                ((b, a), j)
            }
        })
        .collect();
    let gamma = *r.pick(&[0.25, 0.5, 1.0, 1.0, 2.0]);
    let with_h = force_h.unwrap_or_else(|| r.chance(1, 2));
    let h = if with_h { *r.pick(&[0.25, 0.5, 1.0, -0.25, -0.5, -1.0]) } else { 0.0 };
    IsingModel::new(nvars, pairs, gamma, h)
}
fn gen_state(r: &mut SplitMix64, n: usize) -> Vec<bool> {
    match r.below(4) {
        0 => vec![false; n],
        1 => vec![true; n],
        _ => (0..n).map(|_| r.coin()).collect(),
    }
}
fn build_ising(mdl: &IsingModel, cutoff: usize, state: Option<Vec<bool>>, seed: u64) -> GI {
    GI::new_with_rng(mdl.pairs.clone(), mdl.gamma, mdl.h, cutoff, FRng(SplitMix64::new(seed)), state)
}
fn gen_terms(r: &mut SplitMix64, kind: u64, nvars: usize) -> Vec<Term> {
    let mut t = vec![];
    let pop = |x: usize| x.count_ones() as usize;
    match kind {
        0 => {
            // exchange type ring (loop updates matter) + optional sz+sx+1 site terms
            let d = *r.pick(&[0.5, 1.0, 2.0]);
            let x = *r.pick(&[0.5, 1.0]);
            for v in 0..nvars {
                let w = (v + 1) % nvars;
                if w != v && !(nvars == 2 && v == 1) {
                    let mut m = vec![0.0; 16];
                    m[5] = d;
                    m[10] = d;
                    m[0] = *r.pick(&[0.0, 0.25]);
                    m[15] = m[0];
                    m[6] = x;
                    m[9] = x;
                    t.push(Term { ctor: 0, mat: m, vars: vec![v, w] });
                }
            }
            if r.coin() {
                for v in 0..nvars {
                    t.push(Term { ctor: 0, mat: vec![2.0, 1.0, 1.0, 0.0], vars: vec![v] });
                }
            }
        }
        1 => {
            // Ising symmetric two-site diagonal terms + constant single-site terms (cluster updates run)
            for v in 0..nvars - 1 {
                let j = *r.pick(&[0.5, 1.0, 1.5]);
                let m = if r.coin() { vec![j, 0.0, 0.0, j] } else { vec![0.0, j, j, 0.0] };
                let vars = if r.coin() { vec![v, v + 1] } else { vec![v + 1, v] };
                t.push(Term { ctor: 2, mat: m, vars });
            }
            let c = *r.pick(&[0.5, 1.0, 2.0]);
            for v in 0..nvars {
                t.push(Term { ctor: 0, mat: vec![c, c, c, c], vars: vec![v] });
            }
        }
        2 => {
            // mixed: three-variable diagonal table, offset constructors (negative entries), non-symmetric site terms
            if nvars >= 3 {
                let m: Vec<f64> = (0..8).map(|_| *r.pick(&[-0.5, 0.0, 0.5, 1.0, 2.0])).collect();
                t.push(Term { ctor: 3, mat: m, vars: vec![0, 2, 1] });
            }
            for v in 0..nvars {
                let a = *r.pick(&[0.5, 1.0]);
                t.push(Term { ctor: 1, mat: vec![-a, 0.5, 0.5, a], vars: vec![v] });
            }
            for v in 0..nvars - 1 {
                t.push(Term { ctor: 2, mat: vec![1.0, 0.0, 0.25, 1.0], vars: vec![v, v + 1] });
            }
        }
        _ => {
            // three-variable FULL matrix by Hamming distance + two-site full/diagonal terms + site terms (some constant)
            let d = *r.pick(&[0.5, 1.0, 2.0]);
            let x1 = *r.pick(&[0.25, 0.5, 1.0]);
            let x2 = *r.pick(&[0.25, 0.5, 0.75]);
            if nvars >= 3 {
                let mut m3 = vec![0.0; 64];
                for o in 0..8usize {
                    for i in 0..8usize {
                        m3[(o << 3) | i] = match pop(o ^ i) {
                            0 => d,
                            1 => x1,
                            2 => x2,
                            _ => 0.125,
                        };
                    }
                }
                let v0 = r.below(nvars as u64 - 2) as usize;
                t.push(Term { ctor: 0, mat: m3, vars: vec![v0 + 2, v0, v0 + 1] });
            }
            for v in 0..nvars - 1 {
                if r.coin() {
                    let mut m2 = vec![0.0; 16];
                    for o in 0..4usize {
                        for i in 0..4usize {
                            m2[(o << 2) | i] = match pop(o ^ i) {
                                0 => d,
                                1 => x1,
                                _ => x2,
                            };
                        }
                    }
                    t.push(Term { ctor: 0, mat: m2, vars: vec![v, v + 1] });
                } else {
                    t.push(Term { ctor: 2, mat: vec![1.0, 0.0, 0.0, 1.0], vars: vec![v, v + 1] });
                }
            }
            for v in 0..nvars {
                match r.below(3) {
                    0 => t.push(Term { ctor: 0, mat: vec![1.0, 0.5, 0.5, 1.0], vars: vec![v] }),
                    1 => t.push(Term { ctor: 0, mat: vec![1.0, 1.0, 1.0, 1.0], vars: vec![v] }),
                    _ => {}
                }
            }
        }
    }
    t
}
fn add_term(q: &mut GQ, t: &Term) -> Result<(), String> {
    match t.ctor {
        0 => q.make_interaction(t.mat.clone(), t.vars.clone()),
        1 => q.make_interaction_and_offset(t.mat.clone(), t.vars.clone()),
        2 => q.make_diagonal_interaction(t.mat.clone(), t.vars.clone()),
        _ => q.make_diagonal_interaction_and_offset(t.mat.clone(), t.vars.clone()),
    }
}
fn gen_generic(r: &mut SplitMix64) -> (GenModel, bool) {
    let kind = r.below(4);
    let nvars = if kind == 3 { r.range(3, 4) as usize } else { r.range(2, 4) as usize };
    let terms = gen_terms(r, kind, nvars);
    let loops = kind == 0 || kind == 3 || r.coin();
    (GenModel { nvars, terms }, loops)
}
fn build_generic(mdl: &GenModel, loops: bool, heatbath: bool, state: Vec<bool>, seed: u64) -> GQ {
    let mut q = GQ::new_with_state(mdl.nvars, FRng(SplitMix64::new(seed)), state, loops);
    for t in mdl.terms.iter() {
        add_term(&mut q, t).expect("legal interaction");
    }
    q.set_do_heatbath(heatbath);
    q
}
/// the generic model `into_qmc` must build from an Ising model
fn converted_model(m: &IsingModel) -> GenModel {
    let mut terms = vec![];
    for ((a, b), j) in m.pairs.iter() {
        terms.push(Term { ctor: 3, mat: vec![-j, *j, *j, -j], vars: vec![*a, *b] });
    }
    for v in 0..m.nvars {
        terms.push(Term { ctor: 0, mat: vec![m.gamma; 4], vars: vec![v] });
    }
    if m.h.abs() > EPS {
        for v in 0..m.nvars {
            terms.push(Term { ctor: 1, mat: vec![-m.h, 0.0, 0.0, m.h], vars: vec![v] });
        }
    }
    GenModel { nvars: m.nvars, terms }
}

/// the illegal and the extreme temperatures
#[derive(Clone, Copy, Debug)]
enum Fault {
    Beta(f64),
    Rng,
}
fn gen_bad_beta(r: &mut SplitMix64) -> f64 {
    *r.pick(&[f64::NAN, f64::NAN, -1.0, -0.5, f64::INFINITY, f64::INFINITY, 0.0, 1099511627776.0])
}
fn beta_token(b: f64) -> String {
    if b.is_nan() {
        "nan".into()
    } else if b.is_infinite() {
        "inf".into()
    } else {
        rat(b)
    }
}
fn beta_class(b: f64) -> &'static str {
    if b.is_nan() {
        "beta_nan"
    } else if b.is_infinite() {
        "beta_inf"
    } else if b < 0.0 {
        "beta_negative"
    } else if b == 0.0 {
        "beta_zero"
    } else {
        "beta_huge"
    }
}

// ------------------------------------------------------------------------------------------------------------------
// what happens after the faulted call: classification, oracles, continued use
// ------------------------------------------------------------------------------------------------------------------
struct After<'a, S, P> {
    /// STAT prefix `fault.<mode>.<call>.<fault>`
    key: String,
    probe: &'a dyn Fn(&S) -> Result<(), String>,
    oracle: &'a dyn Fn(&S) -> Result<(), String>,
    cutoff: &'a dyn Fn(&S) -> usize,
    n: &'a dyn Fn(&S) -> usize,
    /// choose one further VALID step
    plan: &'a dyn Fn(&mut SplitMix64, &S) -> P,
    /// run it; true = it was a full time step (cutoff rule applies)
    exec: &'a dyn Fn(&mut S, &P) -> bool,
}
/// returns true if the object survived and was used further without a failure
fn aftermath<S, P: std::fmt::Debug>(sc: &mut Sc, r: &mut SplitMix64, s: &mut S, a: &After<S, P>, ctx: &str, outcome: Result<(), String>, cutoff_before: usize) -> bool {
    disarm();
    let panicked = outcome.is_err();
    if panicked {
        sc.nt = true;
    }
    if let Err(e) = (a.probe)(s) {
        if panicked {
            // nothing inconsistent can be observed on an object whose accessors panic
            sc.stat(&format!("{}.unusable", a.key));
            sc.stat("fault.unusable");
        } else {
            sc.fail(format!("{} returned normally but left the object unusable: {}", ctx, e));
        }
        return false;
    }
    sc.stat(&format!("{}.{}", a.key, if panicked { "survived" } else { "returned" }));
    sc.stat(if panicked { "fault.survived" } else { "fault.returned" });
    let ctx = match &outcome {
        Err(e) => format!("{} - caught panic: {}", ctx, clip(e).chars().take(120).collect::<String>()),
        Ok(()) => ctx.to_string(),
    };
    if !sc.res(&format!("right after {}", ctx), (a.oracle)(s)) {
        return false;
    }
    let mut last_cutoff = (a.cutoff)(s);
    if last_cutoff < cutoff_before {
        sc.fail(format!("C12 cutoff shrank from {} to {} [across {}]", cutoff_before, last_cutoff, ctx));
        return false;
    }
    for i in 0..FOLLOW_UP {
        let p = (a.plan)(r, s);
        let full = match catch(|| (a.exec)(s, &p)) {
            Ok(f) => f,
            Err(e) if panicked && pool_exhausted(&e) => {
                // a caught panic inside a sweep loses the scratch buffers that were in flight (unchanged tree too); the pool
                // bound is a few instances per type. Counted, not a failure of C06/C07/C11/C12.
                sc.stat(&format!("{}.pool_exhausted_later", a.key));
                sc.stat("fault.pool_exhausted_later");
                return false;
            }
            Err(e) => {
                sc.fail(format!("valid step {:?} (#{}) after {} panicked: {}", p, i, ctx, e));
                return false;
            }
        };
        if let Err(e) = (a.probe)(s) {
            sc.fail(format!("valid step {:?} (#{}) after {} left the object unusable: {}", p, i, ctx, e));
            return false;
        }
        if !sc.res(&format!("valid step {:?} (#{}) after {}", p, i, ctx), (a.oracle)(s)) {
            return false;
        }
        let c = (a.cutoff)(s);
        if c < last_cutoff {
            sc.fail(format!("C12 cutoff shrank from {} to {} [valid step {:?} (#{}) after {}]", last_cutoff, c, p, i, ctx));
            return false;
        }
        last_cutoff = c;
        if full && !sc.res(&format!("valid step {:?} (#{}) after {}", p, i, ctx), cutoff_rule(c, (a.n)(s))) {
            return false;
        }
    }
    sc.stat("fault.continued_ok");
    true
}

/// number of draws `f` makes (on a scratch copy; its panics do not matter)
fn count_draws(f: impl FnOnce()) -> u64 {
    disarm();
    let d0 = draws();
    let _ = catch(f);
    draws() - d0
}

// ------------------------------------------------------------------------------------------------------------------
// mode ising
// ------------------------------------------------------------------------------------------------------------------
#[derive(Clone, Copy, Debug)]
enum ICall {
    Timestep,
    Diag,
    Cluster,
    Rvb(Option<usize>),
}
impl ICall {
    fn name(&self) -> &'static str {
        match self {
            ICall::Timestep => "timestep",
            ICall::Diag => "single_diagonal_step",
            ICall::Cluster => "single_cluster_step",
            ICall::Rvb(_) => "single_rvb_sweep",
        }
    }
    fn takes_beta(&self) -> bool {
        matches!(self, ICall::Timestep | ICall::Diag)
    }
}
fn icall(g: &mut GI, c: ICall, beta: f64) -> bool {
    match c {
        ICall::Timestep => {
            g.timestep(beta);
            true
        }
        ICall::Diag => {
            g.single_diagonal_step(beta);
            false
        }
        ICall::Cluster => {
            g.single_cluster_step();
            false
        }
        ICall::Rvb(k) => {
            g.single_rvb_sweep(k);
            false
        }
    }
}
fn gen_icall(r: &mut SplitMix64) -> ICall {
    match r.below(8) {
        0 | 1 | 2 => ICall::Timestep,
        3 | 4 | 5 => ICall::Diag,
        6 => ICall::Cluster,
        _ => ICall::Rvb(if r.coin() { None } else { Some(r.below(4) as usize) }),
    }
}
fn first_slot_flips(m: &FastOps) -> bool {
    m.get_cutoff() > 0 && m.get_pth(0).map(|o| !o.is_diagonal()).unwrap_or(false)
}
/// a sampler with history; `guided`: keep stepping (at most 60 more steps) until the string BEGINS with a spin flip, so that a
/// sweep interrupted further up has already changed the propagated state
fn warm_ising(r: &mut SplitMix64, sc: &mut Sc, force_h: Option<bool>) -> (IsingModel, GI, f64) {
    let mdl = gen_ising(r, force_h);
    let cutoff0 = r.range(1, 12) as usize;
    let st = if r.chance(1, 5) { None } else { Some(gen_state(r, mdl.nvars)) };
    let seed = r.next();
    let mut g = build_ising(&mdl, cutoff0, st.clone(), seed);
    let (rvb, hb) = (r.chance(1, 3), r.chance(1, 3));
    g.set_run_rvb(rvb);
    g.set_enable_heatbath(hb);
    let beta = gen_beta(r);
    let warm = r.range(1, 8);
    let guided = r.chance(2, 3);
    for _ in 0..warm {
        g.timestep(beta);
    }
    let mut extra = 0;
    while guided && extra < 60 && !first_slot_flips(g.get_manager_ref()) {
        g.timestep(beta);
        extra += 1;
    }
    sc.tok(mdl.token());
    sc.tok(format!("cutoff={},state={},seed={},rvb={},hb={},beta={},warm={}+{}", cutoff0, st.map(|s| bits(&s)).unwrap_or_else(|| "?".into()), seed, rvb as u8, hb as u8, rat(beta), warm, extra));
    (mdl, g, beta)
}
fn ising_after<'a>(key: String, mdl: &'a IsingModel) -> After<'a, GI, (ICall, f64)> {
    // the closures are leaked on purpose (a few bytes per scenario thread) to keep the struct simple
    let oracle: &'a dyn Fn(&GI) -> Result<(), String> = Box::leak(Box::new(move |g: &GI| check_sampler(g, mdl)));
    After {
        key,
        probe: &|g: &GI| probe(g),
        oracle,
        cutoff: &|g: &GI| g.get_cutoff(),
        n: &|g: &GI| g.get_n(),
        plan: &|r: &mut SplitMix64, _g: &GI| (gen_icall(r), gen_beta(r)),
        exec: &|g: &mut GI, p: &(ICall, f64)| icall(g, p.0, p.1),
    }
}
fn sc_ising(r: &mut SplitMix64, sc: &mut Sc) {
    sc.tok("ising");
    let call = gen_icall(r);
    sc.tok(call.name());
    let fault = if call.takes_beta() && r.chance(3, 5) { Fault::Beta(gen_bad_beta(r)) } else { Fault::Rng };
    let class = match fault {
        Fault::Beta(b) => beta_class(b),
        Fault::Rng => "rng",
    };
    sc.tok(class);
    let (mdl, mut g, beta_w) = warm_ising(r, sc, None);
    // options may change between the history and the faulted call
    if r.chance(1, 4) {
        let hb = r.coin();
        g.set_enable_heatbath(hb);
        sc.tok(format!("hb:={}", hb as u8));
    }
    if r.chance(1, 4) {
        let rvb = r.coin();
        g.set_run_rvb(rvb);
        sc.tok(format!("rvb:={}", rvb as u8));
    }
    if !sc.res("history before the fault", check_sampler(&g, &mdl)) {
        return;
    }
    let cutoff_before = g.get_cutoff();
    let (beta, ctx) = match fault {
        Fault::Beta(b) => {
            sc.tok(format!("beta!={}", beta_token(b)));
            (b, format!("{}(beta = {})", call.name(), beta_token(b)))
        }
        Fault::Rng => {
            let mut twin = g.clone();
            let d = count_draws(move || {
                icall(&mut twin, call, beta_w);
            });
            if d == 0 {
                sc.tok("draws=0");
                (beta_w, format!("{} (no draw to fail)", call.name()))
            } else {
                let k = r.below(d);
                sc.tok(format!("draw={}/{}", k, d));
                arm(&RNG_FUSE, Some(k));
                (beta_w, format!("{:?} whose rng fails at draw {} of {}", call, k, d))
            }
        }
    };
    let outcome = catch(|| {
        icall(&mut g, call, beta);
    });
    let a = ising_after(format!("fault.ising.{}.{}", call.name(), class), &mdl);
    aftermath(sc, r, &mut g, &a, &ctx, outcome, cutoff_before);
}

// ------------------------------------------------------------------------------------------------------------------
// mode generic
// ------------------------------------------------------------------------------------------------------------------
#[derive(Clone, Copy, Debug)]
enum GCall {
    Timestep,
    Diag,
    Loop,
    Cluster,
    Free,
}
impl GCall {
    fn name(&self) -> &'static str {
        match self {
            GCall::Timestep => "timestep",
            GCall::Diag => "diagonal_update",
            GCall::Loop => "loop_update",
            GCall::Cluster => "cluster_update",
            GCall::Free => "flip_free_bits",
        }
    }
    fn takes_beta(&self) -> bool {
        matches!(self, GCall::Timestep | GCall::Diag)
    }
}
fn gcall(q: &mut GQ, c: GCall, beta: f64) -> bool {
    match c {
        GCall::Timestep => {
            q.timestep(beta);
            true
        }
        GCall::Diag => {
            q.diagonal_update(beta);
            false
        }
        GCall::Loop => {
            q.loop_update();
            false
        }
        GCall::Cluster => {
            // refused (Err) on models that break the Ising symmetry: nothing happens then
            let _ = q.cluster_update().is_ok();
            false
        }
        GCall::Free => {
            q.flip_free_bits();
            false
        }
    }
}
fn gen_gcall(r: &mut SplitMix64) -> GCall {
    match r.below(10) {
        0 | 1 | 2 => GCall::Timestep,
        3 | 4 | 5 => GCall::Diag,
        6 | 7 => GCall::Loop,
        8 => GCall::Cluster,
        _ => GCall::Free,
    }
}
fn generic_after<'a>(key: String, mdl: &'a GenModel) -> After<'a, GQ, (GCall, f64)> {
    let oracle: &'a dyn Fn(&GQ) -> Result<(), String> = Box::leak(Box::new(move |q: &GQ| check_sampler(q, mdl)));
    After {
        key,
        probe: &|q: &GQ| probe(q),
        oracle,
        cutoff: &|q: &GQ| q.get_cutoff(),
        n: &|q: &GQ| QmcStepper::get_n(q),
        plan: &|r: &mut SplitMix64, _q: &GQ| (gen_gcall(r), gen_beta(r)),
        exec: &|q: &mut GQ, p: &(GCall, f64)| gcall(q, p.0, p.1),
    }
}
/// valid arguments only: an Ising sampler is stepped, converted with `into_qmc`, a further valid interaction is added and
/// stepping continues; should any of these steps panic, the sampler that is left must be unusable or consistent
fn sc_generic_convert(r: &mut SplitMix64, sc: &mut Sc) {
    sc.tok("generic");
    sc.tok("into_qmc+make_interaction+timestep");
    sc.tok("valid_arguments");
    let with_h = r.chance(3, 4);
    let (imdl, g, beta) = warm_ising(r, sc, Some(with_h));
    let mut q: GQ = g.into_qmc();
    let mut mdl = converted_model(&imdl);
    let extra = r.range(1, 2);
    for _ in 0..extra {
        let t = if r.coin() {
            let c = *r.pick(&[0.25, 0.5, 1.0]);
            Term { ctor: 0, mat: vec![c; 4], vars: vec![r.below(imdl.nvars as u64) as usize] }
        } else {
            let a = r.below(imdl.nvars as u64) as usize;
            let b = (a + 1 + r.below(imdl.nvars as u64 - 1) as usize) % imdl.nvars;
            Term { ctor: 2, mat: vec![1.0, 0.5, 0.5, 1.0], vars: vec![a, b] }
        };
        if let Err(e) = add_term(&mut q, &t) {
            sc.fail(format!("a valid interaction {:?} was refused after into_qmc: {}", t, e));
            return;
        }
        mdl.terms.push(t);
    }
    sc.tok(mdl.token());
    if r.coin() {
        q.set_do_loop_updates(true);
        sc.tok("loops");
    }
    if !sc.res("converted sampler before any step", check_sampler(&q, &mdl)) {
        return;
    }
    let a = generic_after("fault.generic.converted_timestep.valid_arguments".into(), &mdl);
    for i in 0..30 {
        let cutoff_before = q.get_cutoff();
        let outcome = catch(|| {
            q.timestep(beta);
        });
        if outcome.is_err() {
            aftermath(sc, r, &mut q, &a, &format!("timestep #{} of a converted sampler with a later interaction (valid arguments only)", i), outcome, cutoff_before);
            return;
        }
        if !sc.res(&format!("timestep #{} of a converted sampler with a later interaction", i), check_sampler(&q, &mdl)) {
            return;
        }
    }
    sc.stat("fault.generic.converted_timestep.valid_arguments.no_panic");
}
fn sc_generic(r: &mut SplitMix64, sc: &mut Sc) {
    if r.chance(1, 6) {
        return sc_generic_convert(r, sc);
    }
    sc.tok("generic");
    let call = gen_gcall(r);
    sc.tok(call.name());
    let fault = if call.takes_beta() && r.chance(3, 5) { Fault::Beta(gen_bad_beta(r)) } else { Fault::Rng };
    let class = match fault {
        Fault::Beta(b) => beta_class(b),
        Fault::Rng => "rng",
    };
    sc.tok(class);
    let (mdl, loops) = gen_generic(r);
    let hb = r.chance(1, 3);
    let st = gen_state(r, mdl.nvars);
    let seed = r.next();
    let mut q = build_generic(&mdl, loops, hb, st.clone(), seed);
    let beta_w = gen_beta(r);
    let warm = r.range(1, 8);
    for _ in 0..warm {
        q.timestep(beta_w);
    }
    let mut extra = 0;
    let guided = r.chance(2, 3);
    while guided && extra < 60 && !first_slot_flips(q.get_manager_ref()) {
        q.timestep(beta_w);
        extra += 1;
    }
    sc.tok(mdl.token());
    sc.tok(format!("state={},seed={},loops={},hb={},beta={},warm={}+{}", bits(&st), seed, loops as u8, hb as u8, rat(beta_w), warm, extra));
    if r.chance(1, 4) {
        let hb = r.coin();
        q.set_do_heatbath(hb);
        sc.tok(format!("hb:={}", hb as u8));
    }
    if !sc.res("history before the fault", check_sampler(&q, &mdl)) {
        return;
    }
    let cutoff_before = q.get_cutoff();
    let (beta, ctx) = match fault {
        Fault::Beta(b) => {
            sc.tok(format!("beta!={}", beta_token(b)));
            (b, format!("{}(beta = {})", call.name(), beta_token(b)))
        }
        Fault::Rng => {
            let mut twin = q.clone();
            let d = count_draws(move || {
                gcall(&mut twin, call, beta_w);
            });
            if d == 0 {
                sc.tok("draws=0");
                (beta_w, format!("{} (no draw to fail)", call.name()))
            } else {
                let k = r.below(d);
                sc.tok(format!("draw={}/{}", k, d));
                arm(&RNG_FUSE, Some(k));
                (beta_w, format!("{} whose rng fails at draw {} of {}", call.name(), k, d))
            }
        }
    };
    let outcome = catch(|| {
        gcall(&mut q, call, beta);
    });
    let a = generic_after(format!("fault.generic.{}.{}", call.name(), class), &mdl);
    aftermath(sc, r, &mut q, &a, &ctx, outcome, cutoff_before);
}

// ------------------------------------------------------------------------------------------------------------------
// mode container: a FastOps owned by the harness, mutation callbacks / Hamiltonians / generators that fail part-way
// ------------------------------------------------------------------------------------------------------------------
struct Raw {
    m: FastOps,
    state: Vec<bool>,
    rng: FRng,
}
fn mk_diag(mdl: &IsingModel, b: usize, st: &[bool]) -> Option<FastOp> {
    let (vars, c) = mdl.edge_ref(b);
    let sub: Vec<bool> = vars.iter().map(|v| st[*v]).collect();
    if mdl.weight(b, &sub, &sub) > 0.0 {
        Some(FastOp::diagonal(FastOp::make_vars(vars.iter().cloned()), b, FastOp::make_substate(sub.iter().cloned()), c))
    } else {
        None
    }
}
fn mk_flip(mdl: &IsingModel, v: usize, from: bool) -> FastOp {
    FastOp::offdiagonal(FastOp::make_vars(std::iter::once(v)), mdl.ne() + v, FastOp::make_substate(std::iter::once(from)), FastOp::make_substate(std::iter::once(!from)), true)
}
/// a legal periodic operator string written by the harness (diagonal ops with positive weight, transverse spin flips)
fn gen_string(r: &mut SplitMix64, mdl: &IsingModel, s0: &[bool], len: usize) -> Vec<(usize, FastOp)> {
    let mut st = s0.to_vec();
    let mut ops = vec![];
    let nb = mdl.nbonds();
    for p in 0..len {
        match r.below(10) {
            0..=2 => {}
            3..=6 => {
                if let Some(op) = mk_diag(mdl, r.below(nb as u64) as usize, &st) {
                    ops.push((p, op));
                }
            }
            _ => {
                let v = r.below(mdl.nvars as u64) as usize;
                ops.push((p, mk_flip(mdl, v, st[v])));
                st[v] = !st[v];
            }
        }
    }
    let mut p = len;
    for v in 0..mdl.nvars {
        if st[v] != s0[v] {
            ops.push((p, mk_flip(mdl, v, st[v])));
            st[v] = !st[v];
            p += 1 + r.below(2) as usize;
        }
    }
    ops
}
fn gen_raw(r: &mut SplitMix64, sc: &mut Sc) -> (IsingModel, Raw) {
    if r.coin() {
        // built by real sweeps (per-bond counters present)
        sc.tok("from_sampler");
        let (mdl, g, _) = warm_ising(r, sc, None);
        let mut m = g.get_manager_ref().clone();
        let grow = r.below(4) as usize;
        m.set_cutoff(m.get_cutoff() + grow);
        let state = g.state_ref().to_vec();
        let seed = r.next();
        sc.tok(format!("grow={},rng={}", grow, seed));
        (mdl, Raw { m, state, rng: FRng(SplitMix64::new(seed)) })
    } else {
        // built by `new_from_ops` (no counters: get_count scans)
        sc.tok("new_from_ops");
        let mdl = gen_ising(r, None);
        let s0 = gen_state(r, mdl.nvars);
        let len = r.range(0, 14) as usize;
        let ops = gen_string(r, &mdl, &s0, len);
        let top = ops.last().map(|(p, _)| p + 1).unwrap_or(0);
        let mut m = FastOps::new_from_ops(mdl.nvars, ops);
        let cut = top + r.below(5) as usize;
        m.set_cutoff(cut);
        let seed = r.next();
        sc.tok(mdl.token());
        sc.tok(format!("state={},rng={}", bits(&s0), seed));
        sc.tok(show_slots(&m));
        (mdl, Raw { m, state: s0, rng: FRng(SplitMix64::new(seed)) })
    }
}
fn raw_oracle(w: &Raw, mdl: &IsingModel) -> Result<(), String> {
    check_config(&w.m, &w.state, mdl)?;
    check_nav(&w.m, mdl.nbonds())
}
/// further valid use of a bare container: the sweeps a sampler would run, with the harness's own Hamiltonian
fn raw_step(w: &mut Raw, mdl: &IsingModel, kind: u8, beta: f64) -> bool {
    let cutoff = w.m.get_cutoff();
    let ham = IsingHam { m: mdl, fused: false };
    match kind {
        0 => {
            w.m.make_diagonal_update_with_rng_and_state_ref(cutoff, beta, &mut w.state, &ham, &mut w.rng);
            let n = w.m.get_n();
            w.m.set_cutoff(max(cutoff, n + n / 2 + 1));
        }
        1 => {
            let bw = FastOps::make_bond_weights(|_v: &[usize], b: usize, i: &[bool], o: &[bool]| mdl.weight(b, i, o), mdl.nbonds(), |b| mdl.edge_ref(b).0);
            w.m.make_heatbath_diagonal_update_with_rng_and_state_ref(cutoff, beta, &mut w.state, &ham, &bw, &mut w.rng);
            let n = w.m.get_n();
            w.m.set_cutoff(max(cutoff, n + n / 2 + 1));
        }
        _ => {
            if mdl.h.abs() > EPS {
                let first_field_bond = mdl.ne() + mdl.nvars;
                w.m.flip_each_cluster_rng(0.5, &mut w.rng, &mut w.state, Some(|node: &FastOpNode| if node.get_op_ref().get_bond() >= first_field_bond { 0.0 } else { 1.0 }));
            } else {
                w.m.flip_each_cluster_ising_symmetry_rng(0.5, &mut w.rng, &mut w.state);
            }
            for v in 0..mdl.nvars {
                if !w.m.does_var_have_ops(v) {
                    w.state[v] = w.rng.next_u64() >> 63 == 1;
                }
            }
        }
    }
    false
}
fn raw_after<'a>(key: String, mdl: &'a IsingModel) -> After<'a, Raw, (u8, f64)> {
    let oracle: &'a dyn Fn(&Raw) -> Result<(), String> = Box::leak(Box::new(move |w: &Raw| raw_oracle(w, mdl)));
    let exec: &'a dyn Fn(&mut Raw, &(u8, f64)) -> bool = Box::leak(Box::new(move |w: &mut Raw, p: &(u8, f64)| raw_step(w, mdl, p.0, p.1)));
    After {
        key,
        probe: &|w: &Raw| {
            catch(|| {
                let _ = (w.m.get_n(), w.m.get_cutoff(), w.m.get_first_p());
            })
        },
        oracle,
        cutoff: &|w: &Raw| w.m.get_cutoff(),
        n: &|w: &Raw| w.m.get_n(),
        plan: &|r: &mut SplitMix64, _w: &Raw| (r.below(3) as u8, gen_beta(r)),
        exec,
    }
}

/// which edits a callback may ask for (the domain of the entry point it is handed to)
#[derive(Clone, Debug)]
struct Policy {
    insert: bool,
    remove: bool,
    replace_same: bool,
    replace_other: bool,
    /// sub-variable cursors: only ops inside these variables may be touched
    allowed: Option<Vec<usize>>,
}
struct CbCtx<'a> {
    mdl: &'a IsingModel,
    /// state entering every slot; diagonal edits never change it
    states: &'a [Vec<bool>],
    /// contents the container must have, given the edits requested so far
    expect: RefCell<Vec<Option<SOp>>>,
    calls: Cell<u64>,
    panic_at: Option<u64>,
    fired: Cell<Option<(usize, bool)>>,
    script: Vec<u64>,
    errs: RefCell<Vec<String>>,
    pol: Policy,
    edits: Cell<u64>,
}
fn same_prefix(a: &[Option<SOp>], b: &[Option<SOp>]) -> Option<usize> {
    let n = max(a.len(), b.len());
    (0..n).find(|q| a.get(*q).cloned().flatten() != b.get(*q).cloned().flatten())
}
impl<'a> CbCtx<'a> {
    fn state_at(&self, p: usize) -> &[bool] {
        &self.states[p.min(self.states.len() - 1)]
    }
    /// C11 "at every moment": the container as the callback sees it
    fn inspect(&self, s: &FastOps, op: Option<&FastOp>, p: usize) {
        let e = self.expect.borrow();
        let mut errs = self.errs.borrow_mut();
        if errs.len() >= 3 {
            return;
        }
        let handed = op.map(|o| sop(p, o));
        let should = e.get(p).cloned().flatten();
        if handed != should {
            errs.push(format!("C11 inside the callback at slot {}: the op handed over is {:?} but the slot holds {:?} by the edits requested so far", p, handed, should));
            return;
        }
        let now = scan(s);
        if let Some(q) = same_prefix(&now, &e) {
            errs.push(format!(
                "C11 inside the callback at slot {}: get_pth({}) = {:?} but the edits requested so far leave {:?} there",
                p,
                q,
                now.get(q).cloned().flatten(),
                e.get(q).cloned().flatten()
            ));
            return;
        }
        if let Err(x) = check_nav(s, self.mdl.nbonds()) {
            errs.push(format!("{} [inside the callback at slot {}]", x, p));
        }
    }
    fn visit(&self, s: &FastOps, op: Option<&FastOp>, p: usize) -> Option<Option<FastOp>> {
        let k = self.calls.get();
        self.calls.set(k + 1);
        self.inspect(s, op, p);
        if self.panic_at == Some(k) {
            self.fired.set(Some((p, op.is_some())));
            panic!("injected fault: the callback failed at its invocation {} (slot {})", k, p);
        }
        let w = self.script[(k as usize) % self.script.len()];
        let st = self.state_at(p);
        let inside = |vars: &[usize]| self.pol.allowed.as_ref().map(|a| vars.iter().all(|v| a.contains(v))).unwrap_or(true);
        let nb = self.mdl.nbonds();
        let pick = ((w >> 8) % nb as u64) as usize;
        let act: Option<Option<FastOp>> = match op {
            None => {
                if self.pol.insert && w % 3 == 0 && inside(self.mdl.edge_ref(pick).0) {
                    mk_diag(self.mdl, pick, st).map(Some)
                } else {
                    None
                }
            }
            Some(o) if o.is_diagonal() && inside(o.get_vars()) => match w % 5 {
                0 if self.pol.remove => Some(None),
                1 if self.pol.replace_same => {
                    let cands: Vec<usize> = (0..nb).filter(|b| self.mdl.edge_ref(*b).0 == o.get_vars()).collect();
                    let b = cands[((w >> 8) % cands.len() as u64) as usize];
                    mk_diag(self.mdl, b, st).map(Some)
                }
                2 if self.pol.replace_other && inside(self.mdl.edge_ref(pick).0) => mk_diag(self.mdl, pick, st).map(Some),
                _ => None,
            },
            _ => None,
        };
        if let Some(a) = &act {
            let mut e = self.expect.borrow_mut();
            if p >= e.len() {
                e.resize(p + 1, None);
            }
            e[p] = a.as_ref().map(|o| sop(p, o));
            self.edits.set(self.edits.get() + 1);
        }
        act
    }
}

#[derive(Clone, Copy, Debug, PartialEq)]
enum ArgsKind {
    NoArgs,
    All,
    Varlist,
}
fn sc_container_callback(r: &mut SplitMix64, sc: &mut Sc) {
    sc.tok("container");
    let entry = *r.pick(&["mutate_ps", "mutate_ops", "mutate_p", "mutate_subsection", "mutate_subsection_ops"]);
    sc.tok(entry);
    sc.tok("callback");
    let (mdl, mut w) = gen_raw(r, sc);
    if !sc.res("container before the fault", raw_oracle(&w, &mdl)) {
        return;
    }
    let s0 = scan(&w.m);
    let len = s0.len();
    let states = propagate(&s0, &w.state).expect("consistent");
    let ops_only = entry == "mutate_ops" || entry == "mutate_subsection_ops";
    // window
    let pstart = if len == 0 { 0 } else { r.below(len as u64) as usize };
    let pstart = if r.chance(1, 3) { 0 } else { pstart };
    let mut pend = pstart + r.below((len - pstart) as u64 + 1) as usize;
    if r.chance(1, 2) {
        pend = len;
    }
    if !ops_only && entry != "mutate_p" && r.chance(1, 6) {
        pend = len + 1 + r.below(2) as usize;
    }
    let args_kind = match entry {
        "mutate_subsection" | "mutate_subsection_ops" => *r.pick(&[ArgsKind::NoArgs, ArgsKind::All, ArgsKind::Varlist, ArgsKind::Varlist]),
        "mutate_p" => ArgsKind::All,
        _ => ArgsKind::NoArgs,
    };
    let mut sub: Vec<usize> = (0..mdl.nvars).filter(|_| r.coin()).collect();
    if sub.is_empty() {
        sub.push(r.below(mdl.nvars as u64) as usize);
    }
    let hints: Vec<Option<usize>> = sub
        .iter()
        .map(|v| {
            let on: Vec<usize> = s0.iter().flatten().filter(|o| o.vars.contains(v)).map(|o| o.p).collect();
            if on.is_empty() || r.coin() {
                None
            } else {
                Some(*r.pick(&on))
            }
        })
        .collect();
    let varlist = args_kind == ArgsKind::Varlist;
    let pol = if ops_only {
        // op-only sweeps walk along the links of the op they just handed out: replacing is inside their domain, removing is not
        Policy { insert: false, remove: false, replace_same: true, replace_other: !varlist, allowed: if varlist { Some(sub.clone()) } else { None } }
    } else if varlist {
        Policy { insert: true, remove: true, replace_same: true, replace_other: false, allowed: Some(sub.clone()) }
    } else {
        Policy { insert: true, remove: true, replace_same: true, replace_other: true, allowed: None }
    };
    // single slot for mutate_p
    let single_p = if len == 0 {
        0
    } else {
        let occ = occupied(&s0);
        if !occ.is_empty() && r.coin() {
            *r.pick(&occ)
        } else {
            r.below(len as u64) as usize
        }
    };
    if entry == "mutate_p" && len == 0 {
        sc.tok("no_slot");
        sc.stat("fault.container.mutate_p.no_slot");
        return;
    }
    // number of invocations the call makes without a fault (on a copy), then the failing one
    let script: Vec<u64> = (0..len + 8).map(|_| r.next()).collect();
    let mut expect0 = s0.clone();
    if entry != "mutate_p" && pend > len {
        expect0.resize(pend, None);
    }
    let run = |m: &mut FastOps, cx: &CbCtx| match entry {
        "mutate_ps" => {
            m.mutate_ps(pstart, pend, pstart, |s, op, p| (cx.visit(s, op, p), p + 1));
        }
        "mutate_ops" => {
            m.mutate_ops(pstart, pend, (), |s, op, p, t| (cx.visit(s, Some(op), p), t));
        }
        "mutate_p" => {
            let args = m.get_empty_args(SubvarAccess::All);
            let args = m.fill_args_at_p(single_p, args);
            let (_, args) = m.mutate_p(|s, op, p| (cx.visit(s, op, p), p), single_p, single_p, args);
            m.return_args(args);
        }
        _ => {
            let args = match args_kind {
                ArgsKind::NoArgs => None,
                ArgsKind::All => {
                    let a = m.get_empty_args(SubvarAccess::All);
                    Some(m.fill_args_at_p(pstart, a))
                }
                ArgsKind::Varlist => {
                    let mut a = m.get_empty_args(SubvarAccess::Varlist(&sub));
                    m.fill_args_at_p_with_hint(pstart, &mut a, &sub, hints.iter().cloned());
                    Some(a)
                }
            };
            if entry == "mutate_subsection" {
                m.mutate_subsection(pstart, pend, pstart, |s, op, p| (cx.visit(s, op, p), p + 1), args);
            } else {
                m.mutate_subsection_ops(pstart, pend, (), |s, op, p, t| (cx.visit(s, Some(op), p), t), args);
            }
        }
    };
    let mk_ctx = |panic_at: Option<u64>| CbCtx {
        mdl: &mdl,
        states: &states,
        expect: RefCell::new(expect0.clone()),
        calls: Cell::new(0),
        panic_at,
        fired: Cell::new(None),
        script: script.clone(),
        errs: RefCell::new(vec![]),
        pol: pol.clone(),
        edits: Cell::new(0),
    };
    let dry = mk_ctx(None);
    let mut twin = w.m.clone();
    let dry_res = catch(|| run(&mut twin, &dry));
    let calls = dry.calls.get();
    let panic_at = if calls > 0 && r.chance(5, 6) { Some(r.below(calls)) } else { None };
    sc.tok(format!("window={}..{},p={},args={:?},vars={},hints={:?},call={}/{}", pstart, pend, single_p, args_kind, list(&sub), hints, panic_at.map(|k| k as i64).unwrap_or(-1), calls));
    let what = format!(
        "{}({}) args {:?}{} whose callback fails at invocation {:?} of {}",
        entry,
        if entry == "mutate_p" { format!("p = {}", single_p) } else { format!("{}..{}", pstart, pend) },
        args_kind,
        if varlist { format!(" vars {:?} hints {:?}", sub, hints) } else { String::new() },
        panic_at,
        calls
    );
    // the fault-free run must itself be sound (and it shows the container from inside every invocation)
    if let Err(e) = dry_res {
        sc.fail(format!("{} - the same call WITHOUT a fault panicked: {}", what, e));
        return;
    }
    for e in dry.errs.borrow().iter() {
        sc.fail(format!("{} [fault-free run of {}]", e, what));
    }
    if !sc.errs.is_empty() {
        return;
    }
    let cx = mk_ctx(panic_at);
    let m = &mut w.m;
    let outcome = catch(|| run(m, &cx));
    if let Some((p, occ)) = cx.fired.get() {
        sc.stat(if occ { "fault.container.callback_failed_on_occupied_slot" } else { "fault.container.callback_failed_on_empty_slot" });
        let _ = p;
    }
    sc.stat("fault.container.callbacks_inspecting_from_inside");
    if cx.edits.get() > 0 {
        sc.stat("fault.container.edits_before_the_fault");
    }
    for e in cx.errs.borrow().iter() {
        sc.fail(format!("{} [{}]", e, what));
    }
    // a callback that fails leaves the container as the completed invocations left it
    let now = scan(&w.m);
    if let Some(q) = same_prefix(&now, &cx.expect.borrow()) {
        sc.fail(format!(
            "C11 after {}: get_pth({}) = {:?} but the edits requested by the completed invocations leave {:?} there",
            what,
            q,
            now.get(q).cloned().flatten(),
            cx.expect.borrow().get(q).cloned().flatten()
        ));
    }
    if !sc.errs.is_empty() {
        return;
    }
    let a = raw_after(format!("fault.container.{}.callback", entry), &mdl);
    aftermath(sc, r, &mut w, &a, &what, outcome, len);
}

/// a trait-level diagonal sweep (Metropolis / heat bath) whose Hamiltonian, generator or temperature fails part-way
fn sc_container_sweep(r: &mut SplitMix64, sc: &mut Sc) {
    sc.tok("container");
    let heat = r.chance(1, 3);
    let entry = if heat { "make_heatbath_diagonal_update_with_rng_and_state_ref" } else { "make_diagonal_update_with_rng_and_state_ref" };
    sc.tok(entry);
    let kind = r.below(5);
    let class = match kind {
        0 | 1 => "hamiltonian",
        2 | 3 => "rng",
        _ => "beta",
    };
    sc.tok(class);
    let (mdl, mut w) = gen_raw(r, sc);
    if !sc.res("container before the fault", raw_oracle(&w, &mdl)) {
        return;
    }
    let s0 = w.state.clone();
    let beta_w = gen_beta(r);
    let bad = gen_bad_beta(r);
    let beta = if class == "beta" { bad } else { beta_w };
    let cutoff = w.m.get_cutoff();
    let bw = FastOps::make_bond_weights(|_v: &[usize], b: usize, i: &[bool], o: &[bool]| mdl.weight(b, i, o), mdl.nbonds(), |b| mdl.edge_ref(b).0);
    let sweep = |m: &mut FastOps, state: &mut Vec<bool>, rng: &mut FRng| {
        let ham = IsingHam { m: &mdl, fused: true };
        if heat {
            m.make_heatbath_diagonal_update_with_rng_and_state_ref(cutoff, beta, state, &ham, &bw, rng);
        } else {
            m.make_diagonal_update_with_rng_and_state_ref(cutoff, beta, state, &ham, rng);
        }
    };
    // count on a copy
    let (mut tm, mut ts, mut tr) = (w.m.clone(), w.state.clone(), w.rng.clone());
    disarm();
    let (e0, d0) = (evals(), draws());
    let _ = catch(|| sweep(&mut tm, &mut ts, &mut tr));
    let (ne, nd) = (evals() - e0, draws() - d0);
    let what = match class {
        "hamiltonian" if ne > 0 => {
            let k = r.below(ne);
            arm(&HAM_FUSE, Some(k));
            format!("{}(beta = {}) whose Hamiltonian fails at evaluation {} of {}", entry, rat(beta), k, ne)
        }
        "rng" if nd > 0 => {
            let k = r.below(nd);
            arm(&RNG_FUSE, Some(k));
            format!("{}(beta = {}) whose rng fails at draw {} of {}", entry, rat(beta), k, nd)
        }
        "beta" => format!("{}(beta = {})", entry, beta_token(beta)),
        _ => format!("{}(beta = {}) (nothing to fail)", entry, rat(beta)),
    };
    sc.tok(format!("cutoff={},beta={},evals={},draws={}", cutoff, beta_token(beta), ne, nd));
    sc.tok(what.clone());
    let outcome = {
        let Raw { m, state, rng } = &mut w;
        catch(|| sweep(m, state, rng))
    };
    disarm();
    if outcome.is_err() {
        // the interrupted sweep leaves the state it had propagated to; the string itself still belongs to the p = 0 state
        let states = propagate(&scan(&w.m), &s0);
        match states {
            Ok(states) => {
                if !states.contains(&w.state) {
                    sc.fail(format!("C06 after {}: the state buffer {} is no propagated state of the string", what, bits(&w.state)));
                }
            }
            Err(p) => sc.fail(format!("C06 after {}: the p = 0 state no longer meets the op at p={}", what, p)),
        }
        w.state = s0.clone();
        if !sc.errs.is_empty() {
            return;
        }
    } else {
        let n = w.m.get_n();
        w.m.set_cutoff(max(cutoff, n + n / 2 + 1));
    }
    let a = raw_after(format!("fault.container.{}.{}", if heat { "heatbath_sweep" } else { "diagonal_sweep" }, if class == "beta" { beta_class(beta) } else { class }), &mdl);
    aftermath(sc, r, &mut w, &a, &what, outcome, cutoff);
}
fn sc_container(r: &mut SplitMix64, sc: &mut Sc) {
    if r.chance(2, 3) {
        sc_container_callback(r, sc)
    } else {
        sc_container_sweep(r, sc)
    }
}

// ------------------------------------------------------------------------------------------------------------------
// mode tempering: a container step in which one replica's step (or the exchange itself) fails
// ------------------------------------------------------------------------------------------------------------------
fn replicas_check(sc: &mut Sc, tc: &TC, mdl: &IsingModel, ctx: &str, may_be_dead: bool) -> Option<Vec<bool>> {
    let mut alive = vec![];
    for (i, (g, _)) in tc.graph_ref().iter().enumerate() {
        match probe(g) {
            Err(e) => {
                if !may_be_dead {
                    sc.fail(format!("replica {} is unusable although nothing failed: {} [{}]", i, e, ctx));
                    return None;
                }
                alive.push(false);
            }
            Ok(()) => {
                if !sc.res(&format!("replica {} {}", i, ctx), check_sampler(g, mdl)) {
                    return None;
                }
                alive.push(true);
            }
        }
    }
    Some(alive)
}
fn sc_tempering(r: &mut SplitMix64, sc: &mut Sc) {
    sc.tok("tempering");
    let variant = r.below(4);
    let (entry, class) = match variant {
        0 => ("timesteps", "replica_beta"),
        1 => ("timesteps", "rng"),
        2 => ("tempering_step", "rng"),
        _ => ("timesteps_sample", "rng"),
    };
    sc.tok(entry);
    sc.tok(class);
    let mdl = gen_ising(r, None);
    let nrep = r.range(2, 4) as usize;
    let mut betas: Vec<f64> = (0..nrep).map(|_| gen_beta(r)).collect();
    let bad = gen_bad_beta(r);
    let victim = r.below(nrep as u64) as usize;
    let seed = r.next();
    let mut tc = TC::new(FRng(SplitMix64::new(seed)));
    let mut desc = vec![];
    for i in 0..nrep {
        let cutoff = r.range(1, 10) as usize;
        let st = gen_state(r, mdl.nvars);
        let s = r.next();
        let mut g = build_ising(&mdl, cutoff, Some(st.clone()), s);
        let (rvb, hb) = (r.chance(1, 4), r.chance(1, 4));
        g.set_run_rvb(rvb);
        g.set_enable_heatbath(hb);
        // history of its own before it joins
        for _ in 0..r.range(0, 6) {
            g.timestep(betas[i]);
        }
        let b = if variant == 0 && i == victim { bad } else { betas[i] };
        desc.push(format!("{}:{}:{}:{}{}:{}", cutoff, bits(&st), s, rvb as u8, hb as u8, beta_token(b)));
        if let Err(e) = tc.add_qmc_stepper(g, b) {
            sc.fail(format!("replica {} of the same model refused: {}", i, e));
            return;
        }
    }
    sc.tok(mdl.token());
    sc.tok(format!("seed={},replicas={}", seed, desc.join("/")));
    if variant != 0 {
        for _ in 0..r.range(1, 4) {
            tc.timesteps(1);
            tc.tempering_step();
        }
    }
    if replicas_check(sc, &tc, &mdl, "before the fault", false).is_none() {
        return;
    }
    let (swap_f, samp_f, tsteps) = (r.range(1, 3) as usize, r.range(1, 3) as usize, r.range(2, 6) as usize);
    let call = |tc: &mut TC| match variant {
        0 | 1 => tc.timesteps(1),
        2 => tc.tempering_step(),
        _ => {
            tc.timesteps_sample(tsteps, swap_f, samp_f);
        }
    };
    let what = if variant == 0 {
        format!("TemperingContainer::timesteps(1) with beta = {} on replica {}", beta_token(bad), victim)
    } else {
        let mut twin = tc.clone();
        let d = count_draws(move || call(&mut twin));
        if d == 0 {
            format!("TemperingContainer::{} (no draw to fail)", entry)
        } else {
            let k = r.below(d);
            arm(&RNG_FUSE, Some(k));
            format!("TemperingContainer::{} whose rngs fail at draw {} of {}", entry, k, d)
        }
    };
    sc.tok(what.clone());
    let cutoffs_before: Vec<usize> = tc.graph_ref().iter().map(|(g, _)| g.get_cutoff()).collect();
    let outcome = catch(|| call(&mut tc));
    disarm();
    let panicked = outcome.is_err();
    if panicked {
        sc.nt = true;
    }
    let key = format!("fault.tempering.{}.{}", entry, if variant == 0 { beta_class(bad) } else { class });
    let ctx = match &outcome {
        Err(e) => format!("after {} - caught panic: {}", what, clip(e).chars().take(120).collect::<String>()),
        Ok(()) => format!("after {}", what),
    };
    let alive = match replicas_check(sc, &tc, &mdl, &ctx, panicked) {
        Some(a) => a,
        None => return,
    };
    let dead = alive.iter().filter(|a| !**a).count();
    sc.stat(&format!("{}.{}", key, if !panicked { "returned" } else if dead > 0 { "replica_unusable" } else { "all_replicas_survived" }));
    if dead > 0 {
        sc.stat("fault.unusable");
    } else if panicked {
        sc.stat("fault.survived");
    } else {
        sc.stat("fault.returned");
    }
    for (i, (g, _)) in tc.graph_ref().iter().enumerate() {
        if alive[i] && g.get_cutoff() < cutoffs_before[i] {
            sc.fail(format!("C12 cutoff of replica {} shrank from {} to {} [{}]", i, cutoffs_before[i], g.get_cutoff(), ctx));
            return;
        }
    }
    if variant == 0 {
        betas[victim] = gen_beta(r);
    }
    // continued use: the surviving replicas one by one, and the container-level calls that do not need what was lost
    for round in 0..FOLLOW_UP {
        for i in 0..nrep {
            if !alive[i] {
                continue;
            }
            let c = gen_icall(r);
            let b = betas[i];
            let before = tc.graph_ref()[i].0.get_cutoff();
            let res = catch(|| icall(&mut tc.graph_mut()[i].0, c, b));
            match res {
                Err(e) if panicked && pool_exhausted(&e) => {
                    sc.stat(&format!("{}.pool_exhausted_later", key));
                    sc.stat("fault.pool_exhausted_later");
                    return;
                }
                Err(e) => {
                    sc.fail(format!("valid step {:?} of replica {} (round {}) {} panicked: {}", c, i, round, ctx, e));
                    return;
                }
                Ok(full) => {
                    let g = &tc.graph_ref()[i].0;
                    if let Err(e) = probe(g) {
                        sc.fail(format!("valid step {:?} of replica {} (round {}) {} left it unusable: {}", c, i, round, ctx, e));
                        return;
                    }
                    if !sc.res(&format!("valid step {:?} of replica {} (round {}) {}", c, i, round, ctx), check_sampler(g, &mdl)) {
                        return;
                    }
                    if g.get_cutoff() < before {
                        sc.fail(format!("C12 cutoff of replica {} shrank from {} to {} [round {} {}]", i, before, g.get_cutoff(), round, ctx));
                        return;
                    }
                    if full && !sc.res(&format!("valid step {:?} of replica {} (round {}) {}", c, i, round, ctx), cutoff_rule(g.get_cutoff(), g.get_n())) {
                        return;
                    }
                }
            }
        }
        if dead == 0 && variant != 0 && round % 5 == 4 {
            // `timesteps` needs no container rng; `tempering_step` does and may have lost it: whatever it does, it must not
            // leave a replica inconsistent
            let r1 = catch(|| tc.timesteps(1));
            match r1 {
                Err(e) if panicked && pool_exhausted(&e) => {
                    sc.stat("fault.pool_exhausted_later");
                    return;
                }
                Err(e) => {
                    sc.fail(format!("TemperingContainer::timesteps(1) (round {}) {} panicked: {}", round, ctx, e));
                    return;
                }
                Ok(()) => {}
            }
            if replicas_check(sc, &tc, &mdl, &format!("after container timesteps(1) (round {}) {}", round, ctx), false).is_none() {
                return;
            }
            let r2 = catch(|| tc.tempering_step());
            if r2.is_err() {
                sc.stat(&format!("{}.exchange_unusable_later", key));
                if !panicked {
                    sc.fail(format!("TemperingContainer::tempering_step (round {}) {} panicked: {}", round, ctx, r2.unwrap_err()));
                    return;
                }
            }
            if replicas_check(sc, &tc, &mdl, &format!("after container tempering_step (round {}) {}", round, ctx), false).is_none() {
                return;
            }
        }
    }
    sc.stat("fault.continued_ok");
}

// ------------------------------------------------------------------------------------------------------------------
// driver: one thread per scenario, panic guard around it
// ------------------------------------------------------------------------------------------------------------------
fn run_scenario(name: &str, k: usize, seed: u64, f: fn(&mut SplitMix64, &mut Sc), totals: &mut BTreeMap<String, u64>, counts: &mut (u64, u64)) {
    let label = format!("{} scenario {}", name, k);
    let handle = std::thread::Builder::new()
        .name(label.clone())
        .stack_size(32 << 20)
        .spawn(move || {
            let mut r = SplitMix64::new(seed);
            let mut sc = Sc::new();
            if let Err(e) = catch(|| f(&mut r, &mut sc)) {
                disarm();
                sc.fail(format!("the library panicked outside an individually guarded call: {}", e));
            }
            sc
        })
        .expect("spawn");
    let sc = match handle.join() {
        Ok(sc) => sc,
        Err(_) => {
            let mut sc = Sc::new();
            sc.tok(name);
            sc.tok("scenario");
            sc.tok(k);
            sc.fail("the scenario thread died".into());
            sc
        }
    };
    for (key, v) in sc.stats.iter() {
        *totals.entry(key.clone()).or_insert(0) += v;
    }
    counts.0 += 1;
    let res = if sc.errs.is_empty() {
        Ok(())
    } else {
        counts.1 += 1;
        Err(sc.errs.join("; "))
    };
    let mut input = sc.input.join(" ");
    if input.is_empty() {
        input = label.replace(' ', "_");
    }
    emit(sc.nt, &format!("{} #{}", input.replace('|', "/"), k), "ok", Some(res));
}

fn main() {
    quiet_panics();
    let a = args();
    // (mode, scenario, scenarios in the quick tier, in the thorough tier)
    let table: Vec<(&str, fn(&mut SplitMix64, &mut Sc), usize, usize)> = vec![
        ("ising", sc_ising, 400, 4000),
        ("generic", sc_generic, 300, 3000),
        ("container", sc_container, 500, 5000),
        ("tempering", sc_tempering, 80, 800),
    ];
    let mut totals = BTreeMap::new();
    let mut counts = (0u64, 0u64);
    let mut known = false;
    for (name, f, quick, thorough) in table.iter() {
        if a.mode != "all" && a.mode != *name {
            continue;
        }
        known = true;
        let tag = name.bytes().fold(0u64, |h, b| h.wrapping_mul(131).wrapping_add(b as u64));
        let mut seeds = SplitMix64::new(SplitMix64::new(a.seed.wrapping_mul(0x2545_F491_4F6C_DD1D) ^ tag.wrapping_mul(0x9E6C_63D0_676A_9A99)).next());
        let reps = if a.thorough { *thorough } else { *quick };
        for k in 0..reps {
            run_scenario(name, k, seeds.next(), *f, &mut totals, &mut counts);
        }
    }
    if !known {
        eprintln!("unknown mode {}", a.mode);
        std::process::exit(2);
    }
    for (k, v) in totals.iter() {
        stat(k, v);
    }
    stat("cases", counts.0);
    stat("oracle_fail", counts.1);
}
