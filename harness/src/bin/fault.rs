//! fault — FAULT-INJECTION harness (model-free supporting oracle, like `apicov` / `kern`).
//!
//! A public update call is made to fail PART-WAY (it panics under `catch_unwind`), the caller keeps the object and goes on
//! using it. Fault points:
//!   * an illegal temperature: beta in {NaN, -1, -1/2, +inf} (`gen_bool` panics at the first acceptance test that sees it;
//!     +inf only on a zero-weight bond), next to the legal extremes beta = 0 and beta = 2^40 which must NOT panic;
//!   * the user's random number generator (`FRng`, a SplitMix64 with a fuse) panics on its k-th draw inside the call, k uniform
//!     over the draws the same call makes on a clone — this reaches every update (cluster, RVB, loop, free spins, exchange);
//!   * a user `Hamiltonian` that panics on its k-th evaluation inside `make_diagonal_update_with_rng_and_state_ref` /
//!     `make_heatbath_diagonal_update_with_rng_and_state_ref`;
//!   * a user callback of `mutate_p` / `mutate_ps` / `mutate_ops` / `mutate_subsection` / `mutate_subsection_ops` that panics on
//!     its k-th invocation (occupied and empty slots).
//! After every caught panic the object is probed: if its basic accessors panic it is UNUSABLE (on the unchanged tree the samplers
//! `take()` state / manager / rng for the duration of an update, so nothing inconsistent can be observed afterwards) — a STAT, no
//! failure. Otherwise the oracles of the property statements must hold (each message starts with the property that supplies it):
//! C06 world lines (own propagation + `verify`), C07 legality (own matrix-element formula), C11 getters = scan, C12 cutoff; then
//! the object is used for 20 further valid steps with the same oracles after each one. Mutation callbacks additionally inspect the
//! container FROM INSIDE (C11 "at every moment"): the op handed over, `get_pth` of every slot against the contents requested so
//! far, and every navigation getter against the scan.
//!
//! Modes: `ising`, `generic`, `container`, `tempering`, `all`. Every scenario runs on its own thread inside a panic guard; one
//! line per scenario `CASE nt | <mode> <label> <inputs…> | ok | ok/FAIL:<why>` (nt = a panic was caught); `STAT fault.*` lines
//! classify the outcomes. Deterministic in `--seed`; wall-clock never decides.

#![allow(clippy::too_many_arguments, clippy::type_complexity)]

use qmc::sse::fast_ops::*;
use qmc::sse::*;
use rand::{Error, RngCore};
use std::cell::{Cell, RefCell};
use std::cmp::max;
use std::collections::BTreeMap;
use vh::*;

type GI = QmcIsingGraph<FRng, FastOps>;
type GQ = Qmc<FRng, FastOps>;
type TC = TemperingContainer<FRng, GI>;

const EPS: f64 = std::f64::EPSILON;
const FOLLOW_UP: usize = 20;

// ------------------------------------------------------------------------------------------------------------------
// fuses (thread local: every scenario has its own thread) and the fused generator
// ------------------------------------------------------------------------------------------------------------------
thread_local! {
    static RNG_FUSE: Cell<Option<u64>> = Cell::new(None);
    static RNG_DRAWS: Cell<u64> = Cell::new(0);
    static HAM_FUSE: Cell<Option<u64>> = Cell::new(None);
    static HAM_EVALS: Cell<u64> = Cell::new(0);
}
fn tick(fuse: &'static std::thread::LocalKey<Cell<Option<u64>>>, count: &'static std::thread::LocalKey<Cell<u64>>, what: &str) {
    count.with(|c| c.set(c.get() + 1));
    let blow = fuse.with(|f| match f.get() {
        Some(0) => {
            f.set(None);
            true
        }
        Some(k) => {
            f.set(Some(k - 1));
            false
        }
        None => false,
    });
    if blow {
        panic!("injected fault: {}", what);
    }
}
fn arm(fuse: &'static std::thread::LocalKey<Cell<Option<u64>>>, k: Option<u64>) {
    fuse.with(|f| f.set(k));
}
fn disarm() {
    arm(&RNG_FUSE, None);
    arm(&HAM_FUSE, None);
}
fn draws() -> u64 {
    RNG_DRAWS.with(|c| c.get())
}
fn evals() -> u64 {
    HAM_EVALS.with(|c| c.get())
}

/// SplitMix64 (same words as `vh::SplitMix64`) whose k-th draw panics when the thread's fuse is armed
#[derive(Clone, Debug)]
struct FRng(SplitMix64);
impl RngCore for FRng {
    fn next_u32(&mut self) -> u32 {
        tick(&RNG_FUSE, &RNG_DRAWS, "the random number generator failed");
        (self.0.next() >> 32) as u32
    }
    fn next_u64(&mut self) -> u64 {
        tick(&RNG_FUSE, &RNG_DRAWS, "the random number generator failed");
        self.0.next()
    }
    fn fill_bytes(&mut self, dest: &mut [u8]) {
        for chunk in dest.chunks_mut(8) {
            let w = self.next_u64().to_le_bytes();
            chunk.copy_from_slice(&w[..chunk.len()]);
        }
    }
    fn try_fill_bytes(&mut self, dest: &mut [u8]) -> Result<(), Error> {
        self.fill_bytes(dest);
        Ok(())
    }
}

// ------------------------------------------------------------------------------------------------------------------
// scenario bookkeeping
// ------------------------------------------------------------------------------------------------------------------
struct Sc {
    input: Vec<String>,
    errs: Vec<String>,
    stats: BTreeMap<String, u64>,
    nt: bool,
}
impl Sc {
    fn new() -> Self {
        Sc { input: vec![], errs: vec![], stats: BTreeMap::new(), nt: false }
    }
    fn tok(&mut self, s: impl std::fmt::Display) {
        self.input.push(s.to_string().replace(' ', "_"));
    }
    fn stat(&mut self, k: &str) {
        *self.stats.entry(k.to_string()).or_insert(0) += 1;
    }
    fn fail(&mut self, msg: String) {
        if self.errs.len() < 4 {
            self.errs.push(clip(&msg));
        }
    }
    /// true = ok
    fn res(&mut self, ctx: &str, r: Result<(), String>) -> bool {
        match r {
            Ok(()) => true,
            Err(e) => {
                // the property id stays in front
                self.fail(format!("{} [{}]", e, ctx));
                false
            }
        }
    }
}
fn clip(s: &str) -> String {
    if s.len() > 400 {
        let mut k = 400;
        while !s.is_char_boundary(k) {
            k -= 1;
        }
        format!("{}…", &s[..k])
    } else {
        s.to_string()
    }
}
fn pool_exhausted(msg: &str) -> bool {
    msg.contains("Out of instances")
}

// ------------------------------------------------------------------------------------------------------------------
// scan of a container (definition side of every "getter = scan" oracle)
// ------------------------------------------------------------------------------------------------------------------
#[derive(Clone, Debug, PartialEq, Eq)]
struct SOp {
    p: usize,
    bond: usize,
    vars: Vec<usize>,
    ins: Vec<bool>,
    outs: Vec<bool>,
    diag: bool,
    constant: bool,
}
fn sop<O: Op>(p: usize, op: &O) -> SOp {
    SOp {
        p,
        bond: op.get_bond(),
        vars: op.get_vars().to_vec(),
        ins: op.get_inputs().to_vec(),
        outs: op.get_outputs().to_vec(),
        diag: op.is_diagonal(),
        constant: op.is_constant(),
    }
}
fn scan<M: OpContainer>(m: &M) -> Vec<Option<SOp>> {
    (0..m.get_cutoff()).map(|p| m.get_pth(p).map(|op| sop(p, op))).collect()
}
fn occupied(s: &[Option<SOp>]) -> Vec<usize> {
    s.iter().enumerate().filter(|(_, o)| o.is_some()).map(|(p, _)| p).collect()
}
/// states entering every slot (+ the final one), by plain propagation of `state`; Err(p) if the op at p does not meet its inputs
fn propagate(s: &[Option<SOp>], state: &[bool]) -> Result<Vec<Vec<bool>>, usize> {
    let mut st = state.to_vec();
    let mut out = Vec::with_capacity(s.len() + 1);
    for (p, o) in s.iter().enumerate() {
        out.push(st.clone());
        if let Some(op) = o {
            for (k, v) in op.vars.iter().enumerate() {
                if *v >= st.len() || k >= op.ins.len() || st[*v] != op.ins[k] {
                    return Err(p);
                }
            }
            for (k, v) in op.vars.iter().enumerate() {
                st[*v] = op.outs[k];
            }
        }
    }
    out.push(st);
    Ok(out)
}

// ------------------------------------------------------------------------------------------------------------------
// the Hamiltonians as the HARNESS states them (own matrix-element formulas, own bond layout)
// ------------------------------------------------------------------------------------------------------------------
trait Model {
    fn nbonds(&self) -> usize;
    fn edge(&self, b: usize) -> (Vec<usize>, bool);
    fn weight(&self, b: usize, ins: &[bool], outs: &[bool]) -> f64;
}

/// transverse-field Ising model: bonds 0..ne two-site couplings (not constant), ne..ne+n transverse (constant),
/// ne+n..ne+2n longitudinal (only if |h| > EPSILON)
#[derive(Clone, Debug)]
struct IsingModel {
    nvars: usize,
    pairs: Vec<((usize, usize), f64)>,
    edges: Vec<Vec<usize>>,
    gamma: f64,
    h: f64,
    vars: Vec<usize>,
}
impl IsingModel {
    fn new(nvars: usize, pairs: Vec<((usize, usize), f64)>, gamma: f64, h: f64) -> Self {
        let edges = pairs.iter().map(|((a, b), _)| vec![*a, *b]).collect();
        IsingModel { nvars, pairs, edges, gamma, h, vars: (0..nvars).collect() }
    }
    fn ne(&self) -> usize {
        self.pairs.len()
    }
    fn edge_ref(&self, b: usize) -> (&[usize], bool) {
        let (ne, n) = (self.ne(), self.nvars);
        if b < ne {
            (&self.edges[b], false)
        } else if b < ne + n {
            (&self.vars[b - ne..b - ne + 1], true)
        } else {
            (&self.vars[b - ne - n..b - ne - n + 1], false)
        }
    }
    fn token(&self) -> String {
        let e: Vec<String> = self.pairs.iter().map(|((a, b), j)| format!("{},{},{}", a, b, rat(*j))).collect();
        format!("I!{}!{}!{}!{}", self.nvars, e.join(";"), rat(self.gamma), rat(self.h))
    }
}
impl Model for IsingModel {
    fn nbonds(&self) -> usize {
        self.ne() + self.nvars + if self.h.abs() > EPS { self.nvars } else { 0 }
    }
    fn edge(&self, b: usize) -> (Vec<usize>, bool) {
        let (v, c) = self.edge_ref(b);
        (v.to_vec(), c)
    }
    /// -H_b + the smallest shift that makes the diagonal non-negative
    fn weight(&self, b: usize, ins: &[bool], outs: &[bool]) -> f64 {
        let (ne, n) = (self.ne(), self.nvars);
        if b < ne {
            let j = self.pairs[b].1;
            if ins != outs {
                0.0
            } else if ins[0] == ins[1] {
                j.abs() - j
            } else {
                j.abs() + j
            }
        } else if b < ne + n {
            self.gamma
        } else if ins != outs {
            0.0
        } else if ins[0] {
            self.h.abs() + self.h
        } else {
            self.h.abs() - self.h
        }
    }
}
/// the model handed to the TRAIT-LEVEL update functions; `fused`: the k-th evaluation panics when the thread's fuse is armed
#[derive(Clone, Copy)]
struct IsingHam<'a> {
    m: &'a IsingModel,
    fused: bool,
}
impl<'a> Hamiltonian<'a> for IsingHam<'a> {
    fn hamiltonian(&self, _vars: &[usize], bond: usize, inputs: &[bool], outputs: &[bool]) -> f64 {
        if self.fused {
            tick(&HAM_FUSE, &HAM_EVALS, "the Hamiltonian cannot evaluate this matrix element");
        }
        self.m.weight(bond, inputs, outputs)
    }
    fn edge_fn(&self, b: usize) -> (&'a [usize], bool) {
        let m: &'a IsingModel = self.m;
        m.edge_ref(b)
    }
    fn num_bonds(&self) -> usize {
        self.m.nbonds()
    }
}

/// one interaction of the generic sampler, as data
#[derive(Clone, Debug)]
struct Term {
    /// 0 make_interaction, 1 make_interaction_and_offset, 2 make_diagonal_interaction, 3 make_diagonal_interaction_and_offset
    ctor: u8,
    mat: Vec<f64>,
    vars: Vec<usize>,
}
#[derive(Clone, Debug)]
struct GenModel {
    nvars: usize,
    terms: Vec<Term>,
}
impl GenModel {
    fn token(&self) -> String {
        let parts: Vec<String> = self.terms.iter().map(|t| format!("{}:{}:{}", t.ctor, list(&t.vars), rats(&t.mat))).collect();
        format!("T{}!{}", self.nvars, parts.join("!"))
    }
    /// the matrix the sampler must use: the user's matrix, diagonal shifted by its minimum for the `_and_offset` constructors
    fn entry(t: &Term, ins: &[bool], outs: &[bool]) -> f64 {
        let k = t.vars.len();
        let tn = 1usize << k;
        match t.ctor {
            0 => t.mat[bit_index(outs.iter().chain(ins.iter()))],
            1 => {
                let min_diag = (0..tn).map(|i| t.mat[(1 + tn) * i]).fold(f64::MAX, f64::min);
                let x = t.mat[bit_index(outs.iter().chain(ins.iter()))];
                if ins == outs {
                    x - min_diag
                } else {
                    x
                }
            }
            2 => {
                if ins == outs {
                    t.mat[bit_index(ins.iter())]
                } else {
                    0.0
                }
            }
            _ => {
                let min = t.mat.iter().cloned().fold(f64::MAX, f64::min);
                if ins == outs {
                    t.mat[bit_index(ins.iter())] - min
                } else {
                    0.0
                }
            }
        }
    }
}
fn patterns(n: usize) -> Vec<Vec<bool>> {
    (0..(1usize << n)).map(|i| (0..n).map(|b| (i >> (n - 1 - b)) & 1 == 1).collect()).collect()
}
impl Model for GenModel {
    fn nbonds(&self) -> usize {
        self.terms.len()
    }
    fn edge(&self, b: usize) -> (Vec<usize>, bool) {
        let t = &self.terms[b];
        // constant = a FULL matrix whose entries are all equal (recomputed from the matrix)
        let constant = t.ctor <= 1 && {
            let pats = patterns(t.vars.len());
            let first = GenModel::entry(t, &pats[0], &pats[0]);
            pats.iter().all(|o| pats.iter().all(|i| GenModel::entry(t, i, o) == first))
        };
        (t.vars.clone(), constant)
    }
    fn weight(&self, b: usize, ins: &[bool], outs: &[bool]) -> f64 {
        GenModel::entry(&self.terms[b], ins, outs)
    }
}

// @@NEXT@@
