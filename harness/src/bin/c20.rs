//! C20 — autocorrelation helpers on scripted steppers.
//!
//! Modes (all run by default):
//!   custom : `QmcAutoCorrelations::calculate_autocorrelation` with a table-lookup mapper, and
//!            `QmcBondAutoCorrelations::calculate_bond_autocorrelation` (the mapper is `value_for_bond`);
//!            order-one columns and columns `±2^k + small dyadic`, k in {10,14,17,20} (shift invariance:
//!            the mean is far larger than the fluctuations) and columns scaled by 2^-60 / 2^-100 (scale
//!            invariance: non-constant observables whose norm is far below f64::EPSILON)
//!   vars   : `calculate_variable_autocorrelation` on a prescribed state sequence
//!   prod   : `calculate_spin_product_autocorrelation`
//!   temper : `ParallelTemperingAutocorrelations::calculate_autocorrelation` and
//!            `ParallelTemperingBondAutoCorrelations::calculate_bond_autocorrelation` on mock replicas
//!            (half of the cases with offset columns)
//!   real   : `calculate_variable_autocorrelation` on a real `QmcIsingGraph` against a single-stepped clone
//!   genbond: `calculate_bond_autocorrelation` (and the tempering bond helper) on real generic `Qmc` samplers with
//!            1..4-variable interactions registered as full matrices (with/without offset) or diagonal tables whose
//!            diagonals differ only in late rows / only in early rows / nowhere: the observables must be exactly the
//!            registered interactions with a non-constant diagonal (judged here from all 2^n entries)
//!   isingbond: `calculate_bond_autocorrelation` (and the tempering bond helper) on real `QmcIsingGraph` samplers on
//!            3..5-site rings / stars / chains / random graphs (both edge orientations, mixed-sign J, an edge on the
//!            two last variables, duplicate edges); observable of edge (a,b,J) = +1 iff satisfied, from s[a], s[b], sign J
//!   edge   : excluded inputs run once (no sample, constant column, zero observables)
//! Oracle: the documented formula (mean removed, unit norm, circular, averaged over observables) evaluated
//! directly in f64 with an O(T^2) double loop on the samples of the documented cadence.

use qmc::sse::*;
use std::sync::{Arc, Mutex};
use vh::*;

const AGE_BITS: usize = 12;
const GID_BITS: usize = 4;

fn enc_age(gid: usize, age: usize) -> Vec<bool> {
    let mut v = vec![];
    for b in (0..GID_BITS).rev() {
        v.push((gid >> b) & 1 == 1);
    }
    for b in (0..AGE_BITS).rev() {
        v.push((age >> b) & 1 == 1);
    }
    v
}
fn dec_age(s: &[bool]) -> (usize, usize) {
    let f = |bs: &[bool]| bs.iter().fold(0usize, |a, b| a * 2 + (*b as usize));
    (f(&s[..GID_BITS]), f(&s[GID_BITS..]))
}

/// A stepper that walks through a prescribed state sequence: the state after step k is
/// `states[(k-1) % len]`; with `states` empty the state encodes the step number.
struct Script {
    states: Vec<Vec<bool>>,
    obs: Vec<Vec<f64>>,
    age: usize,
    cur: Vec<bool>,
}
impl Script {
    fn new(states: Vec<Vec<bool>>, obs: Vec<Vec<f64>>) -> Self {
        let cur = if states.is_empty() { enc_age(0, 0) } else { vec![false; states[0].len()] };
        Script { states, obs, age: 0, cur }
    }
    fn state_at(&self, age: usize) -> Vec<bool> {
        if self.states.is_empty() {
            enc_age(0, age)
        } else {
            self.states[(age - 1) % self.states.len()].clone()
        }
    }
}
impl QmcStepper for Script {
    fn timestep(&mut self, _beta: f64) -> &[bool] {
        self.age += 1;
        self.cur = self.state_at(self.age);
        &self.cur
    }
    fn get_n(&self) -> usize {
        self.age % 7
    }
    fn get_energy_for_average_n(&self, average_n: f64, beta: f64) -> f64 {
        -(average_n / beta)
    }
    fn state_ref(&self) -> &[bool] {
        &self.cur
    }
    fn get_bond_count(&self, _bond: usize) -> usize {
        0
    }
    fn imaginary_time_fold<F, T>(&self, _fold_fn: F, init: T) -> T
    where
        F: Fn(T, &[bool]) -> T,
    {
        init
    }
}

/// the bond helper's "mapper" is `value_for_bond`: observable `bond` of the table row of the sampled step
impl QmcBondAutoCorrelations for Script {
    fn n_bonds(&self) -> usize {
        self.obs[0].len()
    }
    fn value_for_bond(&self, bond: usize, sample: &[bool]) -> f64 {
        let (_, age) = dec_age(sample);
        self.obs[(age - 1) % self.obs.len()][bond]
    }
}

fn fl(x: f64) -> String {
    if x.is_nan() {
        "nan".into()
    } else {
        format!("~{:e}", x)
    }
}

fn show_out(r: &[f64]) -> String {
    let mut v = vec![r.len().to_string()];
    v.extend(r.iter().map(|x| fl(*x)));
    v.join(" ")
}

/// documented formula, directly: None if some column is constant / nothing to average
fn direct(samples: &[Vec<f64>]) -> Option<Vec<f64>> {
    let t = samples.len();
    if t == 0 {
        return None;
    }
    let n = samples[0].len();
    if n == 0 {
        return None;
    }
    let mut out = vec![0.0; t];
    for i in 0..n {
        let mut col: Vec<f64> = samples.iter().map(|r| r[i]).collect();
        if col.iter().all(|x| *x == col[0]) {
            return None;
        }
        // the documented quantity is scale invariant: bring the column to order one by an exact power-of-two
        // rescaling first, so that the evaluation below never works with tiny squares
        let big = col.iter().fold(0.0f64, |a, x| a.max(x.abs()));
        let e = big.log2().floor() as i32;
        if e < -8 {
            let sc = 2f64.powi(-e);
            col.iter_mut().for_each(|x| *x *= sc);
        }
        let mean = col.iter().sum::<f64>() / t as f64;
        let y: Vec<f64> = col.iter().map(|x| x - mean).collect();
        let norm2: f64 = y.iter().map(|v| v * v).sum();
        for lag in 0..t {
            let mut acc = 0.0;
            for s in 0..t {
                acc += y[s] * y[(s + lag) % t];
            }
            out[lag] += acc / norm2;
        }
    }
    out.iter_mut().for_each(|x| *x /= n as f64);
    Some(out)
}

fn judge(got: &[f64], want_samples: &[Vec<f64>]) -> Option<Result<(), String>> {
    let doc = direct(want_samples)?;
    if got.len() != doc.len() {
        return Some(Err(format!("{} entries for {} recorded samples", got.len(), doc.len())));
    }
    for (t, (a, b)) in got.iter().zip(doc.iter()).enumerate() {
        if !((a - b).abs() <= 1e-9) {
            return Some(Err(format!("lag {}: returned {} but the documented normalised autocorrelation is {}", t, a, b)));
        }
    }
    if !((got[0] - 1.0).abs() <= 1e-9) {
        return Some(Err(format!("lag 0 is {} instead of 1", got[0])));
    }
    Some(Ok(()))
}

fn ftok(f: Option<usize>) -> String {
    f.map(|x| x.to_string()).unwrap_or("none".into())
}

fn sample_ages(t: usize, f: Option<usize>) -> Vec<usize> {
    let f = f.unwrap_or(1);
    (1..=t / f).map(|k| k * f).collect()
}

fn show_table(tab: &[Vec<f64>]) -> String {
    tab.iter().map(|r| if r.is_empty() { "-".to_string() } else { rats(r) }).collect::<Vec<_>>().join(";")
}

fn run_custom(t: usize, f: Option<usize>, table: &[Vec<f64>]) {
    run_table(false, t, f, table)
}

/// `bond = false`: `calculate_autocorrelation` with a closure mapper; `bond = true`:
/// `calculate_bond_autocorrelation` (mapper = `value_for_bond`). Same documented result, same model line.
fn run_table(bond: bool, t: usize, f: Option<usize>, table: &[Vec<f64>]) {
    let mut q = Script::new(vec![], table.to_vec());
    let input = format!("{} {} {} {}", if bond { "bond" } else { "custom" }, t, ftok(f), show_table(table));
    let r = catch(|| {
        if bond {
            q.calculate_bond_autocorrelation(t, 1.0, f)
        } else {
            q.calculate_autocorrelation(t, 1.0, f, |s: &Script, st: Vec<bool>| {
                let (_, age) = dec_age(&st);
                s.obs[(age - 1) % s.obs.len()].clone()
            })
        }
    });
    match r {
        Err(_) => emit(false, &input, "panic", if sample_ages(t, f).is_empty() { None } else { Some(Err("panicked".into())) }),
        Ok(r) => {
            let want: Vec<Vec<f64>> = sample_ages(t, f).iter().map(|a| table[(a - 1) % table.len()].clone()).collect();
            let o = judge(&r, &want);
            emit(o.is_some(), &input, &show_out(&r), o);
        }
    }
}

fn pm(b: bool) -> f64 {
    if b {
        1.0
    } else {
        -1.0
    }
}

fn run_vars(t: usize, f: Option<usize>, states: &[Vec<bool>]) {
    let mut q = Script::new(states.to_vec(), vec![]);
    let input = format!("vars {} {} {}", t, ftok(f), states.iter().map(|s| bits(s)).collect::<Vec<_>>().join(","));
    let r = catch(|| q.calculate_variable_autocorrelation(t, 1.0, f));
    match r {
        Err(_) => emit(false, &input, "panic", if sample_ages(t, f).is_empty() { None } else { Some(Err("panicked".into())) }),
        Ok(r) => {
            let want: Vec<Vec<f64>> = sample_ages(t, f).iter().map(|a| states[(a - 1) % states.len()].iter().map(|b| pm(*b)).collect()).collect();
            let o = judge(&r, &want);
            emit(o.is_some(), &input, &show_out(&r), o);
        }
    }
}

fn run_prod(t: usize, f: Option<usize>, states: &[Vec<bool>], prods: &[Vec<usize>]) {
    let mut q = Script::new(states.to_vec(), vec![]);
    let input = format!(
        "prod {} {} {} {}",
        t,
        ftok(f),
        states.iter().map(|s| bits(s)).collect::<Vec<_>>().join(","),
        prods.iter().map(|p| if p.is_empty() { "_".to_string() } else { list(p).replace(',', ".") }).collect::<Vec<_>>().join(",")
    );
    let pr: Vec<&[usize]> = prods.iter().map(|p| &p[..]).collect();
    let r = catch(|| q.calculate_spin_product_autocorrelation(t, 1.0, &pr, f));
    match r {
        Err(_) => emit(false, &input, "panic", if sample_ages(t, f).is_empty() { None } else { Some(Err("panicked".into())) }),
        Ok(r) => {
            let want: Vec<Vec<f64>> = sample_ages(t, f)
                .iter()
                .map(|a| {
                    let st = &states[(a - 1) % states.len()];
                    prods.iter().map(|p| p.iter().map(|v| pm(st[*v])).product()).collect()
                })
                .collect();
            let o = judge(&r, &want);
            emit(o.is_some(), &input, &show_out(&r), o);
        }
    }
}

/// A spin product on `nvars` variables: 1..3 distinct variables, then (two thirds of the time) some indices repeated —
/// an even number of extra copies (cancels: s^2 = 1) or an odd one, of a listed or of a new variable — and the list
/// shuffled. The product is taken literally: every listed index multiplies once.
fn gen_prod(g: &mut SplitMix64, nvars: usize) -> Vec<usize> {
    let k = g.range(1, 3.min(nvars as i64)) as usize;
    let mut vs: Vec<usize> = (0..nvars).collect();
    let mut p: Vec<usize> = (0..k).map(|_| vs.remove(g.below(vs.len() as u64) as usize)).collect();
    if g.chance(2, 3) {
        let reps = g.range(1, 2) as usize;
        for _ in 0..reps {
            let v = if g.coin() { *g.pick(&p) } else { g.below(nvars as u64) as usize };
            let copies = g.range(1, 3) as usize; // 1 extra copy of a listed variable = multiplicity 2, etc.
            for _ in 0..copies {
                let at = g.below(p.len() as u64 + 1) as usize;
                p.insert(at, v);
            }
        }
        // shuffle
        for i in (1..p.len()).rev() {
            let j = g.below(i as u64 + 1) as usize;
            p.swap(i, j);
        }
        stat("prod_with_repeated_index", 1);
    }
    p
}

/// Products for systems with more than 64 variables: the pair straddling the word boundary, mixed low/high, all
/// high, repeated high indices (odd multiplicity, or a cancelling pair next to another variable), the last variable.
fn gen_prods_wide(g: &mut SplitMix64, nvars: usize) -> Vec<Vec<usize>> {
    assert!(nvars >= 66);
    let hi = |g: &mut SplitMix64| 64 + g.below((nvars - 64) as u64) as usize;
    let lo = |g: &mut SplitMix64| g.below(64) as usize;
    let (h1, h2, h3) = (hi(g), hi(g), hi(g));
    let mut ps = vec![
        vec![63, 64],
        vec![lo(g), h1],
        vec![h2, lo(g), lo(g).min(62) + 1],
        vec![h1, if h3 != h1 { h3 } else { 64 + (h1 - 64 + 1) % (nvars - 64) }],
        vec![h2, h2, h2],
        vec![h3, h1, h3],
        vec![nvars - 1],
    ];
    // keep it cheap: a random subset of 3..5, always with a high-only one
    while ps.len() > 5 {
        let k = g.below(ps.len() as u64) as usize;
        if k != 3 && k != 0 {
            ps.remove(k);
        }
    }
    stat("wide_products", ps.len());
    ps
}

fn lit_prod(p: &[usize], st: &[bool]) -> f64 {
    p.iter().map(|v| pm(st[*v])).product()
}

const LENS_QUICK: [usize; 20] = [2, 3, 4, 5, 6, 7, 8, 9, 10, 11, 12, 13, 16, 17, 19, 23, 31, 32, 37, 64];
const LENS_THOROUGH: [usize; 10] = [27, 49, 61, 81, 100, 127, 128, 199, 251, 256];

fn gen_table(g: &mut SplitMix64, rows: usize, nobs: usize, allow_const: bool) -> Vec<Vec<f64>> {
    let mut tab: Vec<Vec<f64>> = (0..rows).map(|_| (0..nobs).map(|_| g.range(-12, 12) as f64 / 4.0).collect()).collect();
    // correlated columns are more interesting than white noise: smooth some of them
    for i in 0..nobs {
        if g.coin() {
            for r in 1..rows {
                if g.chance(2, 3) {
                    tab[r][i] = tab[r - 1][i];
                }
            }
        }
        if !allow_const && rows >= 2 && tab.iter().all(|r| r[i] == tab[0][i]) {
            tab[rows - 1][i] += 0.25;
        }
    }
    tab
}

const OFFSET_EXPS: [u32; 4] = [10, 14, 17, 20];

/// Add `±2^k` (k from OFFSET_EXPS, chosen per column; `first_k` for the first shifted column) to a mix of
/// columns: every column with probability 2/3, at least one. All values stay exactly representable
/// (multiples of 1/4 below 2^21) and so do their running sums, so the rational model sees the same numbers.
fn add_offsets(g: &mut SplitMix64, tab: &mut [Vec<f64>], first_k: u32) {
    let nobs = tab[0].len();
    if nobs == 0 {
        return;
    }
    let forced = g.below(nobs as u64) as usize;
    let mut first = true;
    for i in 0..nobs {
        if i == forced || g.chance(2, 3) {
            let k = if first { first_k } else { *g.pick(&OFFSET_EXPS) };
            first = false;
            let off = (1u64 << k) as f64 * if g.chance(1, 4) { -1.0 } else { 1.0 };
            tab.iter_mut().for_each(|r| r[i] += off);
            stat(&format!("offset_col_2^{}", k), 1);
        }
    }
}

const TINY_EXPS: [i32; 2] = [-60, -100];

/// Scale a mix of columns (each with probability 1/2, at least one) by 2^-60 (~8.7e-19) or 2^-100 (~7.9e-31):
/// non-constant observables whose Euclidean norm is far below f64::EPSILON. Exact in f64 (no subnormals: the
/// squares are >= 2^-208) and exact for the rational model; the result must not change (scale invariance).
fn make_tiny(g: &mut SplitMix64, tab: &mut [Vec<f64>], first: i32) {
    let nobs = tab[0].len();
    if nobs == 0 {
        return;
    }
    let forced = g.below(nobs as u64) as usize;
    let mut is_first = true;
    for i in 0..nobs {
        if i == forced || g.coin() {
            let e = if is_first { first } else { *g.pick(&TINY_EXPS) };
            is_first = false;
            let sc = 2f64.powi(e);
            tab.iter_mut().for_each(|r| r[i] *= sc);
            stat(&format!("tiny_col_2^{}", e), 1);
        }
    }
}

fn gen_states(g: &mut SplitMix64, rows: usize, nvars: usize) -> Vec<Vec<bool>> {
    let mut st: Vec<Vec<bool>> = (0..rows).map(|_| (0..nvars).map(|_| g.coin()).collect()).collect();
    for v in 0..nvars {
        if g.coin() {
            for r in 1..rows {
                if g.chance(2, 3) {
                    st[r][v] = st[r - 1][v];
                }
            }
        }
        if rows >= 2 && st.iter().all(|r| r[v] == st[0][v]) {
            st[rows - 1][v] = !st[rows - 1][v];
        }
    }
    st
}

fn mode_scripted(a: &Args, which: &str) {
    let mut g = SplitMix64::new(a.seed ^ 0x20 ^ (which.len() as u64) << 8);
    let mut lens: Vec<usize> = LENS_QUICK.to_vec();
    if a.thorough {
        lens.extend(LENS_THOROUGH.iter());
    }
    let mut offset_case = 0usize;
    for &l in &lens {
        offset_case += 1;
        // the rational model costs O(L^2 * nobs) slow exact operations: long series get fewer cases
        let (reps, max_obs) = if !a.thorough {
            (1, 6)
        } else if l <= 64 {
            (3, 6)
        } else if l <= 128 {
            (1, 6)
        } else {
            (1, 2)
        };
        for nobs in 1..=max_obs as usize {
            for _ in 0..reps {
                let f = *g.pick(&[None, Some(1), Some(2), Some(3), Some(5)]);
                let fv = f.unwrap_or(1);
                let t = l * fv + g.below(fv as u64) as usize; // non-divisors too
                // the sampled rows must be non-constant per column: build the table over the sampled ages
                match which {
                    "custom" => {
                        let sampled = gen_table(&mut g, l, nobs, false);
                        // table indexed by age-1 (length T): sampled rows at multiples of f, noise elsewhere
                        let mut table: Vec<Vec<f64>> = (0..t.max(1)).map(|_| (0..nobs).map(|_| g.range(-12, 12) as f64 / 4.0).collect()).collect();
                        for k in 0..l {
                            table[(k + 1) * fv - 1] = sampled[k].clone();
                        }
                        run_custom(t, f, &table);
                        // the bond helper on the same kind of data (every other case)
                        if (l + nobs) % 2 == 0 {
                            run_table(true, t, f, &table);
                        }
                        // shift invariance with |mean| >> fluctuation: the same series with offset columns,
                        // through both mapper entry points; k rotates so that every exponent meets every
                        // length class (power of two and not)
                        if nobs <= 3 || a.thorough {
                            let mut shifted = table.clone();
                            let k = OFFSET_EXPS[(offset_case + nobs) % 4];
                            add_offsets(&mut g, &mut shifted, k);
                            run_table(false, t, f, &shifted);
                            run_table(true, t, f, &shifted);
                            stat("offset_cases", 2);
                            // scale invariance at the other end: tiny non-constant columns next to order-one ones
                            let mut tiny = table.clone();
                            make_tiny(&mut g, &mut tiny, TINY_EXPS[(offset_case + nobs) % 2]);
                            run_table(false, t, f, &tiny);
                            run_table(true, t, f, &tiny);
                            stat("tiny_cases", 2);
                        }
                    }
                    "vars" => {
                        let sampled = gen_states(&mut g, l, nobs);
                        let mut states: Vec<Vec<bool>> = (0..t.max(1)).map(|_| (0..nobs).map(|_| g.coin()).collect()).collect();
                        for k in 0..l {
                            states[(k + 1) * fv - 1] = sampled[k].clone();
                        }
                        run_vars(t, f, &states);
                    }
                    _ => {
                        let nvars = g.range(2, 6) as usize;
                        let sampled = gen_states(&mut g, l, nvars);
                        let mut states: Vec<Vec<bool>> = (0..t.max(1)).map(|_| (0..nvars).map(|_| g.coin()).collect()).collect();
                        for k in 0..l {
                            states[(k + 1) * fv - 1] = sampled[k].clone();
                        }
                        // products of 1..3 variables; a product column may come out constant (then no oracle)
                        // (retry a few times so that most cases are inside the quantifier)
                        let prods: Vec<Vec<usize>> = (0..nobs)
                            .map(|_| {
                                let mut p: Vec<usize> = vec![];
                                for _ in 0..10 {
                                    p = gen_prod(&mut g, nvars);
                                    let col: Vec<f64> = sampled.iter().map(|st| lit_prod(&p, st)).collect();
                                    if col.iter().any(|x| *x != col[0]) {
                                        break;
                                    }
                                }
                                p
                            })
                            .collect();
                        run_prod(t, f, &states, &prods);
                    }
                }
            }
        }
    }
    // systems with more than 64 variables (a word of flags does not hold a sample): few samples, many spins
    if which != "custom" {
        let wide = if a.thorough { 12 } else { 4 };
        for wi in 0..wide {
            let nvars = [65usize, 100, 130, 72][wi % 4].max(if which == "prod" { 66 } else { 65 });
            let l = [6usize, 9, 8, 12][wi % 4];
            let fv = 1 + wi % 2;
            let f = if wi % 4 == 0 { None } else { Some(fv) };
            let fv = f.unwrap_or(1);
            let t = l * fv + g.below(fv as u64) as usize;
            let sampled = gen_states(&mut g, l, nvars);
            let mut states: Vec<Vec<bool>> = (0..t.max(1)).map(|_| (0..nvars).map(|_| g.coin()).collect()).collect();
            for k in 0..l {
                states[(k + 1) * fv - 1] = sampled[k].clone();
            }
            if which == "vars" {
                run_vars(t, f, &states);
            } else {
                let prods = gen_prods_wide(&mut g, nvars);
                run_prod(t, f, &states, &prods);
            }
            stat("wide_scripted_cases", 1);
        }
    }
}

// ------------------------------------------------------------------------------------------------
// tempering autocorrelations on mock replicas
// ------------------------------------------------------------------------------------------------

struct Rep {
    slot: usize,
    gid: usize,
    age: usize,
    state: Vec<bool>,
    gcount: Mutex<usize>,
    swaps: Arc<Mutex<Vec<(usize, usize, usize)>>>,
    seed: u64,
    obs: Arc<Vec<Vec<Vec<f64>>>>,
    /// every proposed exchange is accepted (equal Hamiltonians and betas in the real thing)
    always: bool,
    /// if present, the spin state of graph `gid` after its `age`-th step is `bits[gid][(age-1) % len]`
    /// (otherwise the state encodes (gid, age))
    bits: Option<Arc<Vec<Vec<Vec<bool>>>>>,
}
impl Rep {
    fn refresh(&mut self) {
        self.state = match &self.bits {
            Some(b) if self.age > 0 => b[self.gid][(self.age - 1) % b[self.gid].len()].clone(),
            Some(b) => vec![false; b[self.gid][0].len()],
            None => enc_age(self.gid, self.age),
        };
    }
}
impl QmcStepper for Rep {
    fn timestep(&mut self, _beta: f64) -> &[bool] {
        self.age += 1;
        self.refresh();
        &self.state
    }
    fn get_n(&self) -> usize {
        (self.gid * 3 + self.age) % 5
    }
    fn get_energy_for_average_n(&self, average_n: f64, beta: f64) -> f64 {
        -(average_n / beta)
    }
    fn state_ref(&self) -> &[bool] {
        &self.state
    }
    fn get_bond_count(&self, _bond: usize) -> usize {
        0
    }
    fn imaginary_time_fold<F, T>(&self, _fold_fn: F, init: T) -> T
    where
        F: Fn(T, &[bool]) -> T,
    {
        init
    }
}
impl GraphWeights for Rep {
    fn ham_eq(&self, _other: &Self) -> bool {
        false
    }
    fn relative_weight(&self, h: &Self) -> f64 {
        if self.slot < h.slot {
            let step = *self.gcount.lock().unwrap();
            let mut r = SplitMix64::new(self.seed ^ ((self.slot as u64) << 32) ^ (step as u64).wrapping_mul(0x9E37));
            if self.always || r.next() & 1 == 1 {
                f64::INFINITY
            } else {
                0.0
            }
        } else {
            1.0
        }
    }
}
impl SwapManagers for Rep {
    fn can_swap_graphs(&self, _other: &Self) -> Result<(), String> {
        Ok(())
    }
    fn swap_graphs(&mut self, other: &mut Self) {
        std::mem::swap(&mut self.gid, &mut other.gid);
        std::mem::swap(&mut self.age, &mut other.age);
        self.refresh();
        other.refresh();
        let step = *self.gcount.lock().unwrap();
        self.swaps.lock().unwrap().push((step, self.slot, other.slot));
    }
    fn get_op_cutoff(&self) -> usize {
        *self.gcount.lock().unwrap() += 1;
        1
    }
    fn set_op_cutoff(&mut self, _cutoff: usize) {}
}

impl QmcBondAutoCorrelations for Rep {
    fn n_bonds(&self) -> usize {
        self.obs[0][0].len()
    }
    fn value_for_bond(&self, bond: usize, sample: &[bool]) -> f64 {
        let (gid, age) = dec_age(sample);
        obs_of(&self.obs, gid, age)[bond]
    }
}

fn obs_of(obs: &[Vec<Vec<f64>>], gid: usize, age: usize) -> Vec<f64> {
    let t = &obs[gid];
    t[(age - 1) % t.len()].clone()
}

fn mode_temper(a: &Args) {
    let mut g = SplitMix64::new(a.seed ^ 0x2077);
    let cases = if a.thorough { 400 } else { 60 };
    // followed by the boundary of the swap period: s in {T-1, T, T+1, 2T}, sampling period dividing T, >= 2 replicas,
    // every exchange accepted (equal betas), both mapper entry points
    let bcases = if a.thorough { 160 } else { 40 };
    for ci in 0..cases + bcases {
        let boundary = ci >= cases;
        let nrep = if boundary { g.range(2, 4) as usize } else { g.range(1, 4) as usize };
        let f = g.range(1, 5) as usize;
        let l = *g.pick(&LENS_QUICK[..16]);
        let t = if boundary { l * f } else { l * f + g.below(f as u64) as usize };
        let s = if boundary { [t - 1, t, t, t + 1, 2 * t][ci % 5].max(1) } else { g.range(1, 6) as usize };
        let always = boundary;
        if boundary {
            stat(if s == t { "temper_boundary_s_eq_T" } else { "temper_boundary_other" }, 1);
        }
        let nobs = g.range(1, 4) as usize;
        // per graph a table over ages; white noise so that columns are (almost surely) non-constant
        let mut obs: Vec<Vec<Vec<f64>>> = (0..nrep).map(|_| gen_table(&mut g, t.max(2), nobs, false)).collect();
        // half of the cases: offset columns (per graph, so a slot that receives another graph by a swap sees
        // a jump of the offset as a genuine, large fluctuation — also fine, still exact)
        let with_offset = ci % 2 == 1;
        if ci % 4 == 2 {
            // tiny columns, the same scale on every graph so that a slot's series stays tiny across swaps
            let mut probe = vec![vec![1.0; nobs]];
            make_tiny(&mut g, &mut probe, TINY_EXPS[(ci / 4) % 2]);
            for tab in obs.iter_mut() {
                tab.iter_mut().for_each(|r| r.iter_mut().zip(probe[0].iter()).for_each(|(x, o)| *x *= *o));
            }
            stat("temper_tiny_cases", 1);
        }
        if with_offset {
            let k = OFFSET_EXPS[(ci / 2) % 4];
            if ci % 4 == 1 {
                // same offsets on every graph: after swaps the series are still `offset + O(1)`
                let mut probe = vec![vec![0.0; nobs]];
                add_offsets(&mut g, &mut probe, k);
                for tab in obs.iter_mut() {
                    tab.iter_mut().for_each(|r| r.iter_mut().zip(probe[0].iter()).for_each(|(x, o)| *x += *o));
                }
            } else {
                for tab in obs.iter_mut() {
                    add_offsets(&mut g, tab, k);
                }
            }
            stat("temper_offset_cases", 1);
        }
        let bond_entry = ci % 3 == 0;
        let obs = Arc::new(obs);
        let seed = g.next();
        let build = || {
            let swaps = Arc::new(Mutex::new(vec![]));
            let mut tc: TemperingContainer<SplitMix64, Rep> = TemperingContainer::new(SplitMix64::new(seed));
            for i in 0..nrep {
                let r = Rep { slot: i, gid: i, age: 0, state: enc_age(i, 0), gcount: Mutex::new(0), swaps: swaps.clone(), seed, obs: obs.clone(), always, bits: None };
                tc.add_qmc_stepper(r, if always { 1.0 } else { [0.5, 1.0, 2.0, 4.0][i % 4] }).unwrap();
            }
            (tc, swaps)
        };
        let (mut tc, swaps) = build();
        let use_opt_none = f == 1 && g.coin();
        let res = catch(|| {
            let fo = if use_opt_none { None } else { Some(f) };
            if bond_entry {
                tc.calculate_bond_autocorrelation(t, Some(s), fo)
            } else {
                tc.calculate_autocorrelation(t, Some(s), fo, |st: &[bool], q: &Rep| {
                    let (gid, age) = dec_age(st);
                    obs_of(&q.obs, gid, age)
                })
            }
        });
        let swaps = swaps.lock().unwrap().clone();
        let nsteps = tc.graph_ref().first().map(|(m, _)| *m.gcount.lock().unwrap()).unwrap_or(0);
        let maxstep = swaps.iter().map(|x| x.0).max().unwrap_or(0).max(nsteps);
        let script = if maxstep == 0 {
            "-".to_string()
        } else {
            (1..=maxstep)
                .map(|k| {
                    let v: Vec<String> = swaps.iter().filter(|x| x.0 == k).map(|x| format!("{}-{}", x.1, x.2)).collect();
                    if v.is_empty() {
                        "_".to_string()
                    } else {
                        v.join(".")
                    }
                })
                .collect::<Vec<_>>()
                .join(";")
        };
        let input = format!(
            "{} {} {} {} {} {} {}",
            if bond_entry { "temperbond" } else { "temper" },
            t,
            s,
            f,
            nrep,
            obs.iter().map(|tab| show_table(tab)).collect::<Vec<_>>().join("!"),
            script
        );
        match res {
            Err(p) => emit(false, &input, "panic", Some(Err(format!("panicked: {}", p)))),
            Ok(r) => {
                // independent reference: an identically built container driven in lock step with serial semantics
                // (one `timestep` per replica, `tempering_step()` after every s-th step, then read the states)
                let (mut tc2, _) = build();
                let mut want: Vec<Vec<Vec<f64>>> = vec![vec![]; nrep];
                for k in 1..=t {
                    for (m, beta) in tc2.graph_mut().iter_mut() {
                        m.timestep(*beta);
                    }
                    if k % s == 0 {
                        tc2.tempering_step();
                    }
                    if k % f == 0 {
                        for i in 0..nrep {
                            let m = &tc2.graph_ref()[i].0;
                            want[i].push(obs_of(&obs, m.gid, m.age));
                        }
                    }
                }
                let mut oracle: Option<Result<(), String>> = Some(Ok(()));
                let fin: Vec<(usize, usize)> = tc.graph_ref().iter().map(|(m, _)| (m.gid, m.age)).collect();
                let ref_fin: Vec<(usize, usize)> = tc2.graph_ref().iter().map(|(m, _)| (m.gid, m.age)).collect();
                let mut structural: Option<String> = None;
                if fin != ref_fin {
                    structural = Some(format!("replicas end as (graph, age) {:?} but the lock-step reference ends as {:?} (T = {}, s = {}, f = {})", fin, ref_fin, t, s, f));
                }
                if tc.get_total_swaps() != tc2.get_total_swaps() {
                    structural = Some(format!("total_swaps {} but the lock-step reference counts {} (T = {}, s = {}, f = {})", tc.get_total_swaps(), tc2.get_total_swaps(), t, s, f));
                }
                if always && nrep >= 2 && tc2.get_total_swaps() as usize != (t / s) * (nrep - 1) {
                    structural = Some(format!("reference: {} accepted exchanges, {} expected", tc2.get_total_swaps(), (t / s) * (nrep - 1)));
                }
                let mut out = vec![];
                for i in 0..nrep {
                    out.push(show_out(&r[i]));
                    match judge(&r[i], &want[i]) {
                        None => oracle = None,
                        Some(Err(e)) => {
                            oracle = Some(Err(format!("slot {}: {}", i, e)));
                            break;
                        }
                        Some(Ok(())) => {}
                    }
                }
                let nt = oracle.is_some();
                if let Some(m) = structural {
                    oracle = Some(Err(m));
                }
                emit(nt, &input, &out.join(" "), oracle);
            }
        }
    }
}

/// `ParallelTemperingAutocorrelations::{calculate_variable_autocorrelation, calculate_spin_product_autocorrelation}`
/// (the only tempering versions of these helpers; they live in the rayon module) on mock replicas whose spin states
/// are prescribed per (graph, age). Products contain repeated and unsorted indices.
fn mode_temper_spin(a: &Args) {
    let mut g = SplitMix64::new(a.seed ^ 0x2078);
    let cases = if a.thorough { 240 } else { 48 };
    for ci in 0..cases {
        let nrep = g.range(1, 3) as usize;
        let wide = ci % 8 == 7;
        let nvars = if wide { *g.pick(&[66usize, 97, 130]) } else { g.range(3, 5) as usize };
        let f = g.range(1, 4) as usize;
        let l = if wide { *g.pick(&LENS_QUICK[3..8]) } else { *g.pick(&LENS_QUICK[2..15]) };
        let t = l * f + g.below(f as u64) as usize;
        let s = if ci % 6 == 5 { t } else { g.range(1, 6) as usize };
        let always = ci % 3 == 2;
        let bits: Arc<Vec<Vec<Vec<bool>>>> = Arc::new((0..nrep).map(|_| gen_states(&mut g, t.max(2), nvars)).collect());
        let prod_entry = ci % 4 != 3;
        let nprods = g.range(1, 4) as usize;
        let prods: Vec<Vec<usize>> = if wide { gen_prods_wide(&mut g, nvars) } else { (0..nprods).map(|_| gen_prod(&mut g, nvars)).collect() };
        if wide {
            stat("wide_temper_spin_cases", 1);
        }
        let seed = g.next();
        let build = || {
            let swaps = Arc::new(Mutex::new(vec![]));
            let mut tc: TemperingContainer<SplitMix64, Rep> = TemperingContainer::new(SplitMix64::new(seed));
            for i in 0..nrep {
                let mut r = Rep {
                    slot: i,
                    gid: i,
                    age: 0,
                    state: vec![],
                    gcount: Mutex::new(0),
                    swaps: swaps.clone(),
                    seed,
                    obs: Arc::new(vec![]),
                    always,
                    bits: Some(bits.clone()),
                };
                r.refresh();
                tc.add_qmc_stepper(r, if always { 1.0 } else { [0.5, 1.0, 2.0][i % 3] }).unwrap();
            }
            (tc, swaps)
        };
        let (mut tc, swaps) = build();
        let pr: Vec<&[usize]> = prods.iter().map(|p| &p[..]).collect();
        let res = catch(|| {
            if prod_entry {
                tc.calculate_spin_product_autocorrelation(t, Some(s), &pr, Some(f))
            } else {
                tc.calculate_variable_autocorrelation(t, Some(s), Some(f))
            }
        });
        let swaps = swaps.lock().unwrap().clone();
        let nsteps = tc.graph_ref().first().map(|(m, _)| *m.gcount.lock().unwrap()).unwrap_or(0);
        let maxstep = swaps.iter().map(|x| x.0).max().unwrap_or(0).max(nsteps);
        let script = if maxstep == 0 {
            "-".to_string()
        } else {
            (1..=maxstep)
                .map(|k| {
                    let v: Vec<String> = swaps.iter().filter(|x| x.0 == k).map(|x| format!("{}-{}", x.1, x.2)).collect();
                    if v.is_empty() {
                        "_".to_string()
                    } else {
                        v.join(".")
                    }
                })
                .collect::<Vec<_>>()
                .join(";")
        };
        let tabs = bits.iter().map(|tab| tab.iter().map(|st| vh::bits(st)).collect::<Vec<_>>().join(",")).collect::<Vec<_>>().join("!");
        let input = if prod_entry {
            format!(
                "temperprod {} {} {} {} {} {} {}",
                t,
                s,
                f,
                nrep,
                tabs,
                prods.iter().map(|p| list(p).replace(',', ".")).collect::<Vec<_>>().join(","),
                script
            )
        } else {
            format!("tempervars {} {} {} {} {} {}", t, s, f, nrep, tabs, script)
        };
        match res {
            Err(p) => emit(false, &input, "panic", Some(Err(format!("panicked: {}", p)))),
            Ok(r) => {
                // lock-step reference container; observables recomputed literally from its sampled states
                let (mut tc2, _) = build();
                let mut want: Vec<Vec<Vec<f64>>> = vec![vec![]; nrep];
                for k in 1..=t {
                    for (m, beta) in tc2.graph_mut().iter_mut() {
                        m.timestep(*beta);
                    }
                    if k % s == 0 {
                        tc2.tempering_step();
                    }
                    if k % f == 0 {
                        for i in 0..nrep {
                            let st = tc2.graph_ref()[i].0.state_ref();
                            want[i].push(if prod_entry { prods.iter().map(|p| lit_prod(p, st)).collect() } else { st.iter().map(|b| pm(*b)).collect() });
                        }
                    }
                }
                let mut oracle: Option<Result<(), String>> = Some(Ok(()));
                let mut out = vec![];
                for i in 0..nrep {
                    out.push(show_out(&r[i]));
                    match judge(&r[i], &want[i]) {
                        None => {
                            if oracle.is_some() && oracle.as_ref().unwrap().is_ok() {
                                oracle = None
                            }
                        }
                        Some(Err(e)) => {
                            oracle = Some(Err(format!("slot {} (products {:?}, every listed index multiplies once): {}", i, prods, e)));
                            break;
                        }
                        Some(Ok(())) => {}
                    }
                }
                emit(oracle.is_some(), &input, &out.join(" "), oracle);
            }
        }
    }
}

// ------------------------------------------------------------------------------------------------
// real sampler
// ------------------------------------------------------------------------------------------------

fn mode_real(a: &Args) {
    let mut g = SplitMix64::new(a.seed ^ 0x2011);
    let cases = if a.thorough { 120 } else { 24 };
    for ci in 0..cases {
        // every eighth case: a chain of more than 64 sites, few samples
        let wide = ci % 8 == 7;
        let nvars = if wide { g.range(66, 90) as usize } else { g.range(2, 5) as usize };
        let edges: Vec<((usize, usize), f64)> = (0..nvars - 1).map(|v| ((v, v + 1), *g.pick(&[-1.0, 0.5, 1.0]))).collect();
        let beta = *g.pick(&[0.25, 0.5, 1.0]);
        let f = g.range(1, 4) as usize;
        let l = if wide { *g.pick(&LENS_QUICK[6..11]) } else { *g.pick(&LENS_QUICK[4..16]) };
        if wide {
            stat("wide_real_vars_cases", 1);
        }
        let t = l * f + g.below(f as u64) as usize;
        let mut q = DefaultQmcIsingGraph::<SplitMix64>::new_with_rng(edges, 1.5, 0.0, 4, SplitMix64::new(g.next()), None);
        q.timesteps(10, beta);
        let mut q2 = q.clone();
        let r = catch(|| q.calculate_variable_autocorrelation(t, beta, Some(f)));
        let mut want = vec![];
        let mut states = vec![];
        for k in 1..=t {
            q2.timestep(beta);
            if k % f == 0 {
                states.push(q2.state_ref().to_vec());
                want.push(q2.state_ref().iter().map(|b| pm(*b)).collect::<Vec<f64>>());
            }
        }
        // model input: the sampled states directly (period 1 over exactly these states)
        let input = format!("vars {} 1 {}", states.len(), states.iter().map(|s| bits(s)).collect::<Vec<_>>().join(","));
        match r {
            Err(p) => emit(false, &input, "panic", Some(Err(format!("real sampler panicked: {}", p)))),
            Ok(r) => {
                let o = judge(&r, &want);
                emit(o.is_some(), &input, &show_out(&r), o);
            }
        }
    }
}

// ------------------------------------------------------------------------------------------------
// bond autocorrelation of the real generic sampler: which interactions count as observables
// ------------------------------------------------------------------------------------------------

type Generic = DefaultQmc<SplitMix64>;

/// what the harness registered: variables and ALL 2^n diagonal entries (as given, before any offset shift)
#[derive(Clone)]
struct Reg {
    vars: Vec<usize>,
    diag: Vec<f64>,
}
impl Reg {
    /// the documented criterion: an interaction is an observable iff its diagonal is not constant
    fn observable(&self) -> bool {
        self.diag.iter().any(|d| *d != self.diag[0])
    }
    fn value(&self, state: &[bool]) -> f64 {
        let idx = self.vars.iter().fold(0usize, |a, v| a * 2 + state[*v] as usize);
        self.diag[idx]
    }
}

/// diagonal of 2^n entries (multiples of 1/4 in [1/4, 4]): `late` = differs from the common value only in rows
/// >= 2n, `early` = only in rows < 2n (needs n >= 1), `const`, `mixed`
fn gen_diag(g: &mut SplitMix64, n: usize, pattern: &str) -> Vec<f64> {
    let rows = 1usize << n;
    let base = g.range(1, 8) as f64 / 4.0;
    let other = |g: &mut SplitMix64| loop {
        let x = g.range(1, 16) as f64 / 4.0;
        if x != base {
            return x;
        }
    };
    let mut d = vec![base; rows];
    let split = (2 * n).min(rows);
    match pattern {
        "late" if split < rows => {
            let k = g.range(1, (rows - split) as i64) as usize;
            for _ in 0..k {
                let r = split + g.below((rows - split) as u64) as usize;
                d[r] = other(g);
            }
        }
        "early" | "late" => {
            let k = g.range(1, 2) as usize;
            for _ in 0..k {
                let r = g.below(split as u64) as usize;
                d[r] = other(g);
            }
        }
        "mixed" => {
            for r in 0..rows {
                if g.coin() {
                    d[r] = other(g);
                }
            }
            d[rows - 1] = other(g);
        }
        _ => {}
    }
    d
}

/// Build a generic sampler from a list of registrations; returns it with what was registered, in bond order.
fn build_generic(g: &mut SplitMix64, nvars: usize, seed: u64) -> (Generic, Vec<Reg>) {
    let mut q = Generic::new_with_state(nvars, SplitMix64::new(seed), vec![false; nvars], false);
    let mut regs = vec![];
    // constant single-site terms: spin flips (never observables)
    let tr = g.range(3, 8) as f64 / 4.0;
    for v in 0..nvars {
        q.make_interaction(vec![tr, tr, tr, tr], vec![v]).unwrap();
        regs.push(Reg { vars: vec![v], diag: vec![tr, tr] });
    }
    let nterms = g.range(2, 6) as usize;
    for ti in 0..nterms {
        // arity: 1, 2 as neighbours of the 3- and 4-variable terms under test
        let n = match ti % 4 {
            0 => 3,
            1 => *g.pick(&[1usize, 2]),
            2 => {
                if nvars >= 4 {
                    4
                } else {
                    3
                }
            }
            _ => g.range(1, 3.min(nvars as i64)) as usize,
        };
        let pattern = *g.pick(&["late", "late", "early", "const", "mixed"]);
        let mut pool: Vec<usize> = (0..nvars).collect();
        let vars: Vec<usize> = (0..n).map(|_| pool.remove(g.below(pool.len() as u64) as usize)).collect();
        let diag = gen_diag(g, n, pattern);
        let rows = 1usize << n;
        // registration route: full matrix (with / without offset) or diagonal table (control)
        let route = g.below(4);
        match route {
            0 | 1 => {
                let mut m = vec![0.0; rows * rows];
                for r in 0..rows {
                    m[r * rows + r] = diag[r];
                }
                if route == 0 {
                    q.make_interaction(m, vars.clone()).unwrap();
                } else {
                    q.make_interaction_and_offset(m, vars.clone()).unwrap();
                }
                stat(&format!("genbond_full_{}var_{}", n, pattern), 1);
            }
            2 => {
                q.make_diagonal_interaction(diag.clone(), vars.clone()).unwrap();
                stat(&format!("genbond_diag_{}var_{}", n, pattern), 1);
            }
            _ => {
                q.make_diagonal_interaction_and_offset(diag.clone(), vars.clone()).unwrap();
                stat(&format!("genbond_diag_{}var_{}", n, pattern), 1);
            }
        }
        regs.push(Reg { vars, diag });
    }
    (q, regs)
}

fn obs_table(regs: &[Reg], states: &[Vec<bool>]) -> Vec<Vec<f64>> {
    states.iter().map(|st| regs.iter().filter(|r| r.observable()).map(|r| r.value(st)).collect()).collect()
}

fn emit_genbond(tag: &str, n_bonds: usize, regs: &[Reg], r: &[f64], states: &[Vec<bool>]) {
    let table = obs_table(regs, states);
    let want_obs = regs.iter().filter(|r| r.observable()).count();
    let input = format!("genbond {} 1 {}", states.len(), show_table(&table));
    let mut oracle = judge(r, &table);
    if n_bonds != want_obs {
        oracle = Some(Err(format!(
            "{}: n_bonds() = {} but {} registered interactions have a non-constant diagonal (diagonals: {})",
            tag,
            n_bonds,
            want_obs,
            regs.iter().map(|r| format!("{:?}", r.diag)).collect::<Vec<_>>().join(" ")
        )));
    } else if oracle.is_none() && want_obs > 0 && r.len() != states.len() {
        oracle = Some(Err(format!("{}: {} entries for {} samples", tag, r.len(), states.len())));
    }
    let nt = matches!(oracle, Some(Ok(())));
    // a constant sampled column leaves `judge` without verdict; the count of observables is still demanded
    let oracle = oracle.or(Some(Ok(())));
    emit(nt, &input, &format!("{} {}", n_bonds, show_out(r)), oracle);
}

fn mode_genbond(a: &Args) {
    let mut g = SplitMix64::new(a.seed ^ 0x20b0);
    let cases = if a.thorough { 200 } else { 40 };
    for ci in 0..cases {
        // every tenth case: more than 64 variables (the interactions' variables are drawn from all of them)
        let wide = ci % 10 == 9;
        let nvars = if wide { g.range(66, 80) as usize } else { g.range(3, 5) as usize };
        if wide {
            stat("wide_genbond_cases", 1);
        }
        let beta = *g.pick(&[0.25, 0.5, 1.0]);
        let f = g.range(1, 3) as usize;
        let l = *g.pick(&LENS_QUICK[6..17]);
        let t = l * f + g.below(f as u64) as usize;
        if ci % 4 != 3 {
            let seed = g.next();
            let (mut q, regs) = build_generic(&mut g, nvars, seed);
            q.timesteps(10, beta);
            let mut q2 = q.clone();
            let nb = q.n_bonds();
            match catch(|| q.calculate_bond_autocorrelation(t, beta, Some(f))) {
                Err(p) => emit(false, &format!("genbond {} 1 -", l), "panic", Some(Err(format!("generic bond helper panicked: {}", p)))),
                Ok(r) => {
                    let (states, _) = q2.timesteps_sample(t, beta, Some(f));
                    emit_genbond("generic sampler", nb, &regs, &r, &states);
                }
            }
        } else {
            // the tempering bond helper over generic replicas (identical interactions, beta ladder)
            let nrep = g.range(2, 3) as usize;
            let gs = g.clone();
            let mut tc: TemperingContainer<SplitMix64, Generic> = TemperingContainer::new(SplitMix64::new(g.next()));
            let mut regs = vec![];
            for i in 0..nrep {
                let mut gi = gs.clone();
                let (q, rg) = build_generic(&mut gi, nvars, g.next());
                regs = rg;
                tc.add_qmc_stepper(q, [0.25, 0.5, 1.0][i % 3]).unwrap();
            }
            tc.timesteps(5);
            let mut tc2 = tc.clone();
            let s = g.range(1, 5) as usize;
            let nbs: Vec<usize> = tc.graph_ref().iter().map(|(q, _)| q.n_bonds()).collect();
            match catch(|| tc.calculate_bond_autocorrelation(t, Some(s), Some(f))) {
                Err(p) => emit(false, &format!("genbond {} 1 -", l), "panic", Some(Err(format!("tempering bond helper panicked: {}", p)))),
                Ok(r) => {
                    let ref_run = tc2.parallel_timesteps_sample(t, s, f);
                    for i in 0..nrep {
                        emit_genbond("generic replicas", nbs[i], &regs, &r[i], &ref_run[i].0);
                    }
                }
            }
        }
    }
}

// ------------------------------------------------------------------------------------------------
// bond autocorrelation of the real Ising sampler
// ------------------------------------------------------------------------------------------------

type IsingQ = DefaultQmcIsingGraph<SplitMix64>;

/// Documented bond observable (read off the unchanged `QmcIsingGraph::value_for_bond`): edge (a, b, J) on state s
/// is +1 when the bond is satisfied — spins equal for J < 0 (ferromagnetic), spins different for J > 0
/// (antiferromagnetic; H = sum J s_a s_b) — and -1 otherwise. Computed from s[a], s[b], sign(J) only.
fn bond_satisfied(a: usize, b: usize, j: f64, s: &[bool]) -> f64 {
    let aligned = s[a] == s[b];
    // J = 0: the unchanged code tests `J < 0.0`, i.e. a zero edge is listed and valued like an antiferromagnetic one
    if (j < 0.0 && aligned) || (j >= 0.0 && !aligned) {
        1.0
    } else {
        -1.0
    }
}

/// graphs on 3..5 sites: ring / star / chain / random, both edge orientations, mixed signs, always an edge on the
/// two last variables, sometimes a duplicate edge; J != 0 (dyadic)
fn gen_bond_graph(g: &mut SplitMix64, nvars: usize) -> Vec<((usize, usize), f64)> {
    let mut pairs: Vec<(usize, usize)> = match g.below(4) {
        0 => (0..nvars).map(|v| (v, (v + 1) % nvars)).collect(),
        1 => {
            let c = g.below(nvars as u64) as usize;
            (0..nvars).filter(|v| *v != c).map(|v| (c, v)).collect()
        }
        2 => (0..nvars - 1).map(|v| (v, v + 1)).collect(),
        _ => {
            let mut ps = vec![];
            for a in 0..nvars {
                for b in a + 1..nvars {
                    if g.coin() {
                        ps.push((a, b));
                    }
                }
            }
            ps
        }
    };
    if !pairs.iter().any(|(a, b)| (*a.min(b), *a.max(b)) == (nvars - 2, nvars - 1)) {
        pairs.push((nvars - 2, nvars - 1));
    }
    // every variable must appear (nvars is derived from the largest index; isolated ones are fine but keep it tight)
    if g.chance(1, 3) {
        let d = *g.pick(&pairs);
        pairs.push(d);
        stat("isingbond_duplicate_edge", 1);
    }
    let mut edges: Vec<((usize, usize), f64)> = pairs
        .into_iter()
        .map(|(a, b)| {
            let (a, b) = if g.coin() { (b, a) } else { (a, b) };
            let j = *g.pick(&[-1.0, -0.5, 0.5, 1.0, 0.25, -0.75]);
            ((a, b), j)
        })
        .collect();
    // edges that carry no (or almost no) coupling are still listed bonds: J = 0 and |J| = 2^-60, placed first,
    // in the middle, last, several, or everywhere
    let ne = edges.len();
    let weak = |g: &mut SplitMix64| *g.pick(&[0.0, 0.0, 2f64.powi(-60), -(2f64.powi(-60))]);
    match g.below(8) {
        0 => edges[0].1 = weak(g),
        1 => edges[ne / 2].1 = weak(g),
        2 => edges[ne - 1].1 = weak(g),
        3 => {
            for e in edges.iter_mut() {
                if g.coin() {
                    e.1 = weak(g);
                }
            }
        }
        4 => edges.iter_mut().for_each(|e| e.1 = 0.0),
        _ => {}
    }
    let nz = edges.iter().filter(|e| e.1 == 0.0).count();
    if nz > 0 {
        stat(if nz == ne { "isingbond_all_edges_zero" } else { "isingbond_some_edges_zero" }, 1);
    }
    if edges.iter().any(|e| e.1 != 0.0 && e.1.abs() < 1e-9) {
        stat("isingbond_tiny_edge", 1);
    }
    edges
}

fn emit_isingbond(tag: &str, n_bonds: usize, edges: &[((usize, usize), f64)], r: &[f64], states: &[Vec<bool>]) {
    let table: Vec<Vec<f64>> = states.iter().map(|s| edges.iter().map(|((a, b), j)| bond_satisfied(*a, *b, *j, s)).collect()).collect();
    let input = format!(
        "isingbond {} 1 {} {}",
        states.len(),
        show_table(&table),
        edges.iter().map(|((a, b), j)| format!("{}-{}:{}", a, b, rat(*j))).collect::<Vec<_>>().join(",")
    );
    let mut oracle = judge(r, &table);
    if n_bonds != edges.len() {
        oracle = Some(Err(format!("{}: n_bonds() = {} for {} edges", tag, n_bonds, edges.len())));
    }
    if let Some(Err(e)) = &oracle {
        oracle = Some(Err(format!("{} (edges {:?}): {}", tag, edges, e)));
    }
    let nt = matches!(oracle, Some(Ok(())));
    emit(nt, &input, &format!("{} {}", n_bonds, show_out(r)), oracle.or(Some(Ok(()))));
}

fn mode_isingbond(a: &Args) {
    let mut g = SplitMix64::new(a.seed ^ 0x2015);
    let cases = if a.thorough { 240 } else { 48 };
    let mut off01 = 0usize;
    for ci in 0..cases {
        // every twelfth case: more than 64 sites, a sparse set of bonds mostly on sites >= 64 (few observables, few samples)
        let wide = ci % 12 == 11;
        let nvars = if wide { g.range(66, 110) as usize } else { g.range(3, 5) as usize };
        let edges = if wide {
            let hi = |g: &mut SplitMix64| 64 + g.below((nvars - 64) as u64) as usize;
            let mut ps = vec![(63usize, 64usize), (nvars - 1, nvars - 2), (g.below(60) as usize, hi(&mut g)), (0, 1)];
            for _ in 0..g.range(1, 3) {
                let (x, y) = (hi(&mut g), hi(&mut g));
                if x != y {
                    ps.push((x, y));
                }
            }
            stat("wide_isingbond_cases", 1);
            ps.into_iter().map(|ab| (ab, *g.pick(&[-1.0, 0.5, 1.0, -0.25, 0.0]))).collect()
        } else {
            gen_bond_graph(&mut g, nvars)
        };
        if edges.iter().any(|((a, b), _)| a.max(b) > &1) {
            off01 += 1;
        }
        let tr = g.range(4, 10) as f64 / 4.0;
        let f = g.range(1, 3) as usize;
        let l = if wide { *g.pick(&LENS_QUICK[4..10]) } else { *g.pick(&LENS_QUICK[6..18]) };
        let t = l * f + g.below(f as u64) as usize;
        if ci % 4 != 3 {
            let beta = *g.pick(&[0.25, 0.5, 1.0]);
            let mut q = IsingQ::new_with_rng(edges.clone(), tr, 0.0, 4, SplitMix64::new(g.next()), None);
            q.timesteps(10, beta);
            let mut q2 = q.clone();
            let nb = q.n_bonds();
            match catch(|| q.calculate_bond_autocorrelation(t, beta, Some(f))) {
                Err(p) => emit(false, &format!("isingbond {} 1 - -", l), "panic", Some(Err(format!("Ising bond helper panicked: {}", p)))),
                Ok(r) => {
                    let (states, _) = q2.timesteps_sample(t, beta, Some(f));
                    emit_isingbond("Ising sampler", nb, &edges, &r, &states);
                }
            }
        } else {
            // tempering bond helper; slot i has |J| scaled by (4 + i)/4 (same signs)
            let nrep = g.range(2, 3) as usize;
            let mut tc: DefaultTemperingContainer<SplitMix64, SplitMix64> = TemperingContainer::new(SplitMix64::new(g.next()));
            for i in 0..nrep {
                let e: Vec<((usize, usize), f64)> = edges.iter().map(|(ab, j)| (*ab, j * (4 + i) as f64 / 4.0)).collect();
                let q = IsingQ::new_with_rng(e, tr, 0.0, 4, SplitMix64::new(g.next()), None);
                tc.add_qmc_stepper(q, [0.25, 0.5, 1.0][i % 3]).unwrap();
            }
            tc.timesteps(5);
            let mut tc2 = tc.clone();
            let s = g.range(1, 5) as usize;
            let nbs: Vec<usize> = tc.graph_ref().iter().map(|(q, _)| q.n_bonds()).collect();
            match catch(|| tc.calculate_bond_autocorrelation(t, Some(s), Some(f))) {
                Err(p) => emit(false, &format!("isingbond {} 1 - -", l), "panic", Some(Err(format!("tempering bond helper panicked: {}", p)))),
                Ok(r) => {
                    let ref_run = tc2.parallel_timesteps_sample(t, s, f);
                    for i in 0..nrep {
                        emit_isingbond("Ising replicas", nbs[i], &edges, &r[i], &ref_run[i].0);
                    }
                }
            }
        }
    }
    stat("isingbond_graphs_with_edge_off_vars01", off01);
}

fn mode_edge(_a: &Args) {
    // no sample at all (f > T): fft_autocorrelation indexes samples[0]
    run_custom(3, Some(5), &[vec![1.0], vec![2.0], vec![0.5]]);
    // a constant column: 0/0
    run_custom(4, Some(1), &[vec![1.0, 2.0], vec![1.0, 3.0], vec![1.0, 2.5], vec![1.0, 0.0]]);
    // a single sample: every column is constant
    run_custom(1, Some(1), &[vec![1.0, 2.0]]);
    // zero observables
    run_custom(3, Some(1), &[vec![], vec![], vec![]]);
}

fn main() {
    quiet_panics();
    let a = args();
    let all = a.mode == "all";
    for m in ["custom", "vars", "prod"] {
        if all || a.mode == m {
            mode_scripted(&a, m);
        }
    }
    if all || a.mode == "temper" {
        mode_temper(&a);
        mode_temper_spin(&a);
    }
    if all || a.mode == "real" {
        mode_real(&a);
    }
    if all || a.mode == "genbond" {
        mode_genbond(&a);
    }
    if all || a.mode == "isingbond" {
        mode_isingbond(&a);
    }
    if all || a.mode == "edge" {
        mode_edge(&a);
    }
}
