//! C09 — the cluster update is weight-preserving and reversible.
//!
//! Builds valid operator strings two ways (synthetic world-line configurations installed with
//! `FastOps::new_from_ops`; equilibrium strings from real Ising / generic runs) and applies the
//! real `flip_each_cluster_rng` / `flip_each_cluster_ising_symmetry_rng` / `single_cluster_step` /
//! `Qmc::cluster_update` under scripted RNGs. Every case prints (before, after, draws) for the Lean
//! decider; the oracle column evaluates the property directly on the real code (model-independent).

use qmc::sse::fast_ops::*;
use qmc::sse::*;
use rand::{Error, RngCore};
use std::cell::RefCell;
use std::collections::BTreeMap;
use std::rc::Rc;
use vh::*;

const HALF: u64 = 1u64 << 63;

/// An RNG handle whose script can be changed while a sampler owns it.
#[derive(Clone, Debug)]
struct SharedRng(Rc<RefCell<RecRng>>);
impl SharedRng {
    fn new(seed: u64) -> Self {
        SharedRng(Rc::new(RefCell::new(RecRng::new(seed))))
    }
    fn set_script(&self, script: Vec<u64>) {
        let mut r = self.0.borrow_mut();
        r.script = script;
        r.pos = 0;
        r.log.clear();
    }
    fn take_log(&self) -> Vec<u64> {
        let mut r = self.0.borrow_mut();
        r.script.clear();
        r.pos = 0;
        r.take_log()
    }
}
impl RngCore for SharedRng {
    fn next_u32(&mut self) -> u32 {
        self.0.borrow_mut().next_u32()
    }
    fn next_u64(&mut self) -> u64 {
        self.0.borrow_mut().next_u64()
    }
    fn fill_bytes(&mut self, dest: &mut [u8]) {
        self.0.borrow_mut().fill_bytes(dest)
    }
    fn try_fill_bytes(&mut self, dest: &mut [u8]) -> Result<(), Error> {
        self.0.borrow_mut().try_fill_bytes(dest)
    }
}

// ---------------------------------------------------------------------------------------------
// snapshots and the model-independent oracle
// ---------------------------------------------------------------------------------------------

#[derive(Clone, Debug, PartialEq)]
struct OpRec {
    bond: usize,
    vars: Vec<usize>,
    ins: Vec<bool>,
    outs: Vec<bool>,
    diag: bool,
    constant: bool,
}

type Snap = Vec<Option<OpRec>>;

fn snap(m: &FastOps) -> Snap {
    (0..m.get_cutoff())
        .map(|p| {
            m.get_pth(p).map(|op| OpRec {
                bond: op.get_bond(),
                vars: op.get_vars().to_vec(),
                ins: op.get_inputs().to_vec(),
                outs: op.get_outputs().to_vec(),
                diag: op.is_diagonal(),
                constant: op.is_constant(),
            })
        })
        .collect()
}

fn build(nvars: usize, s: &Snap) -> FastOps {
    let ops = s.iter().enumerate().filter_map(|(p, o)| {
        o.as_ref().map(|o| {
            let op = if o.diag {
                FastOp::diagonal(o.vars.clone(), o.bond, o.ins.clone(), o.constant)
            } else {
                FastOp::offdiagonal(o.vars.clone(), o.bond, o.ins.clone(), o.outs.clone(), o.constant)
            };
            (p, op)
        })
    });
    let mut m = FastOps::new_from_ops(nvars, ops);
    if m.get_cutoff() < s.len() {
        m.set_cutoff(s.len());
    }
    m
}

/// exact product of dyadic weights: (number of zero factors, prime → exponent)
fn factor_into(x: f64, acc: &mut (usize, BTreeMap<u64, i64>)) {
    if x == 0.0 {
        acc.0 += 1;
        return;
    }
    assert!(x > 0.0 && x.is_finite());
    let mut y = x;
    let mut e2 = 0i64;
    while y.fract() != 0.0 {
        y *= 2.0;
        e2 -= 1;
        assert!(e2 > -80);
    }
    let mut n = y as u64;
    assert!(n as f64 == y);
    let mut d = 2u64;
    while n > 1 {
        if d * d > n {
            *acc.1.entry(n).or_insert(0) += 1;
            break;
        }
        while n % d == 0 {
            *acc.1.entry(d).or_insert(0) += 1;
            n /= d;
        }
        d += 1;
    }
    if e2 != 0 {
        *acc.1.entry(2).or_insert(0) += e2;
    }
    acc.1.retain(|_, v| *v != 0);
}

fn weight(bonds: &[TableBond], o: &OpRec) -> f64 {
    bonds[o.bond].mat[bit_index(o.outs.iter().chain(o.ins.iter()))]
}

fn wprod(bonds: &[TableBond], s: &Snap) -> (usize, BTreeMap<u64, i64>) {
    let mut acc = (0usize, BTreeMap::new());
    for o in s.iter().flatten() {
        factor_into(weight(bonds, o), &mut acc);
    }
    acc
}

/// One instance: a valid string, its Hamiltonian as tables, and the bonds whose ops have flip
/// weight 0 (closure returns 0.0 for them; empty = Ising-symmetric call without closure).
#[derive(Clone)]
struct Inst {
    nvars: usize,
    state: Vec<bool>,
    man: FastOps,
    bonds: Vec<TableBond>,
    frozen: Vec<usize>,
    origin: &'static str,
}

/// The real cluster update through the trait method (closure iff `frozen` is non-empty or `force_closure`).
fn run_flip(inst: &Inst, rng: &mut RecRng, force_closure: bool) -> Result<(Vec<bool>, FastOps, usize), String> {
    let mut man = inst.man.clone();
    let mut state = inst.state.clone();
    let frozen = inst.frozen.clone();
    let r = catch(|| {
        if frozen.is_empty() && !force_closure {
            man.flip_each_cluster_ising_symmetry_rng(0.5, rng, &mut state)
        } else {
            man.flip_each_cluster_rng(
                0.5,
                rng,
                &mut state,
                Some(|node: &FastOpNode| -> f64 {
                    if frozen.contains(&node.get_op_ref().get_bond()) {
                        0.0
                    } else {
                        1.0
                    }
                }),
            )
        }
    })?;
    Ok((state, man, r))
}

struct Outcome {
    state: Vec<bool>,
    man: FastOps,
    ret: usize,
    draws: Vec<u64>,
}

fn has_ops(s: &Snap, v: usize) -> bool {
    s.iter().flatten().any(|o| o.vars.contains(&v))
}

/// The property evaluated on the real before/after pair, no model involved.
fn oracle(inst: &Inst, before: &Snap, out: &Outcome, ret2: Option<usize>, idle_may_change: bool, all_reject: bool) -> Result<(), String> {
    let after = snap(&out.man);
    if after.len() != before.len() {
        return Err(format!("cutoff changed {} -> {}", before.len(), after.len()));
    }
    for (p, (b, a)) in before.iter().zip(after.iter()).enumerate() {
        match (b, a) {
            (None, None) => {}
            (Some(b), Some(a)) => {
                if b.bond != a.bond || b.vars != a.vars || b.constant != a.constant {
                    return Err(format!("op at p={} changed bond/vars/constant", p));
                }
                if a.ins.len() != b.ins.len() || a.outs.len() != b.outs.len() {
                    return Err(format!("op at p={} changed arity", p));
                }
                if inst.frozen.contains(&b.bond) && (a.ins != b.ins || a.outs != b.outs) {
                    return Err(format!("op with flip weight 0 (bond {}) at p={} was flipped", b.bond, p));
                }
                if a.diag != (a.ins == a.outs) {
                    return Err(format!("op at p={}: tag diagonal={} but ins==outs is {}", p, a.diag, a.ins == a.outs));
                }
            }
            _ => return Err(format!("slot p={} changed occupancy", p)),
        }
    }
    if out.man.get_n() != inst.man.get_n() {
        return Err("operator count changed".into());
    }
    let (wb, wa) = (wprod(&inst.bonds, before), wprod(&inst.bonds, &after));
    if wb != wa {
        return Err(format!("product of matrix elements changed: {:?} -> {:?}", wb, wa));
    }
    match propagate_check(&out.man, &out.state) {
        Ok(s) if s == out.state => {}
        Ok(_) => return Err("after: propagated state does not return to state at p=0".into()),
        Err(p) => return Err(format!("after: op at p={} does not meet its inputs", p)),
    }
    if !idle_may_change {
        for v in 0..inst.nvars {
            if !has_ops(before, v) && out.state[v] != inst.state[v] {
                return Err(format!("variable {} without ops changed", v));
            }
        }
    }
    if let Some(r2) = ret2 {
        if r2 != out.ret {
            return Err(format!("re-decomposition of the result finds {} clusters, before {}", r2, out.ret));
        }
    }
    if all_reject {
        if after != *before || (!idle_may_change && out.state != inst.state) {
            return Err("all draws rejected but the configuration changed".into());
        }
    }
    if inst.man.get_n() == 0 && out.ret != 0 {
        return Err("empty string: non-zero cluster count".into());
    }
    Ok(())
}

fn show_state_slots(state: &[bool], m: &FastOps) -> String {
    format!("{} {}", bits(state), show_slots(m))
}

fn reject_words(g: &mut SplitMix64, n: usize) -> Vec<u64> {
    (0..n).map(|_| g.next() | HALF).collect()
}

/// count found by decomposing `man` again (all draws rejected; nothing changes)
fn recount(inst: &Inst, state: &[bool], man: &FastOps, g: &mut SplitMix64) -> Result<usize, String> {
    let i2 = Inst { state: state.to_vec(), man: man.clone(), ..inst.clone() };
    let mut rng = RecRng::scripted(reject_words(g, 4 * man.get_n() + 8), 1);
    let (_, _, r) = run_flip(&i2, &mut rng, false)?;
    if rng.pos > rng.script.len() {
        return Err("recount drew more words than 4n+8".into());
    }
    Ok(r)
}

fn emit_move(mode: &str, inst: &Inst, out: &Outcome, ret2: Result<usize, String>, idle_may_change: bool, all_reject: bool) {
    let before = snap(&inst.man);
    let mut orc = oracle(inst, &before, out, ret2.as_ref().ok().cloned(), idle_may_change, all_reject);
    if let (Ok(()), Err(e)) = (&orc, &ret2) {
        orc = Err(format!("re-applying on the result failed: {}", e));
    }
    if orc.is_ok() && mode == "flip" && inst.man.get_n() > 0 && out.draws.len() != out.ret {
        orc = Err(format!("{} draws for {} clusters", out.draws.len(), out.ret));
    }
    let input = format!(
        "move {} {} {} {} {} {}",
        mode,
        list(&inst.frozen),
        show_table_ham(&inst.bonds),
        show_state_slots(&inst.state, &inst.man),
        show_state_slots(&out.state, &out.man),
        list(&out.draws)
    );
    let r2 = ret2.unwrap_or(usize::MAX);
    let output = format!("1 {} {} 1 1 1 1 1 1 ok", out.ret, r2);
    let changed = snap(&out.man) != before;
    stat(&format!("{}.{}.{}", inst.origin, mode, if changed { "changed" } else { "unchanged" }), 1);
    emit(inst.man.get_n() > 0, &input, &output, Some(orc.clone()));
    // the same run against the exact model (`clusterUpdate`): output configuration, returned count and
    // draw verdict must be identical (which draw controls which cluster, for every script)
    let input = format!(
        "exact {} {} {} {}",
        mode,
        list(&inst.frozen),
        show_state_slots(&inst.state, &inst.man),
        list(&out.draws)
    );
    let output = format!("{} {} ok 1", show_state_slots(&out.state, &out.man), out.ret);
    stat(&format!("exact.{}.{}", mode, if out.ret >= 2 { "2+clusters" } else { "0-1clusters" }), 1);
    emit(out.ret >= 2 && changed, &input, &output, Some(orc));
}

fn emit_panic(mode: &str, inst: &Inst, script: &[u64], msg: &str) {
    let input = format!(
        "move {} {} {} {} {} {}",
        mode,
        list(&inst.frozen),
        show_table_ham(&inst.bonds),
        show_state_slots(&inst.state, &inst.man),
        show_state_slots(&inst.state, &inst.man),
        list(script)
    );
    emit(true, &input, "panic", Some(Err(format!("cluster update panicked: {}", msg))));
}

/// (a) random / biased scripts, (b) all-reject, (d) re-apply — direct trait call.
fn direct_cases(inst: &Inst, g: &mut SplitMix64, nrandom: usize) -> Option<usize> {
    let n = inst.man.get_n();
    // (b) all-reject
    let mut ncl = None;
    {
        let script = reject_words(g, 4 * n + 8);
        let mut rng = RecRng::scripted(script.clone(), g.next());
        match run_flip(inst, &mut rng, false) {
            Ok((state, man, ret)) => {
                let draws = rng.take_log();
                let ret2 = recount(inst, &state, &man, g);
                ncl = Some(ret);
                emit_move("flip", inst, &Outcome { state, man, ret, draws }, ret2, false, true);
            }
            Err(e) => emit_panic("flip", inst, &script, &e),
        }
    }
    // (a) random scripts (fallback words), all-accept, and a forced-closure run when nothing is frozen
    for k in 0..nrandom {
        let script: Vec<u64> = match k % 4 {
            1 => (0..4 * n + 8).map(|_| g.next() >> 1).collect(), // all accept
            2 => (0..4 * n + 8).map(|_| if g.chance(1, 4) { g.next() >> 1 } else { g.next() | HALF }).collect(),
            _ => vec![],
        };
        let mut rng = RecRng::scripted(script.clone(), g.next());
        match run_flip(inst, &mut rng, k % 4 == 3) {
            Ok((state, man, ret)) => {
                let draws = rng.take_log();
                let ret2 = recount(inst, &state, &man, g);
                emit_move("flip", inst, &Outcome { state, man, ret, draws }, ret2, false, false);
            }
            Err(e) => emit_panic("flip", inst, &script, &e),
        }
    }
    ncl
}

type RunOut = (Vec<bool>, FastOps, usize, usize);

/// (c) single-accept scripts: draw i just below ½, all others above. The harness-side oracle checks
/// the threshold from both sides: word 2^63 - 1 flips (unless the cluster has weight 0: then not
/// even word 0 flips), word 2^63 does not. `runner(script)` applies the real update to the instance
/// and returns (state, ops, returned count, words drawn); `extra` = draws after the cluster draws.
fn single_cases_with(
    inst: &Inst,
    ncl: usize,
    extra: usize,
    tag: &str,
    g: &mut SplitMix64,
    runner: &mut dyn FnMut(Vec<u64>) -> Result<RunOut, String>,
) {
    let before = snap(&inst.man);
    let mut afters = vec![];
    let mut orc: Result<(), String> = Ok(());
    let (mut k_flip, mut k_silent) = (0usize, 0usize);
    for i in 0..ncl {
        let mut run = |word: u64, g: &mut SplitMix64| -> Result<RunOut, String> {
            let mut script = reject_words(g, ncl + extra);
            script[i] = word;
            runner(script)
        };
        match run(HALF - 1, g) {
            Ok((s, m, r, pos)) => {
                let changed = snap(&m) != before || s != inst.state;
                if r != ncl || pos != ncl + extra {
                    orc = Err(format!("single-accept {}: count {} draws {} expected {}+{}", i, r, pos, ncl, extra));
                }
                let o = Outcome { state: s.clone(), man: m.clone(), ret: r, draws: vec![] };
                if let Err(e) = oracle(inst, &before, &o, None, false, false) {
                    orc = Err(format!("single-accept {}: {}", i, e));
                }
                if changed {
                    k_flip += 1;
                    // upper side of the threshold: exactly 2^63 must not flip
                    match run(HALF, g) {
                        Ok((s2, m2, _, _)) => {
                            if snap(&m2) != before || s2 != inst.state {
                                orc = Err(format!("draw {} = 2^63 flipped a cluster: threshold above 1/2", i));
                            }
                        }
                        Err(e) => orc = Err(e),
                    }
                } else {
                    k_silent += 1;
                    // weight-0 cluster: not even the smallest word may flip it
                    match run(0, g) {
                        Ok((s2, m2, _, _)) => {
                            if snap(&m2) != before || s2 != inst.state {
                                orc = Err(format!("draw {} = 2^63-1 did not flip but 0 did: threshold strictly between 0 and 1/2", i));
                            } else if inst.frozen.is_empty() {
                                orc = Err(format!("draw {} = 2^63-1 flipped nothing although no op has flip weight 0: threshold below 1/2", i));
                            }
                        }
                        Err(e) => orc = Err(e),
                    }
                }
                afters.push(show_state_slots(&s, &m));
            }
            Err(e) => {
                orc = Err(format!("single-accept {} panicked: {}", i, e));
                afters.push(show_state_slots(&inst.state, &inst.man));
            }
        }
    }
    let input = format!(
        "single {} {} {} {}",
        list(&inst.frozen),
        show_state_slots(&inst.state, &inst.man),
        ncl,
        if afters.is_empty() { String::new() } else { afters.join(" ") }
    );
    stat(&format!("{}.{}.clusters", inst.origin, tag), ncl);
    stat(&format!("{}.{}.weight0", inst.origin, tag), k_silent);
    emit(ncl > 1, input.trim_end(), &format!("bij {} {}", k_flip, k_silent), Some(orc));
}

fn single_cases(inst: &Inst, ncl: usize, g: &mut SplitMix64) {
    let mut runner = |script: Vec<u64>| -> Result<RunOut, String> {
        let mut rng = RecRng::scripted(script, 1);
        let (s, m, r) = run_flip(inst, &mut rng, false)?;
        Ok((s, m, r, rng.pos))
    };
    single_cases_with(inst, ncl, 0, "single", g, &mut runner);
}

// ---------------------------------------------------------------------------------------------
// synthetic strings
// ---------------------------------------------------------------------------------------------

fn dy(g: &mut SplitMix64) -> f64 {
    g.range(1, 16) as f64 / 8.0
}

/// flip-symmetric full matrix on k variables (entry idx == entry at complemented idx), all positive
fn sym_mat(g: &mut SplitMix64, k: usize) -> Vec<f64> {
    let n = 1usize << (2 * k);
    let mut m = vec![0.0; n];
    for i in 0..n {
        let j = n - 1 - i;
        if i <= j {
            let x = dy(g);
            m[i] = x;
            m[j] = x;
        }
    }
    m
}

#[derive(Clone, Copy, PartialEq, Debug)]
enum Cat {
    Idle,
    NoConst,
    OneConst,
    Many,
}

fn synthetic(g: &mut SplitMix64, thorough: bool) -> Inst {
    let nvars = if g.chance(1, 6) { g.range(1, 2) } else { g.range(3, if thorough { 9 } else { 6 }) } as usize;
    let l0 = if g.chance(1, 8) { g.range(0, 4) } else { g.range(5, if thorough { 150 } else { 40 }) } as usize;
    let use_frozen = g.chance(2, 5);
    let cats: Vec<Cat> = (0..nvars)
        .map(|_| match g.below(8) {
            0 => Cat::Idle,
            1 => Cat::NoConst,
            2 | 3 => Cat::OneConst,
            _ => Cat::Many,
        })
        .collect();
    let all_noconst = g.chance(1, 10);
    let cats: Vec<Cat> = if all_noconst {
        cats.iter().map(|c| if *c == Cat::Idle { Cat::Idle } else { Cat::NoConst }).collect()
    } else {
        cats
    };
    let live: Vec<usize> = (0..nvars).filter(|v| cats[*v] != Cat::Idle).collect();
    // bonds
    let mut bonds: Vec<TableBond> = vec![];
    let mut frozen = vec![];
    let mut pickable: Vec<usize> = vec![];
    if live.len() >= 2 {
        let nb = g.range(1, 5) as usize;
        for _ in 0..nb {
            let a = *g.pick(&live);
            let mut b = *g.pick(&live);
            while b == a {
                b = *g.pick(&live);
            }
            pickable.push(bonds.len());
            bonds.push(TableBond { vars: vec![a, b], constant: false, mat: sym_mat(g, 2) });
        }
        // a multi-edge: same pair again
        if g.coin() {
            let b0 = bonds[0].clone();
            pickable.push(bonds.len());
            bonds.push(TableBond { mat: sym_mat(g, 2), ..b0 });
        }
        // a constant two-variable bond: constant but NOT a cluster edge
        if g.chance(1, 3) {
            let a = *g.pick(&live);
            let mut b = *g.pick(&live);
            while b == a {
                b = *g.pick(&live);
            }
            pickable.push(bonds.len());
            bonds.push(TableBond { vars: vec![a, b], constant: true, mat: vec![dy(g); 16] });
        }
    }
    if live.len() >= 3 && g.chance(1, 3) {
        let mut vs = live.clone();
        while vs.len() > 3 {
            let i = g.below(vs.len() as u64) as usize;
            vs.remove(i);
        }
        pickable.push(bonds.len());
        bonds.push(TableBond { vars: vs, constant: false, mat: sym_mat(g, 3) });
    }
    // single-site symmetric non-constant bonds (cluster passes through)
    for &v in &live {
        if g.chance(1, 4) {
            pickable.push(bonds.len());
            bonds.push(TableBond { vars: vec![v], constant: false, mat: sym_mat(g, 1) });
        }
    }
    // single-site field bonds: not flip symmetric, flip weight 0
    if use_frozen {
        for &v in &live {
            if g.chance(1, 2) {
                pickable.push(bonds.len());
                frozen.push(bonds.len());
                let (a, b) = (dy(g), dy(g) + 2.0);
                bonds.push(TableBond { vars: vec![v], constant: false, mat: vec![a, 0.0, 0.0, b] });
            }
        }
    }
    // constant single-site bonds (the cluster edges)
    let mut const_bond: Vec<Option<usize>> = vec![None; nvars];
    for &v in &live {
        if cats[v] == Cat::Many || cats[v] == Cat::OneConst {
            const_bond[v] = Some(bonds.len());
            if cats[v] == Cat::Many {
                pickable.push(bonds.len());
            }
            bonds.push(TableBond { vars: vec![v], constant: true, mat: vec![dy(g); 4] });
        }
    }
    if bonds.is_empty() {
        // keep the table non-empty so that the encoding is uniform
        bonds.push(TableBond { vars: vec![0], constant: true, mat: vec![1.0; 4] });
    }
    let diag_only = |v: usize| cats[v] != Cat::Many;
    // walk
    let s0: Vec<bool> = (0..nvars).map(|_| g.coin()).collect();
    let mut s = s0.clone();
    let mut slots: Snap = vec![];
    let density = g.range(2, 4) as u64;
    for _ in 0..l0 {
        if pickable.is_empty() || !g.chance(density, 4) {
            slots.push(None);
            continue;
        }
        let b = *g.pick(&pickable);
        let tb = &bonds[b];
        let ins: Vec<bool> = tb.vars.iter().map(|v| s[*v]).collect();
        let is_field = frozen.contains(&b);
        let mut outs = ins.clone();
        if !is_field && g.chance(1, 2) {
            for (k, v) in tb.vars.iter().enumerate() {
                if !diag_only(*v) && g.coin() {
                    outs[k] = !outs[k];
                }
            }
        }
        for (k, v) in tb.vars.iter().enumerate() {
            s[*v] = outs[k];
        }
        let diag = ins == outs;
        slots.push(Some(OpRec { bond: b, vars: tb.vars.clone(), ins, outs, diag, constant: tb.constant }));
    }
    // exactly one constant op on OneConst variables (diagonal), at a random position
    for v in 0..nvars {
        if cats[v] == Cat::OneConst {
            let b = const_bond[v].unwrap();
            let p = g.below(slots.len() as u64 + 1) as usize;
            // value of v at time p: OneConst variables never change
            let val = s0[v];
            slots.insert(p, Some(OpRec { bond: b, vars: vec![v], ins: vec![val], outs: vec![val], diag: true, constant: true }));
        }
    }
    // close the world lines with constant off-diagonal single-site ops
    for v in 0..nvars {
        if s[v] != s0[v] {
            let b = const_bond[v].unwrap();
            slots.push(Some(OpRec { bond: b, vars: vec![v], ins: vec![s[v]], outs: vec![s0[v]], diag: false, constant: true }));
            s[v] = s0[v];
        }
    }
    for _ in 0..g.below(4) {
        slots.push(None);
    }
    // random rotation in imaginary time: ops wrap the boundary in every possible way
    let mut state = s0;
    if !slots.is_empty() {
        let r = g.below(slots.len() as u64) as usize;
        for o in slots.iter().take(r).flatten() {
            for (k, v) in o.vars.iter().enumerate() {
                state[*v] = o.outs[k];
            }
        }
        slots.rotate_left(r);
    }
    // FastOps drops trailing empties unless the cutoff is set; `build` does that
    let man = build(nvars, &slots);
    Inst { nvars, state, man, bonds, frozen, origin: "synthetic" }
}

/// Replace some multi-variable ops of the instance, through the public `mutate_ops`, by the same op on the REVERSED
/// variable list (bond = a reversed copy of the bond, matrix permuted accordingly, so weights are the same): what an RVB
/// sweep does on a graph with a reversed duplicate edge. Ops that are first / last on one of their world lines are
/// preferred (the boundary bookkeeping of the cluster update reads `op.get_vars()[relvar]` there).
fn reverse_some_ops(inst: &Inst, g: &mut SplitMix64) -> Option<Inst> {
    let before = snap(&inst.man);
    let multi: Vec<usize> = (0..before.len()).filter(|p| before[*p].as_ref().map_or(false, |o| o.vars.len() >= 2)).collect();
    if multi.is_empty() {
        return None;
    }
    // first and last op of every world line
    let mut pref: Vec<usize> = vec![];
    for v in 0..inst.nvars {
        let on_v: Vec<usize> = multi.iter().cloned().filter(|p| before[*p].as_ref().unwrap().vars.contains(&v)).collect();
        let all_v: Vec<usize> = (0..before.len()).filter(|p| before[*p].as_ref().map_or(false, |o| o.vars.contains(&v))).collect();
        if let (Some(f), Some(l)) = (all_v.first(), all_v.last()) {
            if on_v.contains(f) {
                pref.push(*f);
            }
            if on_v.contains(l) {
                pref.push(*l);
            }
        }
    }
    let mut chosen: Vec<usize> = vec![];
    for _ in 0..g.range(1, 3) {
        let p = if !pref.is_empty() && g.chance(3, 4) { *g.pick(&pref) } else { *g.pick(&multi) };
        if !chosen.contains(&p) {
            chosen.push(p);
        }
    }
    let mut bonds = inst.bonds.clone();
    let mut rev_of: BTreeMap<usize, usize> = BTreeMap::new();
    let mut man = inst.man.clone();
    for &p in &chosen {
        let o = before[p].as_ref().unwrap();
        let k = o.vars.len();
        let rb = *rev_of.entry(o.bond).or_insert_with(|| {
            let tb = &inst.bonds[o.bond];
            let mut mat = vec![0.0; tb.mat.len()];
            for outs in patterns(k) {
                for ins in patterns(k) {
                    let (ro, ri): (Vec<bool>, Vec<bool>) = (outs.iter().rev().cloned().collect(), ins.iter().rev().cloned().collect());
                    mat[bit_index(ro.iter().chain(ri.iter()))] = tb.mat[bit_index(outs.iter().chain(ins.iter()))];
                }
            }
            bonds.push(TableBond { vars: tb.vars.iter().rev().cloned().collect(), constant: tb.constant, mat });
            bonds.len() - 1
        });
        let vars: Vec<usize> = o.vars.iter().rev().cloned().collect();
        let ins: Vec<bool> = o.ins.iter().rev().cloned().collect();
        let outs: Vec<bool> = o.outs.iter().rev().cloned().collect();
        let (diag, constant) = (o.diag, o.constant);
        let cutoff = man.get_cutoff();
        man.mutate_ops(0, cutoff, (), |_, _op, q, _| {
            if q == p {
                let new_op = if diag {
                    FastOp::diagonal(vars.clone(), rb, ins.clone(), constant)
                } else {
                    FastOp::offdiagonal(vars.clone(), rb, ins.clone(), outs.clone(), constant)
                };
                (Some(Some(new_op)), ())
            } else {
                (None, ())
            }
        });
    }
    // the string as read back through get_pth must carry the reversed lists
    let after = snap(&man);
    for &p in &chosen {
        let (b, a) = (before[p].as_ref().unwrap(), after[p].as_ref().unwrap());
        assert!(a.vars.iter().rev().eq(b.vars.iter()), "mutate_ops did not install the reversed op at p={}", p);
    }
    stat("synthetic.reversed_ops", chosen.len());
    Some(Inst { man, bonds, origin: "synthetic_reversed", ..inst.clone() })
}

// ---------------------------------------------------------------------------------------------
// large strings: the per-slot tables of the cluster update come from the container's buffer pool and are sized
// with `resize_each(last_p + 1, …)` on the assumption that a recycled buffer is empty; strings whose last occupied
// slot lies beyond 65 536, several cluster updates in a row on the SAME container
// ---------------------------------------------------------------------------------------------

fn large_inst(g: &mut SplitMix64) -> Inst {
    let nvars = g.range(4, 6) as usize;
    let mut bonds: Vec<TableBond> = vec![];
    for v in 0..nvars - 1 {
        bonds.push(TableBond { vars: vec![v, v + 1], constant: false, mat: sym_mat(g, 2) });
    }
    let first_const = bonds.len();
    for v in 0..nvars {
        bonds.push(TableBond { vars: vec![v], constant: true, mat: vec![dy(g); 4] });
    }
    let l = 70_000 + g.below(3_000) as usize;
    let nops = 2_000usize;
    let mut positions = std::collections::BTreeSet::new();
    while positions.len() < nops {
        positions.insert(g.below((l - nvars - 2) as u64) as usize);
    }
    let s0: Vec<bool> = (0..nvars).map(|_| g.coin()).collect();
    let mut s = s0.clone();
    let mut slots: Snap = vec![None; l];
    for p in positions {
        let b = g.below(bonds.len() as u64) as usize;
        let tb = &bonds[b];
        let ins: Vec<bool> = tb.vars.iter().map(|v| s[*v]).collect();
        let mut outs = ins.clone();
        if tb.constant && g.coin() {
            outs[0] = !outs[0];
        }
        for (k, v) in tb.vars.iter().enumerate() {
            s[*v] = outs[k];
        }
        let diag = ins == outs;
        slots[p] = Some(OpRec { bond: b, vars: tb.vars.clone(), ins, outs, diag, constant: tb.constant });
    }
    // close the world lines, and occupy the very last slot
    for v in 0..nvars {
        if s[v] != s0[v] {
            slots[l - nvars - 2 + v] =
                Some(OpRec { bond: first_const + v, vars: vec![v], ins: vec![s[v]], outs: vec![s0[v]], diag: false, constant: true });
            s[v] = s0[v];
        }
    }
    slots[l - 1] = Some(OpRec { bond: first_const, vars: vec![0], ins: vec![s0[0]], outs: vec![s0[0]], diag: true, constant: true });
    let man = build(nvars, &slots);
    Inst { nvars, state: s0, man, bonds, frozen: vec![], origin: "large" }
}

/// Several cluster updates in a row on the same container (all-reject, all-accept, random, all-reject): the usual
/// oracle after each, and the cluster count must be the same every time (it reads only the skeleton).
/// Oracle only: the strings are too long for the line protocol / the Lean driver (the driver echoes `same`).
fn large_case(g: &mut SplitMix64) {
    let inst = large_inst(g);
    let mut man = inst.man.clone();
    let mut state = inst.state.clone();
    let n = man.get_n();
    let mut orc: Result<(), String> = Ok(());
    let mut counts: Vec<usize> = vec![];
    let last_p = (0..man.get_cutoff()).rev().find(|p| man.get_pth(*p).is_some()).unwrap_or(0);
    for (round, kind) in ["reject", "accept", "random", "reject", "accept"].iter().enumerate() {
        let cur = Inst { state: state.clone(), man: man.clone(), ..inst.clone() };
        let before = snap(&cur.man);
        let script: Vec<u64> = match *kind {
            "reject" => reject_words(g, 4 * n + 8),
            "accept" => (0..4 * n + 8).map(|_| g.next() >> 1).collect(),
            _ => vec![],
        };
        let mut rng = RecRng::scripted(script, g.next());
        let res = {
            let (man, state, rng) = (&mut man, &mut state, &mut rng);
            catch(|| man.flip_each_cluster_ising_symmetry_rng(0.5, rng, state))
        };
        match res {
            Err(e) => {
                orc = Err(format!("cluster update number {} ({}) on the same container panicked: {}", round + 1, kind, e));
                break;
            }
            Ok(ret) => {
                let draws = rng.take_log();
                let out = Outcome { state: state.clone(), man: man.clone(), ret, draws };
                if let Err(e) = oracle(&cur, &before, &out, None, false, *kind == "reject") {
                    orc = Err(format!("cluster update number {} ({}) on the same container: {}", round + 1, kind, e));
                    break;
                }
                if out.draws.len() != ret {
                    orc = Err(format!("cluster update number {} ({}): {} draws for {} clusters", round + 1, kind, out.draws.len(), ret));
                    break;
                }
                counts.push(ret);
            }
        }
    }
    if orc.is_ok() && counts.windows(2).any(|w| w[0] != w[1]) {
        orc = Err(format!("cluster counts differ between repetitions on the same skeleton: {:?}", counts));
    }
    if orc.is_ok() && counts.first().map_or(true, |c| *c < 2) {
        orc = Err(format!("large scenario degenerate: cluster counts {:?}", counts));
    }
    stat("large.cases", 1);
    emit(
        true,
        &format!("large nvars={},cutoff={},last_p={},n={},clusters={}", inst.nvars, inst.man.get_cutoff(), last_p, n, counts.first().cloned().unwrap_or(0)),
        "same",
        Some(orc),
    );
}

// ---------------------------------------------------------------------------------------------
// equilibrium strings from the real samplers
// ---------------------------------------------------------------------------------------------

type G = DefaultQmcIsingGraph<SharedRng>;

fn patterns(n: usize) -> Vec<Vec<bool>> {
    (0..(1usize << n))
        .map(|i| (0..n).map(|b| (i >> (n - 1 - b)) & 1 == 1).collect())
        .collect()
}

/// tables of the real Ising matrix elements (`QmcIsingGraph::hamiltonian` on all patterns)
fn ising_tables(gr: &G) -> Vec<TableBond> {
    let info = gr.make_haminfo();
    let ne = gr.get_edges().len();
    let nv = gr.get_nvars();
    let mut bonds = vec![];
    for b in 0..ne + 2 * nv {
        let (vars, constant): (Vec<usize>, bool) = if b < ne {
            (gr.get_edges()[b].0.clone(), false)
        } else if b < ne + nv {
            (vec![b - ne], true)
        } else {
            (vec![b - ne - nv], false)
        };
        let k = vars.len();
        let mut mat = vec![0.0; 1 << (2 * k)];
        for outs in patterns(k) {
            for ins in patterns(k) {
                mat[bit_index(outs.iter().chain(ins.iter()))] = G::hamiltonian(&info, &vars, b, &ins, &outs);
            }
        }
        bonds.push(TableBond { vars, constant, mat });
    }
    bonds
}

struct IsingSetup {
    gr: G,
    rng: SharedRng,
    /// the graph holds a reversed duplicate edge ((a,b,J) and (b,a,-J')): RVB sweeps rotate bond ops between the two
    /// copies, i.e. replace an op in place by one on the same spins in the opposite order
    rvb: bool,
}

fn ising_graph(g: &mut SplitMix64, thorough: bool) -> (IsingSetup, f64) {
    let nv = g.range(2, if thorough { 8 } else { 5 }) as usize;
    let mut edges: Vec<((usize, usize), f64)> = vec![];
    let ne = g.range(1, nv as i64 + 2) as usize;
    for _ in 0..ne {
        let a = g.below(nv as u64) as usize;
        let mut b = g.below(nv as u64) as usize;
        while b == a {
            b = g.below(nv as u64) as usize;
        }
        let j = *g.pick(&[-1.0, -0.5, 0.5, 1.0, 0.25]);
        edges.push(((a, b), j));
    }
    if g.coin() {
        let e = edges[0];
        edges.push(e); // multi-edge
    }
    let rvb = g.chance(2, 5);
    if rvb {
        // reversed duplicates of opposite sign (same magnitude: the RVB rotation needs |J| equal)
        let k = g.range(1, 2) as usize;
        for i in 0..k.min(edges.len()) {
            let ((a, b), j) = edges[i];
            edges.push(((b, a), -j));
        }
    }
    let transverse = *g.pick(&[0.5, 1.0, 0.25, 2.0]);
    let longitudinal = *g.pick(&[0.0, 0.0, 0.5, -0.5, 1.0, -0.25]);
    let beta = *g.pick(&[0.25, 0.5, 1.0, 2.0, 3.0, 4.0, 6.0]);
    let rng = SharedRng::new(g.next());
    let gr = G::new_with_rng(edges, transverse, longitudinal, 4, rng.clone(), None);
    (IsingSetup { gr, rng, rvb }, beta)
}

fn ising_inst(s: &IsingSetup) -> Inst {
    let ne = s.gr.get_edges().len();
    let nv = s.gr.get_nvars();
    let frozen: Vec<usize> = if s.gr.get_longitudinal_field().abs() > f64::EPSILON {
        (ne + nv..ne + 2 * nv).collect()
    } else {
        vec![]
    };
    Inst {
        nvars: nv,
        state: s.gr.clone_state(),
        man: s.gr.get_manager_ref().clone(),
        bonds: ising_tables(&s.gr),
        frozen,
        origin: if s.gr.get_longitudinal_field().abs() > f64::EPSILON { "ising_h" } else { "ising_h0" },
    }
}

/// `single_cluster_step` on the real graph under a script (cluster draws, then the free-spin refresh)
fn step_case(s: &mut IsingSetup, script: Vec<u64>, g: &mut SplitMix64, all_reject: bool) {
    let inst = ising_inst(s);
    let before = snap(&inst.man);
    s.rng.set_script(script.clone());
    let gr = &mut s.gr;
    match catch(|| gr.single_cluster_step()) {
        Ok(ret) => {
            let draws = s.rng.take_log();
            let state = s.gr.clone_state();
            let man = s.gr.get_manager_ref().clone();
            let ret2 = recount(&inst, &state, &man, g);
            let out = Outcome { state, man, ret, draws };
            // draws = clusters + idle variables
            let idle = (0..inst.nvars).filter(|v| !has_ops(&before, *v)).count();
            let mut r2 = ret2;
            if out.draws.len() != (if inst.man.get_n() > 0 { ret } else { 0 }) + idle {
                r2 = Err(format!("{} draws for {} clusters + {} idle variables", out.draws.len(), ret, idle));
            }
            emit_move("step", &inst, &out, r2, true, all_reject);
        }
        Err(e) => {
            s.rng.take_log();
            emit_panic("step", &inst, &script, &e);
        }
    }
}

/// single-accept scripts through `single_cluster_step` itself (the closure and the 0.5 in
/// qmc_ising.rs); the free-spin refresh that follows is undone before the comparison.
fn step_single_cases(s: &IsingSetup, ncl: usize, g: &mut SplitMix64) {
    let inst = ising_inst(s);
    let before = snap(&inst.man);
    let idle: Vec<usize> = (0..inst.nvars).filter(|v| !has_ops(&before, *v)).collect();
    let st0 = inst.state.clone();
    let mut runner = |script: Vec<u64>| -> Result<RunOut, String> {
        let mut gr = s.gr.clone();
        s.rng.set_script(script);
        let r = catch(|| gr.single_cluster_step());
        let log = s.rng.take_log();
        let r = r?;
        let mut state = gr.clone_state();
        for v in &idle {
            state[*v] = st0[*v];
        }
        Ok((state, gr.get_manager_ref().clone(), r, log.len()))
    };
    single_cases_with(&inst, ncl, idle.len(), "stepsingle", g, &mut runner);
}

/// `timestep` duplicates the cluster call of `single_cluster_step` (its own closure and 0.5):
/// two identical graphs, same script; one runs `timestep`, the other `single_diagonal_step;
/// single_cluster_step`. The cluster words of the script sit on the thresholds (2^63-1, 2^63, 0, max).
fn lockstep_case(g: &mut SplitMix64, thorough: bool) {
    let seed = g.next();
    let mut g1 = SplitMix64::new(seed);
    let mut g2 = SplitMix64::new(seed);
    let (mut a, beta) = ising_graph(&mut g1, thorough);
    let (mut b, _) = ising_graph(&mut g2, thorough);
    let mut orc: Result<(), String> = Ok(());
    let mut desc = String::new();
    let rounds = if thorough { 12 } else { 6 };
    for round in 0..rounds {
        // probe: how many words does the diagonal sweep take from here? (on a clone of b)
        let d = {
            let mut probe = b.gr.clone();
            b.rng.set_script(vec![]);
            // the probe shares b's rng handle: remember and restore the fallback position
            let saved = b.rng.0.borrow().clone();
            if let Err(e) = catch(|| probe.single_diagonal_step(beta)) {
                orc = Err(format!("single_diagonal_step panicked: {}", e));
            }
            let d = b.rng.0.borrow().log.len();
            *b.rng.0.borrow_mut() = saved;
            d
        };
        let prefix: Vec<u64> = {
            // the words the sweep will see: the next `d` fallback words
            let mut f = b.rng.0.borrow().fallback.clone();
            (0..d).map(|_| f.next()).collect()
        };
        let edge_words = [HALF - 1, HALF, 0, u64::MAX, HALF - 1, g.next()];
        let mut script = prefix;
        for _ in 0..64 {
            script.push(*g.pick(&edge_words));
        }
        a.rng.set_script(script.clone());
        b.rng.set_script(script.clone());
        // keep the fallback streams aligned with what the script replaced
        for r in [&a.rng, &b.rng] {
            let mut rr = r.0.borrow_mut();
            for _ in 0..d {
                rr.fallback.next();
            }
        }
        let ra = catch(|| {
            a.gr.timestep(beta);
        });
        let rb = catch(|| {
            b.gr.single_diagonal_step(beta);
            b.gr.single_cluster_step();
        });
        let (la, lb) = (a.rng.take_log(), b.rng.take_log());
        let same = ra.is_ok()
            && rb.is_ok()
            && la == lb
            && a.gr.clone_state() == b.gr.clone_state()
            && snap(a.gr.get_manager_ref()) == snap(b.gr.get_manager_ref());
        desc = format!(
            "h={} beta={} round={} n={} draws={}",
            rat(b.gr.get_longitudinal_field()),
            rat(beta),
            round,
            b.gr.get_manager_ref().get_n(),
            lb.len()
        );
        if !same {
            orc = Err(format!(
                "timestep and single_diagonal_step;single_cluster_step diverge under the same script ({}): draws {} vs {}, states {} vs {}",
                desc,
                la.len(),
                lb.len(),
                bits(&a.gr.clone_state()),
                bits(&b.gr.clone_state())
            ));
            break;
        }
        if la.len() > script.len() {
            // fallback words were used beyond the script: re-align is automatic (both consumed equally)
        }
    }
    stat("lockstep.rounds", rounds);
    emit(true, &format!("lock {} {}", seed, desc.replace(' ', ",")), "same", Some(orc));
}

fn ising_runs(g: &mut SplitMix64, thorough: bool, ngraphs: usize) {
    for _ in 0..ngraphs {
        let (mut s, beta) = ising_graph(g, thorough);
        let rounds = if thorough { 6 } else { 3 };
        for round in 0..rounds {
            let warm = if round == 0 { g.range(0, 6) } else { g.range(1, 8) };
            let diag_last = g.coin();
            let use_rvb = s.rvb;
            let rvb_last = use_rvb && g.chance(2, 3);
            let warmed = {
                let gr = &mut s.gr;
                catch(|| {
                    if use_rvb {
                        gr.set_run_rvb(true);
                    }
                    for _ in 0..warm {
                        gr.timestep(beta);
                    }
                    // leave the string right after a diagonal sweep half of the time
                    if diag_last {
                        gr.single_diagonal_step(beta);
                    }
                    // … or right after RVB sweeps (bond ops rotated onto the reversed copy of their edge)
                    if rvb_last {
                        gr.single_rvb_sweep(None);
                        gr.single_rvb_sweep(None);
                    }
                })
            };
            if use_rvb {
                stat("ising.rvb_warmups", 1);
            }
            s.rng.take_log();
            if let Err(e) = warmed {
                // e.g. debug_assert!(self.verify()) inside timestep
                emit(true, &format!("lock warmup-ising,round={}", round), "same", Some(Err(format!("sampler panicked while producing an equilibrium string: {}", e))));
                break;
            }
            let inst = ising_inst(&s);
            stat("ising.n_ops", inst.man.get_n());
            // direct trait calls on the extracted string (same closure semantics as qmc_ising.rs)
            let ncl = direct_cases(&inst, g, 3);
            if let Some(ncl) = ncl {
                if ncl <= (if thorough { 60 } else { 24 }) {
                    single_cases(&inst, ncl, g);
                    step_single_cases(&s, ncl, g);
                }
            }
            // the real entry point: all-reject, then random (state evolves)
            let n = inst.man.get_n();
            let mut clone = IsingSetup { gr: s.gr.clone(), rng: s.rng.clone(), rvb: s.rvb };
            step_case(&mut clone, reject_words(g, 4 * n + 2 * inst.nvars + 8), g, true);
            step_case(&mut s, vec![], g, false);
            let n = s.gr.get_manager_ref().get_n();
            let sc: Vec<u64> = (0..4 * n + 2 * inst.nvars + 8).map(|_| g.next() >> 1).collect();
            step_case(&mut s, sc, g, false);
        }
    }
}

// ---------------------------------------------------------------------------------------------
// the gate of the generic sampler: `Qmc::cluster_update` must refuse (and `timestep` must skip the
// cluster update) as soon as ANY registered term breaks the Ising symmetry, whatever the order in
// which the terms were added (C09, last clause: clusters holding a symmetry-breaking op are never flipped)
// ---------------------------------------------------------------------------------------------

#[derive(Clone, Debug)]
struct Term {
    /// 0 = make_interaction, 1 = make_interaction_and_offset, 2 = make_diagonal_interaction,
    /// 3 = make_diagonal_interaction_and_offset
    ctor: u8,
    vars: Vec<usize>,
    mat: Vec<f64>,
    asym: bool,
    edge: bool,
}

fn show_term(t: &Term) -> String {
    let m: Vec<String> = t.mat.iter().map(|x| rat(*x)).collect();
    format!("{}:{}:{}", if t.ctor < 2 { "F" } else { "D" }, list(&t.vars), m.join(","))
}

fn asym_term(g: &mut SplitMix64, v: usize) -> Term {
    let h = g.range(1, 12) as f64 / 8.0;
    let (a, b) = (dy(g), dy(g) + 2.0);
    let (ctor, mat) = match g.below(6) {
        0 => (1u8, vec![-h, 0.0, 0.0, h]),   // h·σz with offset: zero element on one state
        1 => (1u8, vec![h, 0.0, 0.0, -h]),
        2 => (0u8, vec![a, 0.0, 0.0, b]),    // no zero element, still asymmetric
        3 => (0u8, vec![0.0, 0.0, 0.0, b]),
        4 => (2u8, vec![0.0, b]),
        _ => (3u8, vec![-h, h]),
    };
    Term { ctor, vars: vec![v], mat, asym: true, edge: false }
}

/// a term is symmetric iff EVERY entry equals its global-flip partner (all 4^n / 2^n entries)
fn mat_is_sym(m: &[f64]) -> bool {
    (0..m.len()).all(|i| m[i] == m[m.len() - 1 - i])
}

fn two_vars(g: &mut SplitMix64, nv: usize) -> Vec<usize> {
    let a = g.below(nv as u64) as usize;
    let mut b = g.below(nv as u64) as usize;
    while b == a {
        b = g.below(nv as u64) as usize;
    }
    vec![a, b]
}

/// symmetric full 4x4 matrix on two variables: diagonal (a,b,b,a), exchange x, pair flip y
fn sym_full2(g: &mut SplitMix64) -> Vec<f64> {
    let (a, b) = (dy(g), dy(g));
    let x = if g.coin() { dy(g) } else { 0.0 };
    let y = if g.chance(1, 3) { dy(g) } else { 0.0 };
    let mut m = vec![0.0; 16];
    m[0] = a;
    m[15] = a;
    m[5] = b;
    m[10] = b;
    m[6] = x;
    m[9] = x;
    m[3] = y;
    m[12] = y;
    m
}

/// multi-variable asymmetric term; the entry that differs from its global-flip partner lies in
/// quarter `q` of the index range (all other pairs are symmetric), entries positive where ops live
fn multi_asym_term(g: &mut SplitMix64, nv: usize, q: usize) -> Term {
    let bump = 2.0 + dy(g);
    match g.below(if nv >= 3 { 4 } else { 3 }) {
        0 | 1 => {
            // full matrix on two variables (16 entries: quarter q = rows of output state q)
            let mut m = sym_full2(g);
            let idx = if g.chance(1, 3) { [3usize, 6, 9, 12][q] } else { 5 * q };
            m[idx] += bump;
            Term { ctor: if g.chance(1, 4) { 1 } else { 0 }, vars: two_vars(g, nv), mat: m, asym: true, edge: false }
        }
        2 => {
            // diagonal table on two variables (4 entries)
            let (a, b) = (dy(g), dy(g));
            let mut m = vec![a, b, b, a];
            m[q] += bump;
            Term { ctor: if g.chance(1, 4) { 3 } else { 2 }, vars: two_vars(g, nv), mat: m, asym: true, edge: false }
        }
        _ => {
            // diagonal table on three variables (8 entries, two per quarter)
            let (a, b, c, d) = (dy(g), dy(g), dy(g), dy(g));
            let mut m = vec![a, b, c, d, d, c, b, a];
            m[2 * q + g.below(2) as usize] += bump;
            let mut vs: Vec<usize> = (0..nv).collect();
            while vs.len() > 3 {
                let i = g.below(vs.len() as u64) as usize;
                vs.remove(i);
            }
            Term { ctor: if g.chance(1, 4) { 3 } else { 2 }, vars: vs, mat: m, asym: true, edge: false }
        }
    }
}

fn gate_scenario(g: &mut SplitMix64, thorough: bool, placement: u64) {
    type Q = DefaultQmc<SharedRng>;
    let nv = g.range(2, if thorough { 5 } else { 4 }) as usize;
    // symmetric terms: two-variable diagonal couplings, constant single-site terms, sometimes a
    // symmetric non-constant single-site term
    let mut sym: Vec<Term> = vec![];
    for v in 0..nv - 1 {
        let (a, b) = (dy(g), dy(g));
        let j = g.range(1, 8) as f64 / 4.0;
        let t = match g.below(3) {
            0 => Term { ctor: 2, vars: vec![v, v + 1], mat: vec![a, b, b, a], asym: false, edge: false },
            1 => Term { ctor: 3, vars: vec![v, v + 1], mat: vec![-j, j, j, -j], asym: false, edge: false },
            _ => Term { ctor: 3, vars: vec![v, v + 1], mat: vec![j, -j, -j, j], asym: false, edge: false },
        };
        sym.push(t);
    }
    let with_edges = g.chance(5, 6);
    if with_edges {
        for v in 0..nv {
            if g.chance(3, 4) {
                sym.push(Term { ctor: 0, vars: vec![v], mat: vec![dy(g); 4], asym: false, edge: true });
            }
        }
    }
    if g.chance(1, 4) {
        let (a, b) = (dy(g), dy(g));
        sym.push(Term { ctor: 0, vars: vec![g.below(nv as u64) as usize], mat: vec![a, b, b, a], asym: false, edge: a == b });
    }
    // a symmetric full matrix on two variables (diagonal + exchange + pair flip): cluster moves through it
    if g.chance(1, 3) {
        let m = sym_full2(g);
        sym.push(Term { ctor: 0, vars: two_vars(g, nv), mat: m, asym: false, edge: false });
    }
    // random order of the symmetric terms
    for i in (1..sym.len()).rev() {
        let j = g.below(i as u64 + 1) as usize;
        sym.swap(i, j);
    }
    let n_asym = if g.chance(1, 5) { 0 } else { g.range(1, 2) as usize };
    let mut terms = sym;
    for _ in 0..n_asym {
        let v = g.below(nv as u64) as usize;
        // single-site field term, or a multi-site term whose asymmetry lies in quarter (placement / 4) % 4
        let t = if g.coin() { asym_term(g, v) } else { multi_asym_term(g, nv, ((placement / 4) % 4) as usize) };
        let pos = match placement % 4 {
            0 => 0,                                   // asymmetric first
            1 => terms.len() / 2,                     // in the middle
            2 => terms.len(),                         // last
            _ => g.below(terms.len() as u64 + 1) as usize,
        };
        terms.insert(pos, t);
    }
    for t in &terms {
        // what the harness registered, judged over ALL entries
        assert_eq!(t.asym, !mat_is_sym(&t.mat), "harness term flag inconsistent: {:?}", t);
        stat(&format!("gate.term.{}var.{}.{}", t.vars.len(), if t.ctor < 2 { "full" } else { "diag" }, if t.asym { "asym" } else { "sym" }), 1);
    }
    let any_asym = terms.iter().any(|t| !mat_is_sym(&t.mat));
    let any_edge = terms.iter().any(|t| t.edge);
    let rng = SharedRng::new(g.next());
    let st: Vec<bool> = (0..nv).map(|_| g.coin()).collect();
    let mut q = Q::new_with_state(nv, rng.clone(), st, g.coin());
    for t in &terms {
        let r = match t.ctor {
            0 => q.make_interaction(t.mat.clone(), t.vars.clone()),
            1 => q.make_interaction_and_offset(t.mat.clone(), t.vars.clone()),
            2 => q.make_diagonal_interaction(t.mat.clone(), t.vars.clone()),
            _ => q.make_diagonal_interaction_and_offset(t.mat.clone(), t.vars.clone()),
        };
        r.unwrap();
    }
    // tables of the matrix elements the sampler really uses (`Interaction::at`)
    let bonds: Vec<TableBond> = terms
        .iter()
        .enumerate()
        .map(|(b, t)| {
            let k = t.vars.len();
            let mut mat = vec![0.0; 1 << (2 * k)];
            for outs in patterns(k) {
                for ins in patterns(k) {
                    mat[bit_index(outs.iter().chain(ins.iter()))] = q.get_bonds()[b].at(&ins, &outs).unwrap();
                }
            }
            TableBond { vars: t.vars.clone(), constant: q.get_bonds()[b].is_constant(), mat }
        })
        .collect();
    let mut orc: Result<(), String> = Ok(());
    let mut fail = |orc: &mut Result<(), String>, msg: String| {
        if orc.is_ok() {
            *orc = Err(msg);
        }
    };
    // (a) the documented gate, on the freshly built sampler
    let should = q.should_do_cluster_update();
    let ok0 = q.cluster_update().is_ok();
    rng.take_log();
    if should != (!any_asym && any_edge) {
        fail(&mut orc, format!("should_do_cluster_update() = {} with asymmetric term present = {}, constant single-site term present = {}", should, any_asym, any_edge));
    }
    if ok0 != !any_asym {
        fail(&mut orc, format!("cluster_update() returned {} although an asymmetric term is registered = {}", if ok0 { "Ok" } else { "Err" }, any_asym));
    }
    let positive = |m: &FastOps| -> Result<(), String> {
        for (p, o) in snap(m).iter().enumerate() {
            if let Some(o) = o {
                if weight(&bonds, o) <= 0.0 {
                    return Err(format!("op of bond {} at p={} sits on a zero matrix element (ins {} outs {})", o.bond, p, bits(&o.ins), bits(&o.outs)));
                }
            }
        }
        Ok(())
    };
    // (b) the parts of `timestep`, with the cluster step isolated
    let beta = *g.pick(&[0.5, 1.0, 2.0, 4.0]);
    let rounds = if thorough { 10 } else { 6 };
    for round in 0..rounds {
        let pre = {
            let q = &mut q;
            catch(|| {
                q.diagonal_update(beta);
                if q.should_do_loop_update() {
                    q.loop_update();
                }
            })
        };
        rng.take_log();
        if let Err(e) = pre {
            fail(&mut orc, format!("sampler panicked before the cluster step: {}", e));
            break;
        }
        if let Err(e) = positive(q.get_manager_ref()) {
            fail(&mut orc, format!("before the cluster step (round {}): {}", round, e));
            break;
        }
        let inst = Inst { nvars: nv, state: q.clone_state(), man: q.get_manager_ref().clone(), bonds: bonds.clone(), frozen: vec![], origin: "gate" };
        let res = {
            let q = &mut q;
            catch(|| q.cluster_update().is_ok())
        };
        let draws = rng.take_log();
        match res {
            Err(e) => {
                fail(&mut orc, format!("cluster_update panicked: {}", e));
                break;
            }
            Ok(ran) => {
                if ran != !any_asym {
                    fail(&mut orc, format!("round {}: cluster_update() returned {} although an asymmetric term is registered = {}", round, if ran { "Ok" } else { "Err" }, any_asym));
                }
                if q.should_do_cluster_update() != (!any_asym && any_edge) {
                    fail(&mut orc, format!("round {}: should_do_cluster_update() = {}", round, q.should_do_cluster_update()));
                }
                let state = q.clone_state();
                let man = q.get_manager_ref().clone();
                if ran {
                    // whatever ran must be a weight-preserving cluster move (full C09 oracle + models)
                    let ret2 = recount(&inst, &state, &man, g);
                    let ret = draws.len();
                    emit_move("flip", &inst, &Outcome { state, man, ret, draws }, ret2, false, false);
                } else if snap(&man) != snap(&inst.man) || state != inst.state || !draws.is_empty() {
                    fail(&mut orc, format!("round {}: cluster_update() returned Err but changed the configuration or drew {} words", round, draws.len()));
                }
                if let Err(e) = positive(q.get_manager_ref()) {
                    fail(&mut orc, format!("after the cluster step (round {}, ran = {}): {}", round, ran, e));
                }
            }
        }
        q.flip_free_bits();
        rng.take_log();
    }
    // … and `timestep` itself
    for round in 0..rounds {
        let r = {
            let q = &mut q;
            catch(|| {
                q.timestep(beta);
            })
        };
        rng.take_log();
        if let Err(e) = r {
            fail(&mut orc, format!("timestep panicked: {}", e));
            break;
        }
        if let Err(e) = positive(q.get_manager_ref()) {
            fail(&mut orc, format!("after timestep {}: {}", round, e));
            break;
        }
        let st = q.clone_state();
        match propagate_check(q.get_manager_ref(), &st) {
            Ok(s) if s == st => {}
            _ => {
                fail(&mut orc, format!("after timestep {}: not a consistent periodic configuration", round));
                break;
            }
        }
    }
    stat(&format!("gate.asym_{}.edge_{}.place_{}.quarter_{}", any_asym, any_edge, placement % 4, (placement / 4) % 4), 1);
    let toks: Vec<String> = terms.iter().map(show_term).collect();
    emit(
        true,
        &format!("gate {}", toks.join(" ")),
        &format!("{} {}", should as u8, ok0 as u8),
        Some(orc),
    );
}

/// generic sampler: flip-symmetric interactions + constant single-site terms; `Qmc::cluster_update`
fn generic_runs(g: &mut SplitMix64, thorough: bool, nruns: usize) {
    type Q = DefaultQmc<SharedRng>;
    for _ in 0..nruns {
        let nv = g.range(2, if thorough { 7 } else { 5 }) as usize;
        let rng = SharedRng::new(g.next());
        let st: Vec<bool> = (0..nv).map(|_| g.coin()).collect();
        let mut q = Q::new_with_state(nv, rng.clone(), st, g.coin());
        let mut bonds = vec![];
        let with_edges = g.chance(4, 5);
        for v in 0..nv {
            let w = v + 1;
            if w < nv || nv > 2 {
                let tb = TableBond { vars: vec![v, w % nv], constant: false, mat: sym_mat(g, 2) };
                q.make_interaction(tb.mat.clone(), tb.vars.clone()).unwrap();
                bonds.push(tb);
            }
        }
        if with_edges {
            for v in 0..nv {
                if g.chance(3, 4) {
                    let tb = TableBond { vars: vec![v], constant: true, mat: vec![dy(g); 4] };
                    q.make_interaction(tb.mat.clone(), tb.vars.clone()).unwrap();
                    bonds.push(tb);
                }
            }
        }
        let beta = *g.pick(&[0.25, 0.5, 1.0, 2.0]);
        for round in 0..(if thorough { 5 } else { 3 }) {
            let reps = g.range(1, 4);
            let warmed = {
                let q = &mut q;
                catch(|| {
                    for _ in 0..reps {
                        if round % 2 == 0 {
                            q.diagonal_update(beta);
                            if q.should_do_loop_update() {
                                q.loop_update();
                            }
                        } else {
                            q.timestep(beta);
                        }
                    }
                    q.diagonal_update(beta);
                })
            };
            rng.take_log();
            if let Err(e) = warmed {
                emit(true, &format!("lock warmup-generic,round={}", round), "same", Some(Err(format!("sampler panicked while producing an equilibrium string: {}", e))));
                break;
            }
            let inst = Inst {
                nvars: nv,
                state: q.clone_state(),
                man: q.get_manager_ref().clone(),
                bonds: bonds.clone(),
                frozen: vec![],
                origin: "generic",
            };
            stat("generic.n_ops", inst.man.get_n());
            let ncl = direct_cases(&inst, g, 2);
            if let Some(ncl) = ncl {
                if ncl <= 24 {
                    single_cases(&inst, ncl, g);
                }
            }
            // the public entry point (no return value: the number of draws is the count)
            match catch(|| q.cluster_update().map_err(|e| e.to_string())) {
                Ok(Ok(())) => {
                    let draws = rng.take_log();
                    let state = q.clone_state();
                    let man = q.get_manager_ref().clone();
                    let ret2 = recount(&inst, &state, &man, g);
                    let ret = draws.len();
                    emit_move("flip", &inst, &Outcome { state, man, ret, draws }, ret2, false, false);
                }
                Ok(Err(e)) => emit_panic("flip", &inst, &[], &e),
                Err(e) => emit_panic("flip", &inst, &[], &e),
            }
        }
    }
}

fn main() {
    quiet_panics();
    let a = args();
    let mut g = SplitMix64::new(a.seed.wrapping_mul(0x9E37_79B9).wrapping_add(9));
    let run_syn = a.mode == "all" || a.mode == "synthetic";
    let run_eq = a.mode == "all" || a.mode == "equilibrium";
    if run_syn {
        let ninst = if a.thorough { 12000 } else { 1500 };
        for _ in 0..ninst {
            let inst = synthetic(&mut g, a.thorough);
            stat("synthetic.n_ops", inst.man.get_n());
            stat(&format!("synthetic.frozen_{}", !inst.frozen.is_empty()), 1);
            let ncl = direct_cases(&inst, &mut g, 4);
            if let Some(ncl) = ncl {
                stat(&format!("synthetic.nclusters_{}", if ncl >= 8 { "8+".to_string() } else { ncl.to_string() }), 1);
                if ncl <= (if a.thorough { 40 } else { 24 }) {
                    single_cases(&inst, ncl, &mut g);
                }
            }
            // the same string after some ops were replaced in place by their reversed-variable twins
            if g.chance(1, 3) {
                if let Some(inst2) = reverse_some_ops(&inst, &mut g) {
                    let ncl2 = direct_cases(&inst2, &mut g, 3);
                    if let Some(ncl2) = ncl2 {
                        if ncl2 <= 24 {
                            single_cases(&inst2, ncl2, &mut g);
                        }
                    }
                }
            }
        }
    }
    if run_syn {
        for _ in 0..(if a.thorough { 4 } else { 1 }) {
            large_case(&mut g);
        }
    }
    if run_eq {
        ising_runs(&mut g, a.thorough, if a.thorough { 600 } else { 100 });
        generic_runs(&mut g, a.thorough, if a.thorough { 300 } else { 40 });
        for _ in 0..(if a.thorough { 600 } else { 100 }) {
            lockstep_case(&mut g, a.thorough);
        }
        for k in 0..(if a.thorough { 1600 } else { 240 }) {
            gate_scenario(&mut g, a.thorough, k);
        }
    }
}
