//! C15 — Ising → generic sampler conversion (`IntoQmc::into_qmc`).
//! Modes:
//!   convert   conversion before any step and after k steps: what the converted sampler contains
//!             (interactions looked up on every pattern, flags, offset, cutoff, state, operator
//!             string) — compared with the Lean `intoQmc`; oracle = model-independent comparison with
//!             `QmcIsingGraph::hamiltonian`, the original's state / cutoff / operators / offset.
//!   lockstep  `timestep` on the Ising sampler and on its conversion (same RNG state) side by side;
//!             the model decides whether the observation is allowed (it must be "same" whenever the
//!             converted sampler's cluster gate is on and no RVB / heat-bath option was set);
//!             oracle = the property (identical trajectories, energies differ by N·Γ).
//!   domain    what the library does outside the constructor's domain (Γ < 0), as notes.

use qmc::sse::*;
use vh::*;

type G = DefaultQmcIsingGraph<SplitMix64>;
type Q = DefaultQmc<SplitMix64>;

#[derive(Clone, Debug)]
struct Spec {
    edges: Vec<((usize, usize), f64)>,
    gamma: f64,
    h: f64,
    nv: usize,
}

fn edges_tok(edges: &[((usize, usize), f64)]) -> String {
    edges.iter().map(|((a, b), j)| format!("{},{}:{}", a, b, rat(*j))).collect::<Vec<_>>().join("!")
}
fn spec_tok(s: &Spec) -> String {
    format!("{} {} {} {}", edges_tok(&s.edges), rat(s.gamma), rat(s.h), s.nv)
}

fn patterns(n: usize) -> Vec<Vec<bool>> {
    (0..(1usize << n)).map(|i| (0..n).map(|b| (i >> (n - 1 - b)) & 1 == 1).collect()).collect()
}

fn gen_spec(gen: &mut SplitMix64, h_kind: u64) -> Spec {
    let nv = gen.range(2, 6) as usize;
    let mut edges = vec![];
    let j = |gen: &mut SplitMix64| -> f64 {
        let m = *gen.pick(&[0.125, 0.25, 0.5, 0.75, 1.0, 1.5, 2.0, 3.0]);
        if gen.coin() { m } else { -m }
    };
    for a in 0..nv - 1 {
        let (x, y) = if gen.coin() { (a, a + 1) } else { (a + 1, a) };
        edges.push(((x, y), j(gen)));
    }
    if nv > 2 && gen.coin() {
        edges.push(((nv - 1, 0), j(gen)));
    }
    if nv > 3 && gen.chance(1, 3) {
        edges.push(((0, 2), j(gen)));
    }
    if gen.chance(1, 8) {
        // a zero coupling and a repeated edge are legal inputs
        edges.push(((0, 1), 0.0));
    }
    let gamma = *gen.pick(&[0.125, 0.25, 0.5, 1.0, 1.5, 2.0]);
    let h = match h_kind {
        0 => 0.0,
        1 => *gen.pick(&[0.125, 0.5, 1.0, 2.0]),
        _ => -*gen.pick(&[0.125, 0.5, 1.0, 2.0]),
    };
    Spec { edges, gamma, h, nv }
}

fn build(s: &Spec, cutoff: usize, seed: u64, state: Vec<bool>) -> G {
    G::new_with_rng(s.edges.clone(), s.gamma, s.h, cutoff, SplitMix64::new(seed), Some(state))
}

fn bond_tok(b: &Interaction, nvars_of_bond: usize) -> String {
    let pats = patterns(nvars_of_bond);
    let mut table = vec![];
    for ins in &pats {
        for outs in &pats {
            table.push(match b.at(ins, outs) {
                Ok(x) => rat(x),
                Err(_) => "E".to_string(),
            });
        }
    }
    table.join(",")
}

/// number of variables of generic bond `b`, read off the interaction by probing `at`
fn arity(b: &Interaction) -> usize {
    (0..4).find(|k| b.at(&vec![false; *k], &vec![false; *k]).is_ok()).unwrap_or(0)
}

/// expected variables of Ising bond `b` (the numbering documented in qmc_ising.rs)
fn ising_bond_vars(s: &Spec, b: usize) -> (Vec<usize>, bool) {
    let e = s.edges.len();
    if b < e {
        (vec![s.edges[b].0 .0, s.edges[b].0 .1], false)
    } else if b < e + s.nv {
        (vec![b - e], true)
    } else {
        (vec![b - e - s.nv], false)
    }
}

/// Model-independent: every (bond, ins, outs) weight of the converted sampler equals
/// `QmcIsingGraph::hamiltonian`, same variables / constant flags, state, cutoff, operators, offset.
fn convert_oracle(s: &Spec, g: &G, q: &Q) -> Result<(), String> {
    let info = g.make_haminfo();
    let e = s.edges.len();
    let has_field = s.h.abs() > f64::EPSILON;
    let nb = e + s.nv + if has_field { s.nv } else { 0 };
    if q.get_bonds().len() != nb {
        return Err(format!("{} interactions, Ising sampler has {} bonds", q.get_bonds().len(), nb));
    }
    // the converted sampler's vars/constant flags are not public on Interaction; they are observable
    // through the operators it inserts (checked in lockstep) and through the serialised form:
    let js = serde_json::to_value(q).map_err(|e| e.to_string())?;
    for b in 0..nb {
        let (vars, constant) = ising_bond_vars(s, b);
        let jb = &js["bonds"][b];
        let qvars: Vec<usize> = jb["vars"].as_array().unwrap().iter().map(|v| v.as_u64().unwrap() as usize).collect();
        if qvars != vars {
            return Err(format!("bond {} acts on {:?}, Ising bond acts on {:?}", b, qvars, vars));
        }
        if b < e && s.edges[b].1 != 0.0 && q.get_bonds()[b].is_constant_diag() {
            stat("convert_edges_flagged_constant_diag_though_J_nonzero", 1);
        }
        if q.get_bonds()[b].is_constant() != constant {
            return Err(format!("bond {} constant flag {} != {}", b, q.get_bonds()[b].is_constant(), constant));
        }
        let pats = patterns(vars.len());
        for ins in &pats {
            for outs in &pats {
                let wi = G::hamiltonian(&info, &vars, b, ins, outs);
                let wq = q.get_bonds()[b].at(ins, outs).map_err(|e| format!("at() failed on bond {}: {}", b, e))?;
                if wi != wq {
                    return Err(format!("weight differs on bond {} ins={} outs={}: ising {} generic {}", b, bits(ins), bits(outs), wi, wq));
                }
            }
        }
    }
    if q.state_ref() != g.state_ref() {
        return Err("state not carried".into());
    }
    if q.get_cutoff() != g.get_cutoff() {
        return Err(format!("cutoff {} -> {}", g.get_cutoff(), q.get_cutoff()));
    }
    if QmcStepper::get_n(q) != QmcStepper::get_n(g) {
        return Err("operator count not carried".into());
    }
    let (mg, mq) = (g.get_manager_ref(), q.get_manager_ref());
    let l = mg.get_cutoff().max(mq.get_cutoff());
    for p in 0..l {
        let a = if p < mg.get_cutoff() { mg.get_pth(p).map(show_op) } else { None };
        let b = if p < mq.get_cutoff() { mq.get_pth(p).map(show_op) } else { None };
        if a != b {
            return Err(format!("operator at p={} not carried: {:?} -> {:?}", p, a, b));
        }
    }
    if mq.get_cutoff() < mg.get_cutoff() {
        return Err("container shrank".into());
    }
    // one run-independent constant: N*Gamma; when a non-zero field is below the library's absolute
    // threshold (|h| <= f64::EPSILON, small energy units) neither sampler has field bonds and the Ising
    // offset still counts N|h| (theorem convert_offset; the dropped field itself is C01's finding F24)
    let d = g.get_offset() - q.get_offset();
    let want = s.nv as f64 * s.gamma + if has_field { 0.0 } else { s.nv as f64 * s.h.abs() };
    if d != want {
        return Err(format!("offset difference {:e} != N*Gamma{} = {:e}", d, if has_field || s.h == 0.0 { "" } else { " + N|h| (field below threshold)" }, want));
    }
    Ok(())
}

/// The Ising sampler's own Hamiltonian as the public `QmcIsingGraph::hamiltonian` reports it, for every
/// bond the sampler uses and every pattern (ins major, outs minor) — ties `isingHam` directly.
fn ising_table(s: &Spec, g: &G) -> String {
    let info = g.make_haminfo();
    let e = s.edges.len();
    let nb = e + s.nv + if s.h.abs() > f64::EPSILON { s.nv } else { 0 };
    let bonds: Vec<String> = (0..nb)
        .map(|b| {
            let (vars, _) = ising_bond_vars(s, b);
            let pats = patterns(vars.len());
            let mut t = vec![];
            for ins in &pats {
                for outs in &pats {
                    t.push(rat(G::hamiltonian(&info, &vars, b, ins, outs)));
                }
            }
            t.join(",")
        })
        .collect();
    if bonds.is_empty() { "-".into() } else { bonds.join("!") }
}

fn convert_output(s: &Spec, g: &G, q: &Q) -> String {
    let bonds: Vec<String> = q
        .get_bonds()
        .iter()
        .map(|b| {
            let k = arity(b);
            format!("{}:{}:{}", b.is_constant() as u8, b.is_constant_diag() as u8, bond_tok(b, k))
        })
        .collect();
    let js = serde_json::to_value(q).unwrap();
    let vars: Vec<String> = js["bonds"].as_array().unwrap().iter().map(|b| b["vars"].as_array().unwrap().iter().map(|v| v.to_string()).collect::<Vec<_>>().join(".")).collect();
    let ncd: Vec<u64> = js["non_const_diags"].as_array().unwrap().iter().map(|v| v.as_u64().unwrap()).collect();
    format!(
        "ok {} {} {} {} {} {} {} {}{}{}{}{} {} {} 1",
        if bonds.is_empty() { "-".to_string() } else { bonds.join("!") },
        if vars.is_empty() { "-".to_string() } else { vars.join("!") },
        rat(q.get_offset()),
        rat(g.get_offset()),
        q.get_cutoff(),
        bits(q.state_ref()),
        show_slots(q.get_manager_ref()),
        js["has_cluster_edges"].as_bool().unwrap() as u8,
        js["breaks_ising_symmetry"].as_bool().unwrap() as u8,
        q.should_do_cluster_update() as u8,
        q.should_do_loop_update() as u8,
        q.should_do_heatbath() as u8,
        list(&ncd),
        ising_table(s, g),
    )
}

fn convert_case(s: &Spec, cutoff: usize, seed: u64, state: Vec<bool>, beta: f64, k: usize) {
    let mut g = build(s, cutoff, seed, state);
    for _ in 0..k {
        g.timestep(beta);
    }
    let input = format!(
        "convert {} {} {} {}",
        spec_tok(s),
        g.get_cutoff(),
        bits(g.state_ref()),
        show_slots(g.get_manager_ref())
    );
    let gc = g.clone();
    match catch(move || gc.into_qmc()) {
        Ok(q) => {
            let o = convert_oracle(s, &g, &q);
            emit(true, &input, &convert_output(s, &g, &q), Some(o));
        }
        Err(p) => emit(true, &input, "P", Some(Err(format!("into_qmc panicked: {}", p)))),
    }
}

#[derive(Clone, Copy)]
struct Opts {
    rvb: bool,
    /// 0 = Metropolis on both; 1 = heat-bath set on the Ising sampler only (into_qmc does not carry the
    /// option: the converted sampler sweeps with Metropolis); 2 = heat-bath on both
    /// (`set_enable_heatbath(true)` on the Ising sampler, `set_do_heatbath(true)` on its conversion)
    hb: u8,
    /// step through the parts: `single_diagonal_step; single_cluster_step` on the Ising sampler against
    /// `diagonal_update; [cluster_update]; flip_free_bits` on the conversion (the same composition as the
    /// two `timestep`s, without the Ising `timestep`'s `debug_assert!(verify())`, which uses an absolute
    /// weight threshold and fires in small energy units on the unchanged library: finding F24)
    split: bool,
}

/// Returns the observation token: `same` or `diverged@<step>:<what>`
fn lockstep_case(s: &Spec, cutoff: usize, seed: u64, state: Vec<bool>, beta: f64, kpre: usize, kpost: usize, opts: Opts, with_oracle: bool, tag: &str) -> bool {
    let mut g = build(s, cutoff, seed, state.clone());
    if opts.rvb {
        g.set_run_rvb(true);
    }
    if opts.hb >= 1 {
        g.set_enable_heatbath(true);
    }
    for _ in 0..kpre {
        if opts.split {
            g.single_diagonal_step(beta);
            g.single_cluster_step();
        } else {
            g.timestep(beta);
        }
    }
    let gc = g.clone();
    let cutoff_at_conversion = g.get_cutoff();
    let mut q = match catch(move || gc.into_qmc()) {
        Ok(q) => q,
        Err(p) => {
            emit(true, &format!("lockstep {} {} {} {} {} {} {} {} panic", spec_tok(s), cutoff, rat(beta), seed, kpre, kpost, opts.rvb as u8, opts.hb), "1 ? ?", Some(Err(format!("into_qmc panicked: {}", p))));
            return false;
        }
    };
    if opts.hb == 2 {
        q.set_do_heatbath(true);
    }
    let gate = q.should_do_cluster_update();
    let mut observed = "same".to_string();
    let (mut sum_g, mut sum_q) = (0usize, 0usize);
    for t in 0..kpost {
        if let Err(p) = catch(|| {
            if opts.split {
                g.single_diagonal_step(beta);
                g.single_cluster_step();
                q.diagonal_update(beta);
                if q.should_do_cluster_update() {
                    q.cluster_update().unwrap();
                }
                q.flip_free_bits();
            } else {
                g.timestep(beta);
                q.timestep(beta);
            }
        }) {
            observed = format!("panic@{}:{}", t + 1, p.replace(' ', "_").chars().take(60).collect::<String>());
            break;
        }
        sum_g += QmcStepper::get_n(&g);
        sum_q += QmcStepper::get_n(&q);
        let what = if g.state_ref() != q.state_ref() {
            "state"
        } else if QmcStepper::get_n(&g) != QmcStepper::get_n(&q) {
            "n"
        } else if g.get_cutoff() != q.get_cutoff() {
            "cutoff"
        } else if show_slots(g.get_manager_ref()) != show_slots(q.get_manager_ref()) {
            "ops"
        } else {
            ""
        };
        if !what.is_empty() {
            observed = format!("diverged@{}:{}", t + 1, what);
            break;
        }
    }
    let same = observed == "same";
    if kpost > 0 && g.get_cutoff() > cutoff_at_conversion {
        stat(&format!("lockstep{}_hb{}_runs_with_growth_after_conversion", tag, opts.hb), 1);
    }
    if sum_g > 0 {
        stat(&format!("lockstep{}_hb{}_runs_with_operators", tag, opts.hb), 1);
    }
    if tag == "-long" {
        println!("STAT lockstep_long_final_n_beta{}_kpre{}_hb{} {}", beta as u64, kpre, opts.hb, QmcStepper::get_n(&g));
    }
    // energies through the public accessor on the two averages
    let (eg, eq) = if kpost > 0 {
        (
            g.get_energy_for_average_n(sum_g as f64 / kpost as f64, beta),
            q.get_energy_for_average_n(sum_q as f64 / kpost as f64, beta),
        )
    } else {
        (g.get_offset(), q.get_offset())
    };
    let want = s.nv as f64 * s.gamma;
    let oracle = if !with_oracle {
        None
    } else if !same {
        Some(Err(format!(
            "trajectories differ ({}); converted sampler should_do_cluster_update()={} h={}{}",
            observed,
            gate,
            s.h,
            if !gate && s.h != 0.0 { " [F4: generic sampler skips the cluster update when h != 0]" } else { "" }
        )))
    } else if ((eg - eq) - want).abs() > 1e-9 * (want.abs() + eg.abs() + eq.abs()) {
        Some(Err(format!("energies differ by {} instead of N*Gamma={}", eg - eq, want)))
    } else {
        Some(Ok(()))
    };
    let ediff = if same { format!("~{:e}", eg - eq) } else { "~0".to_string() };
    emit(
        kpost > 0,
        &format!("lockstep{} {} {} {} {} {} {} {} {} {}", tag, spec_tok(s), cutoff, rat(beta), seed, kpre, kpost, opts.rvb as u8, opts.hb, observed),
        &format!("1 {} {}", gate as u8, ediff),
        oracle,
    );
    same
}

/// what differs between the Ising sampler and the generic one ("" = nothing)
fn difference(g: &G, q: &Q) -> &'static str {
    if g.state_ref() != q.state_ref() {
        "state"
    } else if QmcStepper::get_n(g) != QmcStepper::get_n(q) {
        "n"
    } else if g.get_cutoff() != q.get_cutoff() {
        "cutoff"
    } else if show_slots(g.get_manager_ref()) != show_slots(q.get_manager_ref()) {
        "ops"
    } else {
        ""
    }
}

/// one lock-step step (whole `timestep`s, or the same composition through the parts)
fn step_both(g: &mut G, q: &mut Q, beta: f64, split: bool) {
    if split {
        g.single_diagonal_step(beta);
        g.single_cluster_step();
        q.diagonal_update(beta);
        if q.should_do_cluster_update() {
            q.cluster_update().unwrap();
        }
        q.flip_free_bits();
    } else {
        g.timestep(beta);
        q.timestep(beta);
    }
}

/// is the heat-bath table present on the Ising sampler (= does its sweep run heat-bath)? Not a public getter;
/// read off the serialised form.
fn has_table(g: &G) -> bool {
    !serde_json::to_value(g).unwrap()["bond_weights"].is_null()
}

fn hist_tok(hist: &[(bool, usize)]) -> String {
    if hist.is_empty() {
        "-".into()
    } else {
        hist.iter().map(|(b, k)| format!("{}x{}", *b as u8, k)).collect::<Vec<_>>().join(",")
    }
}

/// OPTION HISTORY after the conversion, applied to BOTH samplers: before each block `set_enable_heatbath(hb)` on the
/// Ising sampler and `set_do_heatbath(hb)` on its conversion, then k lock-step steps.  `prehb`: the option is also set
/// on the Ising sampler before the kpre steps and the conversion (into_qmc does not carry it; the first block sets it
/// explicitly on both).  h = 0.  Oracle: identical state / n / cutoff / operator string after every step of every
/// block, energies differ by N*Gamma.
fn lockstep_hist_case(s: &Spec, cutoff: usize, seed: u64, state: Vec<bool>, beta: f64, kpre: usize, prehb: bool, split: bool, hist: &[(bool, usize)]) -> bool {
    let mut g = build(s, cutoff, seed, state);
    if prehb {
        g.set_enable_heatbath(true);
    }
    for _ in 0..kpre {
        if split {
            g.single_diagonal_step(beta);
            g.single_cluster_step();
        } else {
            g.timestep(beta);
        }
    }
    let input = |observed: &str| format!("lockstep-hist {} {} {} {} {} {} {} {} {}", spec_tok(s), cutoff, rat(beta), seed, kpre, prehb as u8, split as u8, hist_tok(hist), observed);
    let gc = g.clone();
    let mut q = match catch(move || gc.into_qmc()) {
        Ok(q) => q,
        Err(p) => {
            emit(true, &input("panic"), "1 ? ? ? ?", Some(Err(format!("into_qmc panicked: {}", p))));
            return false;
        }
    };
    let gate = q.should_do_cluster_update();
    let mut observed = "same".to_string();
    let (mut sum_g, mut sum_q, mut t) = (0usize, 0usize, 0usize);
    let mut switched_off_after_heatbath_steps = false;
    let mut hb_steps_done = 0;
    'blocks: for (bi, (hb, k)) in hist.iter().enumerate() {
        g.set_enable_heatbath(*hb);
        q.set_do_heatbath(*hb);
        if !*hb && hb_steps_done > 0 && *k > 0 {
            switched_off_after_heatbath_steps = true;
        }
        for _ in 0..*k {
            t += 1;
            if let Err(p) = catch(|| step_both(&mut g, &mut q, beta, split)) {
                observed = format!("panic@{}(block{}):{}", t, bi + 1, p.replace(' ', "_").chars().take(60).collect::<String>());
                break 'blocks;
            }
            if *hb {
                hb_steps_done += 1;
            }
            sum_g += QmcStepper::get_n(&g);
            sum_q += QmcStepper::get_n(&q);
            let what = difference(&g, &q);
            if !what.is_empty() {
                observed = format!("diverged@{}(block{},hb={}):{}", t, bi + 1, *hb as u8, what);
                break 'blocks;
            }
        }
    }
    let same = observed == "same";
    if switched_off_after_heatbath_steps {
        stat("lockstep_hist_runs_switching_heatbath_off_after_heatbath_steps", 1);
    }
    if sum_g > 0 {
        stat("lockstep_hist_runs_with_operators", 1);
    }
    // the flags both samplers carry at the end of the history (a run that stopped early still gets the last call)
    let (qflag, gflag) = if observed.starts_with("panic") {
        ("?".to_string(), "?".to_string())
    } else {
        if let Some((hb, _)) = hist.last() {
            g.set_enable_heatbath(*hb);
            q.set_do_heatbath(*hb);
        }
        ((q.should_do_heatbath() as u8).to_string(), (has_table(&g) as u8).to_string())
    };
    let (eg, eq) = if t > 0 && same {
        (g.get_energy_for_average_n(sum_g as f64 / t as f64, beta), q.get_energy_for_average_n(sum_q as f64 / t as f64, beta))
    } else {
        (g.get_offset(), q.get_offset())
    };
    let want = s.nv as f64 * s.gamma;
    let oracle = if !same {
        Err(format!("trajectories differ under the same option history {} ({}); should_do_cluster_update()={} h={}", hist_tok(hist), observed, gate, s.h))
    } else if ((eg - eq) - want).abs() > 1e-9 * (want.abs() + eg.abs() + eq.abs()) {
        Err(format!("energies differ by {} instead of N*Gamma={}", eg - eq, want))
    } else {
        Ok(())
    };
    let ediff = if same { format!("~{:e}", eg - eq) } else { "~0".to_string() };
    emit(t > 0, &input(&observed), &format!("1 {} {} {} {}", gate as u8, qflag, gflag, ediff), Some(oracle));
    same
}

/// SWAP, THEN CONVERT: two Ising samplers on the same graph with the same coupling signs (so `can_swap_managers` is Ok)
/// but different |J| / Gamma, heat-bath enabled on one or both BEFORE the swap, kpre steps each, the raw public
/// `swap_manager_and_state`, then sampler `who` is converted, the conversion is told the option that sampler was given
/// (`set_do_heatbath`), and both are stepped in lock-step (h = 0).  Nothing is re-set on the Ising sampler after the
/// swap: a swap moves only string and state, so the sampler still sweeps with its own option and its own table.
fn lockstep_swap_case(sa: &Spec, sb: &Spec, ca: usize, cb: usize, seed: u64, beta: f64, kpre_a: usize, kpre_b: usize, hb_a: bool, hb_b: bool, who_a: bool, other_direction: bool, kpost: usize, gen: &mut SplitMix64) -> bool {
    let state_a: Vec<bool> = (0..sa.nv).map(|_| gen.coin()).collect();
    let state_b: Vec<bool> = (0..sa.nv).map(|_| gen.coin()).collect();
    let mut a = build(sa, ca, seed, state_a);
    let mut b = build(sb, cb, seed ^ 0x5a5a, state_b);
    a.set_enable_heatbath(hb_a);
    b.set_enable_heatbath(hb_b);
    for _ in 0..kpre_a {
        a.timestep(beta);
    }
    for _ in 0..kpre_b {
        b.timestep(beta);
    }
    let (cut_a, cut_b) = (a.get_cutoff(), b.get_cutoff());
    let input = |observed: &str| {
        format!(
            "lockstep-swap {} {} {} {} {} {} {} {} {} {} {} {} {} {} {} {}",
            edges_tok(&sa.edges), rat(sa.gamma), edges_tok(&sb.edges), rat(sb.gamma), sa.nv, cut_a, cut_b, rat(beta), seed, kpre_a, kpre_b, hb_a as u8, hb_b as u8,
            if who_a { "a" } else { "b" }, kpost, observed
        )
    };
    if let Err(e) = a.can_swap_managers(&b) {
        emit(true, &input("rejected"), "1 ? ? ? ?", Some(Err(format!("can_swap_managers rejected replicas that differ only in magnitudes: {}", e))));
        return false;
    }
    if other_direction {
        b.swap_manager_and_state(&mut a);
    } else {
        a.swap_manager_and_state(&mut b);
    }
    let (mut g, s, hb) = if who_a { (a, sa, hb_a) } else { (b, sb, hb_b) };
    let table_after_swap = has_table(&g);
    let cutoff_after_swap = g.get_cutoff();
    let gc = g.clone();
    let mut q = match catch(move || gc.into_qmc()) {
        Ok(q) => q,
        Err(p) => {
            emit(true, &input("panic"), "1 ? ? ? ?", Some(Err(format!("into_qmc panicked: {}", p))));
            return false;
        }
    };
    q.set_do_heatbath(hb);
    let gate = q.should_do_cluster_update();
    let mut observed = "same".to_string();
    let (mut sum_g, mut sum_q) = (0usize, 0usize);
    let first = difference(&g, &q);
    if !first.is_empty() {
        observed = format!("diverged@0:{}", first);
    } else {
        for t in 0..kpost {
            if let Err(p) = catch(|| step_both(&mut g, &mut q, beta, false)) {
                observed = format!("panic@{}:{}", t + 1, p.replace(' ', "_").chars().take(60).collect::<String>());
                break;
            }
            sum_g += QmcStepper::get_n(&g);
            sum_q += QmcStepper::get_n(&q);
            let what = difference(&g, &q);
            if !what.is_empty() {
                observed = format!("diverged@{}:{}", t + 1, what);
                break;
            }
        }
    }
    let same = observed == "same";
    if sum_g > 0 {
        stat("lockstep_swap_runs_with_operators", 1);
    }
    stat(&format!("lockstep_swap_hb_chosen{}_partner{}", hb as u8, if who_a { hb_b } else { hb_a } as u8), 1);
    let (eg, eq) = if kpost > 0 && same {
        (g.get_energy_for_average_n(sum_g as f64 / kpost as f64, beta), q.get_energy_for_average_n(sum_q as f64 / kpost as f64, beta))
    } else {
        (g.get_offset(), q.get_offset())
    };
    let want = s.nv as f64 * s.gamma;
    let oracle = if !same {
        Err(format!(
            "after swap_manager_and_state the {} sampler (heat-bath option {}, table present {}) and its conversion (set_do_heatbath({})) differ ({})",
            if who_a { "first" } else { "second" }, hb, table_after_swap, hb, observed
        ))
    } else if table_after_swap != hb {
        Err(format!("the swap changed the heat-bath option of the sampler: enabled {} before, table present {} after", hb, table_after_swap))
    } else if ((eg - eq) - want).abs() > 1e-9 * (want.abs() + eg.abs() + eq.abs()) {
        Err(format!("energies differ by {} instead of N*Gamma={}", eg - eq, want))
    } else {
        Ok(())
    };
    let ediff = if same { format!("~{:e}", eg - eq) } else { "~0".to_string() };
    emit(kpost > 0, &input(&observed), &format!("1 {} {} {} {}", gate as u8, table_after_swap as u8, cutoff_after_swap, ediff), Some(oracle));
    same
}

/// Diagonal sweeps only (`single_diagonal_step` vs `diagonal_update`), side by side from the same RNG
/// state: must agree for every h (both sweeps see the same Hamiltonian and cutoff; no cluster update
/// is involved), which is the part of the trajectory clause that survives F4.
fn diagstep_case(s: &Spec, cutoff: usize, seed: u64, state: Vec<bool>, beta: f64, kpre: usize, kpost: usize) -> bool {
    let mut g = build(s, cutoff, seed, state);
    for _ in 0..kpre {
        g.timestep(beta);
    }
    let gc = g.clone();
    let mut q = match catch(move || gc.into_qmc()) {
        Ok(q) => q,
        Err(_) => return false, // reported by the convert mode
    };
    let mut observed = "same".to_string();
    for t in 0..kpost {
        if let Err(p) = catch(|| {
            g.single_diagonal_step(beta);
            q.diagonal_update(beta);
        }) {
            observed = format!("panic@{}:{}", t + 1, p.replace(' ', "_").chars().take(60).collect::<String>());
            break;
        }
        let what = if g.state_ref() != q.state_ref() {
            "state"
        } else if QmcStepper::get_n(&g) != QmcStepper::get_n(&q) {
            "n"
        } else if g.get_cutoff() != q.get_cutoff() {
            "cutoff"
        } else if show_slots(g.get_manager_ref()) != show_slots(q.get_manager_ref()) {
            "ops"
        } else {
            ""
        };
        if !what.is_empty() {
            observed = format!("diverged@{}:{}", t + 1, what);
            break;
        }
    }
    let same = observed == "same";
    emit(
        kpost > 0,
        &format!("diagstep {} {} {} {} {} {} {}", spec_tok(s), cutoff, rat(beta), seed, kpre, kpost, observed),
        "1",
        Some(if same { Ok(()) } else { Err(format!("diagonal sweeps differ ({}) h={}", observed, s.h)) }),
    );
    same
}

fn domain_notes() {
    // Γ < 0: the Ising constructor accepts it; what happens next?
    let s = Spec { edges: vec![((0, 1), 1.0)], gamma: -0.5, h: 0.0, nv: 2 };
    let g = build(&s, 4, 3, vec![false, true]);
    let conv = catch({
        let gc = g.clone();
        move || gc.into_qmc()
    });
    let mut g2 = g.clone();
    let step = catch(move || {
        for _ in 0..50 {
            g2.timestep(1.0);
        }
    });
    println!(
        "STAT note_gamma_negative into_qmc={} ising_timesteps={}",
        match &conv { Ok(_) => "ok".to_string(), Err(p) => format!("panic({})", p.replace(' ', "_")) },
        match &step { Ok(_) => "ok".to_string(), Err(p) => format!("panic({})", p.replace(' ', "_")) }
    );
    // the model must agree that the conversion panics there
    let input = format!("convert {} {} {} {}", spec_tok(&s), g.get_cutoff(), bits(g.state_ref()), show_slots(g.get_manager_ref()));
    emit(false, &input, if conv.is_ok() { "ok-unexpected" } else { "P" }, None);
    // Γ = 0 is inside the domain
    let s0 = Spec { edges: vec![((0, 1), -1.0)], gamma: 0.0, h: 0.5, nv: 2 };
    convert_case(&s0, 3, 5, vec![true, true], 1.0, 4);
}

fn main() {
    quiet_panics();
    let a = args();
    let mut gen = SplitMix64::new(a.seed.wrapping_mul(0x2545_F491).wrapping_add(15));
    let betas = [0.5, 1.0, 2.0, 4.0];
    if a.mode == "convert" || a.mode == "all" {
        let reps = if a.thorough { 6000 } else { 150 };
        for rep in 0..reps {
            let s = gen_spec(&mut gen, rep % 3);
            let cutoff = match gen.below(4) {
                0 => 1,
                1 => 1 + gen.below(s.nv as u64 - 1) as usize, // below nvars
                2 => s.nv,
                _ => s.nv + 1 + gen.below(20) as usize,
            };
            let state: Vec<bool> = (0..s.nv).map(|_| gen.coin()).collect();
            let k = (rep % 21) as usize; // 0..20 steps before converting
            let beta = *gen.pick(&betas);
            stat(&format!("convert_h_{}", ["zero", "pos", "neg"][(rep % 3) as usize]), 1);
            stat(if cutoff < s.nv { "convert_cutoff_below_nvars" } else { "convert_cutoff_ge_nvars" }, 1);
            convert_case(&s, cutoff, gen.next(), state, beta, k);
        }
        // small energy units: J, Gamma, h scaled exactly by 2^-56 / 2^-60 (matrix-level comparison only, k = 0).
        // The library's flags use an ABSOLUTE tolerance (f64::EPSILON), so here every edge table [0,2|J|,2|J|,0]
        // is flagged constant-along-diagonal although it is not (F23 class); `Interaction::at` must index it
        // properly all the same.
        let sreps = if a.thorough { 900 } else { 90 };
        for rep in 0..sreps {
            let mut s = gen_spec(&mut gen, rep % 3);
            let scale = if rep % 2 == 0 { (2.0f64).powi(-56) } else { (2.0f64).powi(-60) };
            s.edges.iter_mut().for_each(|e| e.1 *= scale);
            s.gamma *= scale;
            s.h *= scale;
            let cutoff = 1 + gen.below(2 * s.nv as u64) as usize;
            let state: Vec<bool> = (0..s.nv).map(|_| gen.coin()).collect();
            stat("convert_small_units", 1);
            convert_case(&s, cutoff, gen.next(), state, 1.0, 0);
        }
        // fixed small case with a field (2 spins, h = 1/2)
        let w = Spec { edges: vec![((0, 1), 1.0)], gamma: 1.0, h: 0.5, nv: 2 };
        convert_case(&w, 2, 7, vec![false, false], 1.0, 0);
        domain_notes();
    }
    if a.mode == "lockstep" || a.mode == "all" {
        let reps = if a.thorough { 2500 } else { 80 };
        let (mut hz, mut hz_same, mut hn, mut hn_same, mut op, mut op_same) = (0, 0, 0, 0, 0, 0);
        let (mut hb2, mut hb2_same, mut g0, mut g0_same) = (0, 0, 0, 0);
        for rep in 0..reps {
            let hk = if rep % 3 == 2 { 1 + gen.below(2) } else { 0 };
            let s = gen_spec(&mut gen, hk);
            let cutoff = match gen.below(3) {
                0 => 1 + gen.below(s.nv as u64 - 1) as usize,
                1 => s.nv,
                _ => s.nv + 1 + gen.below(10) as usize,
            };
            let state: Vec<bool> = (0..s.nv).map(|_| gen.coin()).collect();
            let kpre = (rep % 21) as usize;
            let kpost = 20;
            let beta = *gen.pick(&betas);
            let seed = gen.next();
            let state_for_diag = state.clone();
            if hk == 0 {
                let same = lockstep_case(&s, cutoff, seed, state.clone(), beta, kpre, kpost, Opts { rvb: false, hb: 0, split: false }, true, "");
                hz += 1;
                hz_same += same as usize;
                // heat-bath sweeps on BOTH samplers (the option is set on the conversion by hand): same oracle
                let c_small = 1 + gen.below(3) as usize; // growth has to happen after the conversion
                let kp = if rep % 2 == 0 { 0 } else { (rep % 5) as usize };
                let same = lockstep_case(&s, c_small, seed ^ 0xb0, state.clone(), beta, kp, kpost, Opts { rvb: false, hb: 2, split: false }, true, "-hb");
                hb2 += 1;
                hb2_same += same as usize;
                // transverse field exactly 0 (h = 0): the Ising sampler still flips the whole string with
                // probability 1/2; couplings and beta large enough that the string holds operators
                let mut s0 = s.clone();
                s0.gamma = 0.0;
                s0.edges.iter_mut().for_each(|e| {
                    if e.1.abs() < 1.0 {
                        e.1 = if e.1 < 0.0 { -1.0 } else { 1.0 };
                    }
                });
                let b0 = *gen.pick(&[2.0, 4.0]);
                let same = lockstep_case(&s0, cutoff, seed ^ 0x60, state.clone(), b0, kpre, kpost, Opts { rvb: false, hb: 0, split: false }, true, "-g0");
                g0 += 1;
                g0_same += same as usize;
                if rep % 8 == 0 {
                    // options the conversion does not carry (RVB needs equal |J|: not exercised here; heat-bath)
                    let same = lockstep_case(&s, cutoff, seed, state, beta, kpre, kpost, Opts { rvb: false, hb: 1, split: false }, false, "-opts");
                    op += 1;
                    op_same += same as usize;
                }
            } else {
                // h != 0: observation recorded, judged only on the recorded witness below
                let same = lockstep_case(&s, cutoff, seed, state.clone(), beta, kpre, kpost, Opts { rvb: false, hb: 0, split: false }, false, "-h");
                hn += 1;
                hn_same += same as usize;
            }
            // the diagonal sweeps must agree whatever h is
            let dsame = diagstep_case(&s, cutoff, seed, state_for_diag, beta, kpre, kpost);
            stat(if hk == 0 { "diagstep_h_zero_runs" } else { "diagstep_h_nonzero_runs" }, 1);
            stat("diagstep_same", dsame as usize);
        }
        stat("lockstep_h_zero_runs", hz);
        stat("lockstep_h_zero_same", hz_same);
        stat("lockstep_h_nonzero_runs", hn);
        stat("lockstep_h_nonzero_same", hn_same);
        stat("lockstep_heatbath_option_runs", op);
        stat("lockstep_heatbath_option_same", op_same);
        stat("lockstep_heatbath_both_runs", hb2);
        stat("lockstep_heatbath_both_same", hb2_same);
        stat("lockstep_gamma_zero_runs", g0);
        stat("lockstep_gamma_zero_same", g0_same);
        // OPTION HISTORIES after the conversion (both samplers get the same calls) and SWAP-THEN-CONVERT, h = 0
        let hreps = if a.thorough { 1200 } else { 60 };
        let (mut hi, mut hi_same, mut sw, mut sw_same) = (0, 0, 0, 0);
        for rep in 0..hreps {
            let s = gen_spec(&mut gen, 0);
            let cutoff = if gen.coin() { 1 + gen.below(3) as usize } else { s.nv + gen.below(8) as usize };
            let state: Vec<bool> = (0..s.nv).map(|_| gen.coin()).collect();
            let beta = *gen.pick(&betas);
            let nblocks = 2 + gen.below(3) as usize;
            let mut flag = rep % 4 != 3; // mostly: on first
            let mut hist = vec![];
            for _ in 0..nblocks {
                hist.push((flag, 1 + gen.below(6) as usize));
                flag = !flag;
            }
            if rep % 5 == 0 {
                hist.last_mut().unwrap().1 += 12; // a long tail after the last switch
            }
            let kpre = (rep % 6) as usize;
            let same = lockstep_hist_case(&s, cutoff, gen.next(), state, beta, kpre, rep % 3 == 1, rep % 4 == 2, &hist);
            hi += 1;
            hi_same += same as usize;
            // swap, then convert: the partner has the same graph and signs, other magnitudes
            let mut sb = s.clone();
            let f = *gen.pick(&[0.25, 0.5, 2.0, 4.0]);
            sb.edges.iter_mut().for_each(|e| e.1 *= f);
            sb.gamma = *gen.pick(&[0.125, 0.25, 0.5, 1.0, 1.5, 2.0]);
            if sb.gamma == s.gamma {
                sb.gamma *= 2.0;
            }
            let (hb_a, hb_b) = match rep % 3 {
                0 => (true, true),
                1 => (true, false),
                _ => (false, true),
            };
            let (ca, cb) = (1 + gen.below(2 * s.nv as u64) as usize, 1 + gen.below(2 * s.nv as u64) as usize);
            let same = lockstep_swap_case(&s, &sb, ca, cb, gen.next(), beta, (rep % 5) as usize, ((rep / 2) % 4) as usize, hb_a, hb_b, rep % 2 == 0, rep % 4 >= 2, 20, &mut gen);
            sw += 1;
            sw_same += same as usize;
        }
        stat("lockstep_option_history_runs", hi);
        stat("lockstep_option_history_same", hi_same);
        stat("lockstep_swap_then_convert_runs", sw);
        stat("lockstep_swap_then_convert_same", sw_same);
        // small energy units, stepping through the parts (see Opts::split), beta scaled by the inverse factor
        let sreps = if a.thorough { 300 } else { 30 };
        let (mut sm, mut sm_same) = (0, 0);
        for rep in 0..sreps {
            let mut s = gen_spec(&mut gen, 0);
            let k = if rep % 2 == 0 { 56 } else { 60 };
            let scale = (2.0f64).powi(-k);
            s.edges.iter_mut().for_each(|e| e.1 *= scale);
            s.gamma *= scale;
            let beta = *gen.pick(&betas) * (2.0f64).powi(k);
            let cutoff = 1 + gen.below(2 * s.nv as u64) as usize;
            let state: Vec<bool> = (0..s.nv).map(|_| gen.coin()).collect();
            let same = lockstep_case(&s, cutoff, gen.next(), state, beta, (rep % 7) as usize, 20, Opts { rvb: false, hb: 0, split: true }, true, "-small");
            sm += 1;
            sm_same += same as usize;
        }
        stat("lockstep_small_units_runs", sm);
        stat("lockstep_small_units_same", sm_same);
        // LONG-STRING stream: 8 spins, beta in the hundreds (several thousand operators), tiny initial cutoff;
        // conversion before the first step and after 30 steps; same lock-step oracle (state, n, cutoff, ops equal
        // after every step, energies differ by N*Gamma).  Growth rules that only differ for long strings show here.
        let long_betas: &[f64] = if a.thorough { &[300.0, 500.0] } else { &[180.0] };
        let t0 = std::time::Instant::now();
        let (mut lg, mut lg_same) = (0, 0);
        for beta in long_betas {
            for (kpre, hb) in [(0usize, 0u8), (30, 0), (0, 2)] {
                let nv = 8;
                let s = Spec { edges: (0..nv).map(|a| ((a, (a + 1) % nv), if a % 3 == 0 { -1.0 } else { 1.0 })).collect(), gamma: 1.0, h: 0.0, nv };
                let state: Vec<bool> = (0..nv).map(|_| gen.coin()).collect();
                let same = lockstep_case(&s, 1 + gen.below(3) as usize, gen.next(), state, *beta, kpre, 40, Opts { rvb: false, hb, split: false }, true, "-long");
                lg += 1;
                lg_same += same as usize;
            }
        }
        stat("lockstep_long_runs", lg);
        stat("lockstep_long_same", lg_same);
        println!("STAT lockstep_long_millis {}", t0.elapsed().as_millis());
        // F4 witness: fixed input, h != 0
        let w = Spec { edges: vec![((0, 1), 1.0)], gamma: 1.0, h: 0.5, nv: 2 };
        lockstep_case(&w, 2, 7, vec![false, false], 1.0, 0, 20, Opts { rvb: false, hb: 0, split: false }, true, "");
        // convert_test of the crate, as a fixed case (3-site ring, h = 0)
        let t = Spec { edges: vec![((0, 1), 1.0), ((1, 2), 1.0), ((2, 0), 1.0)], gamma: 1.0, h: 0.0, nv: 3 };
        lockstep_case(&t, 3, 1234, vec![false, false, false], 1.0, 10, 20, Opts { rvb: false, hb: 0, split: false }, true, "");
    }
}
