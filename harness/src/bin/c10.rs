//! C10 — replica swaps use the exact Metropolis probability and swap only configurations.
//! (C05 reuses this file as a module: `#[path = "c10.rs"] mod c10;`.)
//!
//! The *real* `TemperingContainer` is driven with a `RecRng`; its replicas are the real samplers
//! (`QmcIsingGraph` / `Qmc`) wrapped in `Spy`, a pure delegation wrapper that records which trait
//! methods the container calls (`ham_eq`, `relative_weight` with the f64 it returned, `get_n`,
//! `swap_graphs`, cutoff get/set).  Every case is also re-run on an unwrapped container and must
//! end in the same state.  The order draw and every pair's uniform draw are **bisected**: the
//! flip point of the word feeding one decision is the probability the code uses.
//!
//! Oracle (model-independent): the Metropolis ratio computed in f64 from the operator strings
//! (`get_pth`) and the matrix elements (`QmcIsingGraph::hamiltonian` + `make_haminfo`,
//! `Interaction::at`) must equal the bisected probability; every position keeps its frame (JSON of
//! all fields except manager/state/cutoff); configurations move exactly as the accepted swaps say;
//! cutoffs are equalised to the previous maximum; `get_total_swaps` counts the accepted swaps;
//! the rayon step consumes the same words and ends in the same state.

use qmc::sse::fast_ops::FastOps;
use qmc::sse::parallel_tempering::*;
use qmc::sse::*;
use std::sync::{Arc, Mutex};
use vh::*;

// ------------------------------------------------------------------------------------------
// Spy wrapper
// ------------------------------------------------------------------------------------------
#[derive(Clone, Debug, PartialEq)]
pub enum Ev {
    HamEq(usize, usize, bool),
    RelW(usize, usize, f64),
    GetN(usize),
    Swap(usize, usize),
    GetCut(usize, usize),
    SetCut(usize, usize),
}

pub type Log = Arc<Mutex<Vec<Ev>>>;

#[derive(Clone)]
pub struct Spy<Q> {
    pub q: Q,
    pub id: usize,
    pub log: Log,
}
impl<Q> Spy<Q> {
    fn push(&self, e: Ev) {
        self.log.lock().unwrap().push(e)
    }
}
impl<Q: QmcStepper> QmcStepper for Spy<Q> {
    fn timestep(&mut self, beta: f64) -> &[bool] {
        self.q.timestep(beta)
    }
    fn get_n(&self) -> usize {
        self.push(Ev::GetN(self.id));
        self.q.get_n()
    }
    fn get_energy_for_average_n(&self, average_n: f64, beta: f64) -> f64 {
        self.q.get_energy_for_average_n(average_n, beta)
    }
    fn state_ref(&self) -> &[bool] {
        self.q.state_ref()
    }
    fn get_bond_count(&self, bond: usize) -> usize {
        self.q.get_bond_count(bond)
    }
    fn imaginary_time_fold<F, T>(&self, fold_fn: F, init: T) -> T
    where
        F: Fn(T, &[bool]) -> T,
    {
        self.q.imaginary_time_fold(fold_fn, init)
    }
}
impl<Q: GraphWeights> GraphWeights for Spy<Q> {
    fn ham_eq(&self, other: &Self) -> bool {
        let r = self.q.ham_eq(&other.q);
        self.push(Ev::HamEq(self.id, other.id, r));
        r
    }
    fn relative_weight(&self, h: &Self) -> f64 {
        let r = self.q.relative_weight(&h.q);
        self.push(Ev::RelW(self.id, h.id, r));
        r
    }
}
impl<Q: SwapManagers> SwapManagers for Spy<Q> {
    fn can_swap_graphs(&self, other: &Self) -> Result<(), String> {
        self.q.can_swap_graphs(&other.q)
    }
    fn swap_graphs(&mut self, other: &mut Self) {
        self.q.swap_graphs(&mut other.q);
        self.push(Ev::Swap(self.id, other.id));
    }
    fn get_op_cutoff(&self) -> usize {
        let c = self.q.get_op_cutoff();
        self.push(Ev::GetCut(self.id, c));
        c
    }
    fn set_op_cutoff(&mut self, cutoff: usize) {
        self.push(Ev::SetCut(self.id, cutoff));
        self.q.set_op_cutoff(cutoff)
    }
}

// ------------------------------------------------------------------------------------------
// The two replica kinds
// ------------------------------------------------------------------------------------------
pub type IsingQ = QmcIsingGraph<SplitMix64, FastOps>;
pub type GenQ = Qmc<SplitMix64, FastOps>;

pub type OpRec = (usize, Vec<usize>, Vec<bool>, Vec<bool>);

pub trait Rep: QmcStepper + GraphWeights + SwapManagers + Clone + Send + Sync {
    const KIND: &'static str;
    /// Hamiltonian tokens for the protocol
    fn describe(&self) -> String;
    fn slots(&self) -> String;
    fn ops(&self) -> Vec<OpRec>;
    fn mgr_cutoff(&self) -> usize;
    fn sampler_cutoff(&self) -> usize;
    fn json(&self) -> serde_json::Value;
    /// matrix element of this replica's Hamiltonian
    fn weight(&self, op: &OpRec) -> f64;
    /// one update sweep that does not go through `timestep`'s `debug_assert!(self.verify())`
    fn safe_step(&mut self, beta: f64);
    /// grow the operator manager by hand (public `get_manager_mut().set_cutoff`), leaving the sampler's
    /// own cutoff alone; false if this sampler kind offers no such route
    fn grow_manager(&mut self, to: usize) -> bool;
    /// the number of bonds the sampler's own updates may use (legal bond indices are below it)
    fn num_bonds(&self) -> usize;
    /// all bond indices a manager of this sampler may ever be asked about
    fn bond_range(&self) -> usize;
    fn self_verify(&self) -> bool;
    /// Snapshot / restore of a whole ladder through the library's serialisable form and JSON, then the
    /// restored ladder and an in-memory twin (same RNG states) are advanced in lock-step. `None`: this
    /// sampler kind has no serialisable ladder form. Ok((tempering steps, samples per replica)).
    fn ladder_snapshot_lockstep(_reps: &[(Self, f64)], _seed: u64, _t: usize, _sf: usize, _mf: usize) -> Option<Result<(usize, usize), String>> {
        None
    }
}

fn ops_of<M: OpContainer>(m: &M) -> Vec<OpRec> {
    (0..m.get_cutoff())
        .filter_map(|p| {
            m.get_pth(p).map(|op| {
                (
                    op.get_bond(),
                    op.get_vars().to_vec(),
                    op.get_inputs().to_vec(),
                    op.get_outputs().to_vec(),
                )
            })
        })
        .collect()
}

impl Rep for IsingQ {
    const KIND: &'static str = "i";
    fn describe(&self) -> String {
        let edges: Vec<String> = self
            .get_edges()
            .iter()
            .map(|(vs, j)| format!("{}:{}", vs.iter().map(|v| v.to_string()).collect::<Vec<_>>().join("."), rat(*j)))
            .collect();
        format!(
            "{} {} {} {}",
            if edges.is_empty() { "-".to_string() } else { edges.join(",") },
            rat(self.get_transverse_field()),
            rat(self.get_longitudinal_field()),
            self.get_nvars()
        )
    }
    fn slots(&self) -> String {
        show_slots(self.get_manager_ref())
    }
    fn ops(&self) -> Vec<OpRec> {
        ops_of(self.get_manager_ref())
    }
    fn mgr_cutoff(&self) -> usize {
        self.get_manager_ref().get_cutoff()
    }
    fn sampler_cutoff(&self) -> usize {
        self.get_cutoff()
    }
    fn json(&self) -> serde_json::Value {
        serde_json::to_value(self).unwrap()
    }
    fn weight(&self, op: &OpRec) -> f64 {
        let info = self.make_haminfo();
        IsingQ::hamiltonian(&info, &op.1, op.0, &op.2, &op.3)
    }
    fn safe_step(&mut self, beta: f64) {
        self.single_diagonal_step(beta);
        self.single_cluster_step();
    }
    fn grow_manager(&mut self, to: usize) -> bool {
        self.get_manager_mut().set_cutoff(to);
        true
    }
    fn num_bonds(&self) -> usize {
        let nv = self.get_nvars();
        self.get_edges().len() + nv + if self.get_longitudinal_field().abs() > f64::EPSILON { nv } else { 0 }
    }
    fn bond_range(&self) -> usize {
        self.get_edges().len() + 2 * self.get_nvars()
    }
    fn self_verify(&self) -> bool {
        self.verify()
    }
    fn ladder_snapshot_lockstep(reps: &[(Self, f64)], seed: u64, t: usize, sf: usize, mf: usize) -> Option<Result<(usize, usize), String>> {
        Some(ising_snapshot_lockstep(reps, seed, t, sf, mf))
    }
}

type PlainTC = TemperingContainer<RecRng, IsingQ>;

fn plain_digest(tc: &PlainTC) -> Vec<Snap> {
    tc.graph_ref().iter().map(|(q, _)| snap(q)).collect()
}

fn first_snap_diff(a: &[Snap], b: &[Snap]) -> Option<String> {
    for (i, (x, y)) in a.iter().zip(b.iter()).enumerate() {
        if x != y {
            let n = |s: &Snap| s.slots.split(':').nth(1).map(|o| o.split('+').filter(|t| !t.is_empty()).count()).unwrap_or(0);
            let what = if x.state != y.state {
                "spin state"
            } else if x.slots != y.slots {
                "operator string"
            } else if x.tag != y.tag {
                "non-moving fields"
            } else {
                "cutoff"
            };
            return Some(format!("position {}: {} differs (in-memory n = {}, restored n = {})", i, what, n(x), n(y)));
        }
    }
    if a.len() != b.len() { Some("ladder length differs".into()) } else { None }
}

/// in-memory ladder vs (SerializeTemperingContainer, rng, rngs) -> JSON -> `into_tempering_container_from_vec`
pub fn ising_snapshot_lockstep(reps: &[(IsingQ, f64)], seed: u64, t: usize, sf: usize, mf: usize) -> Result<(usize, usize), String> {
    let mk = || -> Result<PlainTC, String> {
        let mut p: PlainTC = TemperingContainer::new(RecRng::new(seed));
        for (q, b) in reps {
            p.add_qmc_stepper(q.clone(), *b)?;
        }
        Ok(p)
    };
    let mut mem = mk()?;
    let plain = mk()?;
    let n = reps.len();
    let mut res: PlainTC = catch(move || -> Result<PlainTC, String> {
        let (stc, rng, rngs): (SerializeTemperingContainer<FastOps>, RecRng, Vec<SplitMix64>) = plain.into();
        let text = serde_json::to_string(&stc).map_err(|e| e.to_string())?;
        let stc2: SerializeTemperingContainer<FastOps> = serde_json::from_str(&text).map_err(|e| e.to_string())?;
        Ok(stc2.into_tempering_container_from_vec(rng, rngs))
    })
    .map_err(|e| format!("snapshot/restore panicked: {}", e))??;
    if let Some(d) = first_snap_diff(&plain_digest(&mem), &plain_digest(&res)) {
        return Err(format!("restored ladder differs from the snapshotted one before any step: {}", d));
    }
    // lock-step rounds: time steps, compare; tempering step, compare
    for round in 0..4usize {
        let k = 1 + round % 3;
        catch(|| {
            mem.timesteps(k);
            res.timesteps(k);
        })
        .map_err(|e| format!("time steps panicked: {}", e))?;
        if let Some(d) = first_snap_diff(&plain_digest(&mem), &plain_digest(&res)) {
            return Err(format!("restored ladder left lock-step with its in-memory twin after {} time steps of round {}: {}", k, round, d));
        }
        catch(|| {
            mem.tempering_step();
            res.tempering_step();
        })
        .map_err(|e| format!("tempering step panicked: {}", e))?;
        if mem.get_total_swaps() != res.get_total_swaps() {
            return Err(format!("round {}: swap decisions differ (total_swaps {} in memory, {} restored)", round, mem.get_total_swaps(), res.get_total_swaps()));
        }
        if let Some(d) = first_snap_diff(&plain_digest(&mem), &plain_digest(&res)) {
            return Err(format!("round {}: after the tempering step {}", round, d));
        }
    }
    // the driver: returned samples and energies
    mem.rng_mut().take_log();
    res.rng_mut().take_log();
    let (ra, rb) = catch(|| (mem.timesteps_sample(t, sf, mf), res.timesteps_sample(t, sf, mf))).map_err(|e| format!("timesteps_sample panicked: {}", e))?;
    if ra.len() != rb.len() || ra.iter().zip(rb.iter()).any(|(x, y)| x.0 != y.0) {
        return Err("timesteps_sample: returned samples differ between the restored ladder and its in-memory twin".into());
    }
    if let Some((i, (x, y))) = ra.iter().zip(rb.iter()).enumerate().find(|(_, (x, y))| x.1 != y.1) {
        return Err(format!("timesteps_sample: energy of position {} is {} in memory and {} after restore", i, x.1, y.1));
    }
    let (wa, wb) = (mem.rng_mut().take_log(), res.rng_mut().take_log());
    if wa != wb {
        return Err("container RNG consumption differs after restore".into());
    }
    if let Some(d) = first_snap_diff(&plain_digest(&mem), &plain_digest(&res)) {
        return Err(format!("after timesteps_sample {}", d));
    }
    let nsw = if n >= 2 { wb.len() / n } else { t / sf };
    Ok((nsw, ra.first().map(|x| x.0.len()).unwrap_or(t / mf)))
}

impl Rep for GenQ {
    const KIND: &'static str = "g";
    fn describe(&self) -> String {
        // reconstructable description: every interaction as its full lookup table
        let bonds: Vec<String> = self
            .get_bonds()
            .iter()
            .map(|b| {
                let v = serde_json::to_value(b).unwrap();
                let vars: Vec<usize> = v["vars"].as_array().unwrap().iter().map(|x| x.as_u64().unwrap() as usize).collect();
                let mat: Vec<f64> = v["mat"].as_array().unwrap().iter().map(|x| x.as_f64().unwrap()).collect();
                let kind = if v["interaction_type"].is_string() { "d" } else { "f" };
                format!(
                    "{}:{}:{}",
                    kind,
                    vars.iter().map(|v| v.to_string()).collect::<Vec<_>>().join("."),
                    mat.iter().map(|x| rat(*x)).collect::<Vec<_>>().join(";")
                )
            })
            .collect();
        format!("{} {}", if bonds.is_empty() { "-".to_string() } else { bonds.join(",") }, self.state_ref().len())
    }
    fn slots(&self) -> String {
        show_slots(self.get_manager_ref())
    }
    fn ops(&self) -> Vec<OpRec> {
        ops_of(self.get_manager_ref())
    }
    fn mgr_cutoff(&self) -> usize {
        self.get_manager_ref().get_cutoff()
    }
    fn sampler_cutoff(&self) -> usize {
        self.get_cutoff()
    }
    fn json(&self) -> serde_json::Value {
        serde_json::to_value(self).unwrap()
    }
    fn weight(&self, op: &OpRec) -> f64 {
        self.get_bonds()[op.0].at(&op.2, &op.3).unwrap()
    }
    fn safe_step(&mut self, beta: f64) {
        self.timestep(beta);
    }
    fn grow_manager(&mut self, _to: usize) -> bool {
        false
    }
    fn num_bonds(&self) -> usize {
        self.get_bonds().len()
    }
    fn bond_range(&self) -> usize {
        self.get_bonds().len()
    }
    fn self_verify(&self) -> bool {
        true
    }
}

fn fnv(s: &str) -> u64 {
    let mut h: u64 = 0xcbf29ce484222325;
    for b in s.bytes() {
        h ^= b as u64;
        h = h.wrapping_mul(0x100000001b3);
    }
    h
}

/// Everything that must stay with the ladder position: all fields except the operator manager,
/// the spin state and the cutoff (raised to the ladder maximum).
pub fn frame_tag<Q: Rep>(q: &Q) -> String {
    let mut v = q.json();
    let o = v.as_object_mut().unwrap();
    for k in ["op_manager", "manager", "state", "cutoff"] {
        o.remove(k);
    }
    format!("{:016x}", fnv(&v.to_string()))
}

pub type TC<Q> = TemperingContainer<RecRng, Spy<Q>>;

pub fn new_log() -> Log {
    Arc::new(Mutex::new(vec![]))
}

pub fn set_log<Q: Rep>(tc: &mut TC<Q>, log: &Log) {
    for (g, _) in tc.graph_mut().iter_mut() {
        g.log = log.clone();
    }
}

pub fn build<Q: Rep>(reps: Vec<(Q, f64)>, log: &Log) -> Result<TC<Q>, String> {
    let mut tc: TC<Q> = TemperingContainer::new(RecRng::new(0));
    for (id, (q, beta)) in reps.into_iter().enumerate() {
        tc.add_qmc_stepper(Spy { q, id, log: log.clone() }, beta)?;
    }
    Ok(tc)
}

#[derive(Clone, PartialEq, Debug)]
pub struct Snap {
    pub sampler_cutoff: usize,
    pub mgr_cutoff: usize,
    pub state: Vec<bool>,
    pub slots: String,
    pub tag: String,
}
pub fn snap<Q: Rep>(q: &Q) -> Snap {
    Snap {
        sampler_cutoff: q.sampler_cutoff(),
        mgr_cutoff: q.mgr_cutoff(),
        state: q.state_ref().to_vec(),
        slots: q.slots(),
        tag: frame_tag(q),
    }
}
pub fn snaps<Q: Rep>(tc: &TC<Q>) -> Vec<Snap> {
    tc.graph_ref().iter().map(|(g, _)| snap(&g.q)).collect()
}

/// Run one tempering step (serial or rayon) on a clone with the given script; returns the clone,
/// the words consumed and the spy log.
pub fn run_step<Q: Rep>(tc: &TC<Q>, script: &[u64], parallel: bool) -> Result<(TC<Q>, Vec<u64>, Vec<Ev>), String> {
    let mut c = tc.clone();
    let log = new_log();
    set_log(&mut c, &log);
    *c.rng_mut() = RecRng::scripted(script.to_vec(), 0x5eed ^ script.len() as u64);
    let r = catch(|| {
        if parallel {
            c.parallel_tempering_step()
        } else {
            c.tempering_step()
        }
    });
    r?;
    let words = c.rng_mut().take_log();
    let evs = log.lock().unwrap().clone();
    Ok((c, words, evs))
}

/// The pair decisions in execution order, reconstructed from the spy log of a *serial* step:
/// every `swap_on_chunks` call ends with `get_n(b); get_n(a)` and an optional `swap(a,b)`.
#[derive(Clone, Debug)]
pub struct Decision {
    pub left: usize,
    pub evaluated: bool,
    pub rel_b: f64, // ga.relative_weight(gb)
    pub rel_a: f64, // gb.relative_weight(ga)
    pub accepted: bool,
}
pub fn decisions(evs: &[Ev]) -> Vec<Decision> {
    let mut out = vec![];
    let mut i = 0;
    let mut rels: Vec<(usize, usize, f64)> = vec![];
    while i < evs.len() {
        match &evs[i] {
            Ev::RelW(s, o, r) => {
                rels.push((*s, *o, *r));
                i += 1;
            }
            Ev::GetN(x) => {
                // the two `get_n` calls of one `swap_on_chunks` (in either order), then an optional swap
                let y = match evs.get(i + 1) {
                    Some(Ev::GetN(y)) => *y,
                    _ => *x + 1,
                };
                let a = (*x).min(y);
                let accepted = matches!(evs.get(i + 2), Some(Ev::Swap(p, q)) if (*p).min(*q) == a);
                let evaluated = !rels.is_empty();
                let (rel_b, rel_a) = if evaluated && rels.len() == 2 {
                    (rels[0].2, rels[1].2)
                } else {
                    (1.0, 1.0)
                };
                out.push(Decision {
                    left: a,
                    evaluated,
                    rel_b,
                    rel_a,
                    accepted,
                });
                rels.clear();
                i += if accepted { 3 } else { 2 };
            }
            _ => i += 1,
        }
    }
    out
}

fn has_swap(evs: &[Ev], left: usize) -> bool {
    evs.iter().any(|e| matches!(e, Ev::Swap(a, b) if *a == left && *b == left + 1))
}

/// Bisect the word at `idx` of `script`: probability that pair `left` swaps, on the 2^-52 grid of
/// `gen_range(0.0..1.0)`.
pub fn bisect_pair<Q: Rep>(tc: &TC<Q>, script: &[u64], idx: usize, left: usize) -> Result<f64, String> {
    let f = |k: u64| -> Result<bool, String> {
        let mut s = script.to_vec();
        s[idx] = k << 12;
        let (_, _, evs) = run_step(tc, &s, false)?;
        Ok(has_swap(&evs, left))
    };
    let top = (1u64 << 52) - 1;
    if !f(0)? {
        return Ok(0.0);
    }
    if f(top)? {
        return Ok(1.0);
    }
    // invariant: f(lo) = true, f(hi) = false
    let (mut lo, mut hi) = (0u64, top);
    while hi - lo > 1 {
        let mid = lo + (hi - lo) / 2;
        if f(mid)? {
            lo = mid
        } else {
            hi = mid
        }
    }
    Ok(hi as f64 / (1u64 << 52) as f64)
}

/// which pair is treated first (0 → phase a first, 1 → phase b first); needs ≥ 3 replicas
fn first_left(evs: &[Ev]) -> Option<usize> {
    for (i, e) in evs.iter().enumerate() {
        match e {
            Ev::RelW(s, o, _) => return Some((*s).min(*o)),
            Ev::GetN(x) => {
                return match evs.get(i + 1) {
                    Some(Ev::GetN(y)) => Some((*x).min(*y)),
                    _ => Some(x.saturating_sub(1)),
                }
            }
            _ => {}
        }
    }
    None
}

/// Bisect the order word: smallest word for which phase b runs first.
pub fn bisect_order<Q: Rep>(tc: &TC<Q>, script: &[u64]) -> Result<Option<u128>, String> {
    if tc.num_graphs() < 3 {
        return Ok(None);
    }
    let f = |w: u64| -> Result<bool, String> {
        let mut s = script.to_vec();
        s[0] = w;
        let (_, _, evs) = run_step(tc, &s, false)?;
        Ok(first_left(&evs) == Some(0))
    };
    if !f(0)? {
        return Ok(Some(0));
    }
    if f(u64::MAX)? {
        return Ok(Some(1u128 << 64));
    }
    let (mut lo, mut hi) = (0u64, u64::MAX);
    while hi - lo > 1 {
        let mid = lo + (hi - lo) / 2;
        if f(mid)? {
            lo = mid
        } else {
            hi = mid
        }
    }
    Ok(Some(hi as u128))
}

fn fl(x: f64) -> String {
    if x.is_infinite() {
        if x > 0.0 { "inf".into() } else { "-inf".into() }
    } else if x.is_nan() {
        "nan".into()
    } else {
        format!("~{:.17e}", x)
    }
}
fn inv(x: f64) -> f64 {
    1.0 / x
}

/// Model-independent Metropolis probability of exchanging the configurations of `a` and `b`
/// (equal cutoffs): min(1, W_a(C_b) W_b(C_a) / (W_a(C_a) W_b(C_b))), W_x(C) = beta_x^n (L-n)!/L! prod w_x.
pub fn oracle_ratio<Q: Rep>(a: &Q, ba: f64, b: &Q, bb: f64) -> f64 {
    oracle_ratio_l(a, ba, b, bb, None)
}

/// (L-n)!/L!
fn comb(l: usize, n: usize) -> f64 {
    if n > l {
        return f64::NAN;
    }
    let mut r = 1.0f64;
    for k in 0..n {
        r /= (l - k) as f64;
    }
    r
}

/// `cutoffs`: the sampler cutoffs in force at the two positions (None: equal, the factor cancels).
/// The product is taken ratio by ratio so that it does not depend on the energy unit.
pub fn oracle_ratio_l<Q: Rep>(a: &Q, ba: f64, b: &Q, bb: f64, cutoffs: Option<(usize, usize)>) -> f64 {
    let (ca, cb) = (a.ops(), b.ops());
    let (na, nb) = (ca.len(), cb.len());
    // an operator of weight exactly 0 under the receiving Hamiltonian: the ratio is 0, whatever the other factors
    // overflow to in floating point
    if cb.iter().any(|op| a.weight(op) == 0.0) || ca.iter().any(|op| b.weight(op) == 0.0) {
        return 0.0;
    }
    // everything else in logarithms (no overflow / underflow of intermediate products)
    let mut lr = (nb as f64 - na as f64) * (ba / bb).ln();
    for op in &cb {
        // W_a(C_b) / W_b(C_b)
        lr += (a.weight(op) / b.weight(op)).ln();
    }
    for op in &ca {
        lr += (b.weight(op) / a.weight(op)).ln();
    }
    if let Some((la, lb)) = cutoffs {
        if la != lb {
            let c = comb(la, nb) * comb(lb, na) / (comb(la, na) * comb(lb, nb));
            if c.is_nan() {
                return f64::NAN;
            }
            lr += c.ln();
        }
    }
    if lr >= 0.0 { 1.0 } else { lr.exp() }
}

/// Independent legality / bookkeeping check of one replica: every stored operator has a bond index
/// below the sampler's `num_bonds` and a positive weight under ITS Hamiltonian; `get_bond_count`
/// equals a scan of the string for every bond.
pub fn replica_sound<Q: Rep>(q: &Q) -> Result<(), String> {
    let ops = q.ops();
    let nb = q.num_bonds();
    for op in &ops {
        if op.0 >= nb {
            return Err(format!("operator on bond {} but the Hamiltonian has only {} bonds", op.0, nb));
        }
        let w = q.weight(op);
        if !(w > 0.0) {
            return Err(format!("operator on bond {} {:?}->{:?} has weight {} under this position's Hamiltonian", op.0, op.2, op.3, w));
        }
    }
    for b in 0..q.bond_range() {
        let scan = ops.iter().filter(|o| o.0 == b).count();
        let got = q.get_bond_count(b);
        if got != scan {
            return Err(format!("get_count({}) = {} but the string holds {} operators of that bond", b, got, scan));
        }
    }
    Ok(())
}

fn describe_container<Q: Rep>(tc: &TC<Q>) -> String {
    let mut parts = vec![];
    for (g, beta) in tc.graph_ref() {
        let s = snap(&g.q);
        parts.push(format!(
            "{} {} {} {} {} {}",
            g.q.describe(),
            rat(*beta),
            s.sampler_cutoff,
            bits(&s.state),
            s.slots,
            s.tag
        ));
    }
    parts.join(" ")
}

fn describe_after(s: &[Snap]) -> String {
    s.iter()
        .map(|s| format!("{} {} {} {} {}", s.sampler_cutoff, s.mgr_cutoff, bits(&s.state), s.slots, s.tag))
        .collect::<Vec<_>>()
        .join(" ")
}

/// One full case on the current state of `tc` (not modified): serial step with `script`, bisection
/// of every decision, unwrapped and rayon re-runs, oracle. Emits the `sw` line and a `psw` line.
pub struct StepOut<Q: Rep> {
    pub after: TC<Q>,
    pub par_after: TC<Q>,
    pub words: Vec<u64>,
}

/// history token of a container that was filled up front
pub fn hist_of(n: usize) -> String {
    "a".repeat(n)
}

/// Serial continuation: runs the case, appends `s` to the call history.
pub fn step_case<Q: Rep>(tc: &TC<Q>, script_seed: u64, bisect: bool, hist: &mut String) -> Result<(TC<Q>, Vec<u64>), String> {
    let o = step_case_ex(tc, script_seed, bisect, hist)?;
    hist.push('s');
    Ok((o.after, o.words))
}

/// `hist`: the public calls made on this container so far (`a` add, `s` tempering_step, `p`
/// parallel_tempering_step) — the model replays them to know the state of the ham_eq caches.
pub fn step_case_ex<Q: Rep>(tc: &TC<Q>, script_seed: u64, bisect: bool, hist: &str) -> Result<StepOut<Q>, String> {
    let n = tc.num_graphs();
    let mut g = SplitMix64::new(script_seed);
    // enough words for the order draw and all pairs
    let script: Vec<u64> = (0..n + 1).map(|_| g.next()).collect();
    let before = snaps(tc);
    let betas: Vec<f64> = tc.graph_ref().iter().map(|(_, b)| *b).collect();
    let swaps_before = tc.get_total_swaps();
    let (after_tc, words, evs) = run_step(tc, &script, false)?;
    let after = snaps(&after_tc);
    let decs = decisions(&evs);
    let mut oracle: Result<(), String> = Ok(());
    let mut fail = |m: String| {
        if oracle.is_ok() {
            oracle = Err(m)
        }
    };

    // --- draw accounting: one order word + one word per adjacent pair (n >= 2) ---
    let expect_words = if n <= 1 { 0 } else { n };
    if words.len() != expect_words {
        fail(format!("drew {} words, expected {}", words.len(), expect_words));
    }
    // every adjacent pair exactly once, same-phase pairs disjoint and contiguous
    {
        let mut lefts: Vec<usize> = decs.iter().map(|d| d.left).collect();
        lefts.sort();
        if n >= 2 && lefts != (0..n - 1).collect::<Vec<_>>() {
            // name the neighbour pairs of the current ladder without exactly one decision
            let mut bad = vec![];
            for l in 0..n - 1 {
                let c = lefts.iter().filter(|x| **x == l).count();
                if c != 1 {
                    let gr = tc.graph_ref();
                    let r = oracle_ratio(&gr[l].0.q, betas[l], &gr[l + 1].0.q, betas[l + 1]);
                    bad.push(format!("({},{}) got {} decisions (Metropolis ratio at step start {:.6})", l, l + 1, c, r));
                }
            }
            fail(format!(
                "every neighbour pair of the current ladder must get exactly one decision per step: {}; pairs attempted: {:?}",
                bad.join(", "),
                lefts
            ));
        }
    }
    if n >= 2 && decs.len() != n - 1 {
        fail(format!("{} pair decisions for {} replicas", decs.len(), n));
    }
    // --- cutoffs equalised to the previous maximum ---
    let maxc = before.iter().map(|s| s.sampler_cutoff).max().unwrap_or(0);
    if n >= 2 {
        for (i, s) in after.iter().enumerate() {
            if s.sampler_cutoff != maxc || s.mgr_cutoff < maxc {
                fail(format!(
                    "after a tempering step all replicas must report ONE cutoff, the previous ladder maximum {}: position {} reports cutoff {} (manager holds {} slots)",
                    maxc, i, s.sampler_cutoff, s.mgr_cutoff
                ));
            }
        }
    }
    // --- right after the step every string is legal for ITS Hamiltonian and the counters match a scan ---
    for (i, (q, _)) in after_tc.graph_ref().iter().enumerate() {
        if let Err(m) = replica_sound(&q.q) {
            fail(format!("after the tempering step, position {}: {}", i, m));
        }
    }
    // --- frames stay, configurations move exactly as the accepted swaps say ---
    let mut perm: Vec<usize> = (0..n).collect(); // perm[pos] = original index of the configuration now at pos
    for d in &decs {
        if d.accepted && d.left + 1 < n {
            perm.swap(d.left, d.left + 1);
        }
    }
    for i in 0..n {
        if after[i].tag != before[i].tag {
            fail(format!("position {} did not keep its Hamiltonian/beta/offset/rng/bond-weight fields", i));
        }
        let src = &before[perm[i]];
        let ops_a = after[i].slots.split(':').nth(1).unwrap_or("");
        let ops_b = src.slots.split(':').nth(1).unwrap_or("");
        if after[i].state != src.state || ops_a != ops_b {
            fail(format!("position {} does not hold the configuration of former position {}", i, perm[i]));
        }
    }
    // --- counter counts accepted exchanges ---
    let acc = decs.iter().filter(|d| d.accepted).count() as u64;
    if after_tc.get_total_swaps() != swaps_before + acc {
        fail(format!("total_swaps {} -> {} with {} accepted exchanges", swaps_before, after_tc.get_total_swaps(), acc));
    }
    // --- unwrapped container: same result ---
    {
        let mut plain: TemperingContainer<RecRng, Q> = TemperingContainer::new(RecRng::scripted(script.clone(), 0x5eed ^ script.len() as u64));
        for (g, b) in tc.graph_ref() {
            plain.add_qmc_stepper(g.q.clone(), *b)?;
        }
        let r = catch(|| plain.tempering_step());
        r?;
        let ps: Vec<Snap> = plain.graph_ref().iter().map(|(g, _)| snap(g)).collect();
        if ps != after || plain.rng_mut().log != words || plain.get_total_swaps() != acc {
            fail("unwrapped container ends in a different state than the spied one".into());
        }
    }
    // --- rayon step: same words, same state ---
    let (par_tc, par_words, par_evs) = run_step(tc, &script, true)?;
    let par_after = snaps(&par_tc);
    if n >= 2 && (par_words != words || par_after != after || par_tc.get_total_swaps() != after_tc.get_total_swaps()) {
        fail("parallel_tempering_step differs from tempering_step on the same draws".into());
    }
    let par_acc = par_evs.iter().filter(|e| matches!(e, Ev::Swap(_, _))).count();

    // --- bisection of every decision on this path ---
    let mut dec_tokens = vec![];
    let mut state_tc = tc.clone(); // container as it is when each decision is taken (for the oracle)
    let mut n_eval = 0;
    let mut n_acc = 0;
    let mut n_rej = 0;
    for (k, d) in decs.iter().enumerate() {
        let idx = k + 1;
        if d.left + 1 >= n {
            fail(format!("decision on a pair outside the ladder: left = {}", d.left));
            continue;
        }
        let p = if bisect { bisect_pair(tc, &script, idx, d.left)? } else { -1.0 };
        // oracle on the configurations present at decision time
        let (ga, gb) = {
            let gr = state_tc.graph_ref();
            (gr[d.left].0.q.clone(), gr[d.left + 1].0.q.clone())
        };
        let want = oracle_ratio_l(&ga, betas[d.left], &gb, betas[d.left + 1], Some((after[d.left].sampler_cutoff, after[d.left + 1].sampler_cutoff)));
        if want.is_nan() {
            fail(format!("pair ({},{}): the Metropolis ratio is undefined with the cutoffs in force (a string longer than its position's cutoff)", d.left, d.left + 1));
        }
        if bisect && (p - want).abs() > 1e-9 {
            fail(format!(
                "pair ({},{}) swaps with probability {:.12} but the Metropolis ratio of the configurations is {:.12}",
                d.left,
                d.left + 1,
                p,
                want
            ));
        }
        if bisect && want == 0.0 && p != 0.0 {
            fail(format!(
                "pair ({},{}) has Metropolis ratio 0 (a zero-weight configuration would be created) but is exchanged when the uniform draw is 0.0",
                d.left,
                d.left + 1
            ));
        }
        if want == 0.0 {
            stat(&format!("{}.zero_ratio_pairs", Q::KIND), 1);
        }
        if want >= 1.0 && !d.accepted {
            fail(format!("pair ({},{}) has Metropolis ratio 1 and must always be exchanged, but was not", d.left, d.left + 1));
        }
        if want >= 1.0 {
            stat(&format!("{}.ratio_one_pairs", Q::KIND), 1);
        }
        let u = ((words.get(idx).copied().unwrap_or(0) >> 12) as f64) / (1u64 << 52) as f64;
        if (want - u).abs() > 1e-9 && d.accepted != (want > u) {
            fail(format!("pair ({},{}) decision {} with u={} ratio={}", d.left, d.left + 1, d.accepted, u, want));
        }
        if d.accepted {
            let gm = state_tc.graph_mut();
            let (l, r) = gm.split_at_mut(d.left + 1);
            l[d.left].0.q.swap_graphs(&mut r[0].0.q);
            n_acc += 1;
        } else {
            n_rej += 1;
        }
        if d.evaluated {
            n_eval += 1;
        }
        let mut t = format!("{} {} {} {}", d.left, if d.evaluated { "V" } else { "E" }, d.accepted as u8, if bisect { fl(p) } else { "x".into() });
        if bisect {
            t.push_str(&format!(" {} {}", fl(p), if p == 0.0 { "Z" } else { "N" }));
        } else {
            t.push_str(" x x");
        }
        if d.evaluated {
            t.push_str(&format!(" {} {} {} {}", fl(d.rel_b), fl(inv(d.rel_b)), fl(d.rel_a), fl(inv(d.rel_a))));
        }
        dec_tokens.push(t);
    }
    let order = if bisect { bisect_order(tc, &script)? } else { None };
    let order_tok = match order {
        Some(w) => w.to_string(),
        None => "-".into(),
    };

    let htok = if hist.is_empty() { "-".to_string() } else { hist.to_string() };
    let input = format!(
        "sw {} {} {} {} {} {} {}",
        Q::KIND,
        if bisect { 1 } else { 0 },
        n,
        swaps_before,
        list(&words),
        htok,
        describe_container(tc)
    );
    let output = format!(
        "{} {} {} {} {} ok",
        describe_after(&after),
        after_tc.get_total_swaps(),
        order_tok,
        decs.len(),
        if dec_tokens.is_empty() { "-".to_string() } else { dec_tokens.join(" ") }
    );
    let nontrivial = n_eval > 0 || (n_acc > 0 && n_rej > 0) || decs.iter().any(|d| !d.accepted);
    {
        let mut no_table = 0u64;
        let mut beyond = 0u64;
        for (q, _) in tc.graph_ref() {
            let j = q.q.json();
            let m = j.get("op_manager").or_else(|| j.get("manager"));
            if let Some(m) = m {
                if m.get("bond_counters").map(|b| b.is_null()).unwrap_or(false) {
                    no_table += 1;
                    // operators stored at imaginary-time positions p > n
                    let nn = q.q.get_n();
                    let s = q.q.slots();
                    let ops = s.split(':').nth(1).unwrap_or("");
                    if ops.split('+').filter(|t| !t.is_empty()).any(|t| t.split('@').next().and_then(|p| p.parse::<usize>().ok()).map(|p| p > nn).unwrap_or(false)) {
                        beyond += 1;
                    }
                }
            }
        }
        stat(&format!("{}.replicas_without_count_table", Q::KIND), no_table);
        stat(&format!("{}.tableless_replicas_with_ops_beyond_n", Q::KIND), beyond);
    }
    stat(&format!("{}.replicas_{}", Q::KIND, n), 1);
    stat(&format!("{}.decisions_evaluated", Q::KIND), n_eval);
    stat(&format!("{}.decisions_hameq_shortcut", Q::KIND), decs.len() - n_eval);
    stat(&format!("{}.accepted", Q::KIND), n_acc);
    stat(&format!("{}.rejected", Q::KIND), n_rej);
    stat(&format!("{}.unequal_cutoffs_before", Q::KIND), (before.iter().any(|s| s.sampler_cutoff != maxc)) as u64);
    emit(nontrivial, &input, &output, Some(oracle));

    // the rayon step as its own (cheap) case: same inputs, its own word log and result
    let pin = format!("psw {} 0 {} {} {} {} {}", Q::KIND, n, swaps_before, list(&par_words), htok, describe_container(tc));
    let pout = format!("{} {} {} ok", describe_after(&par_after), par_tc.get_total_swaps(), par_acc);
    emit(nontrivial, &pin, &pout, None);
    Ok(StepOut { after: after_tc, par_after: par_tc, words })
}

// ------------------------------------------------------------------------------------------
// Generators
// ------------------------------------------------------------------------------------------
#[derive(Clone, Debug)]
pub struct IsingSpec {
    pub edges: Vec<((usize, usize), f64)>,
    pub gamma: f64,
    pub h: f64,
    pub beta: f64,
    pub cutoff: usize,
    pub heatbath: bool,
    pub rvb: bool,
    /// build the operator manager WITHOUT a per-bond counter table (`FastOps::new_from_nvars` through
    /// `new_with_rng_with_manager_hook`): `get_count` then walks the operator string
    pub no_table: bool,
    /// small energy units: advance with `safe_step` (see `advance`)
    pub tiny: bool,
}

pub fn make_ising(s: &IsingSpec, seed: u64) -> IsingQ {
    let mut rng = SplitMix64::new(seed);
    let nvars = s.edges.iter().map(|((a, b), _)| (*a).max(*b)).max().unwrap() + 1;
    let state: Vec<bool> = (0..nvars).map(|_| rng.coin()).collect();
    let mut q = if s.no_table {
        IsingQ::new_with_rng_with_manager_hook(s.edges.clone(), s.gamma, s.h, s.cutoff, rng, Some(state), |nvars, _nbonds| FastOps::new_from_nvars(nvars))
    } else {
        IsingQ::new_with_rng(s.edges.clone(), s.gamma, s.h, s.cutoff, rng, Some(state))
    };
    if s.heatbath {
        q.set_enable_heatbath(true);
    }
    if s.rvb {
        q.set_run_rvb(true);
    }
    q
}

pub fn random_graph(g: &mut SplitMix64, nvars: usize) -> Vec<(usize, usize)> {
    // a spanning chain (so that every variable occurs) plus a few extra edges (multi-edges allowed)
    let mut e: Vec<(usize, usize)> = (0..nvars - 1).map(|i| (i, i + 1)).collect();
    let extra = g.below(3) as usize;
    for _ in 0..extra {
        let a = g.below(nvars as u64) as usize;
        let mut b = g.below(nvars as u64) as usize;
        if a == b {
            b = (a + 1) % nvars;
        }
        e.push((a.min(b), a.max(b)));
    }
    e
}

/// A ladder of `n` Ising replicas. `kind`: 0 beta, 1 J, 2 gamma, 3 h, 4 mixed, 5 mixed with repeated
/// neighbours (so that some pairs are ham_eq and others are not).
pub fn ising_ladder_base(g: &mut SplitMix64, n: usize, kind: u64, allow_rvb: bool) -> Vec<IsingSpec> {
    let nvars = 2 + g.below(3) as usize;
    let graph = random_graph(g, nvars);
    let signs: Vec<f64> = graph.iter().map(|_| if g.chance(1, 3) { -1.0 } else { 1.0 }).collect();
    let base_j: Vec<f64> = graph.iter().map(|_| g.range(1, 6) as f64 / 4.0).collect();
    let base_gamma = g.range(1, 6) as f64 / 4.0;
    let hsign = if g.coin() { 1.0 } else { -1.0 };
    let use_h = kind == 3 || ((kind == 4 || kind == 5) && g.coin()) || (kind < 3 && g.chance(1, 4));
    let base_h = if use_h { hsign * g.range(1, 4) as f64 / 4.0 } else { 0.0 };
    let base_beta = g.range(2, 8) as f64 / 4.0;
    let heat = g.chance(1, 3);
    let uniform_j = g.chance(1, 3);
    // 0: all managers carry the count table, 1: none does, 2: mixed ladder
    let table_mode = g.below(3);
    // generous cutoffs for some ladders: low operator density, many operators at positions p > n
    let roomy = g.chance(1, 3);
    let mut out: Vec<IsingSpec> = vec![];
    for i in 0..n {
        let repeat = kind == 5 && i > 0 && g.chance(1, 2);
        if repeat {
            let mut s = out[i - 1].clone();
            if g.coin() {
                s.beta = g.range(1, 8) as f64 / 4.0;
            }
            s.cutoff = if roomy { 24 + g.below(40) as usize } else { 1 + g.below(6) as usize };
            out.push(s);
            continue;
        }
        let vary_j = kind == 1 || kind >= 4;
        let vary_g = kind == 2 || kind >= 4;
        let vary_h = kind == 3 || kind >= 4;
        let vary_b = kind == 0 || (kind >= 4 && g.coin());
        let edges: Vec<((usize, usize), f64)> = graph
            .iter()
            .enumerate()
            .map(|(k, e)| {
                let mag = if uniform_j {
                    if vary_j { (1 + i) as f64 / 4.0 } else { base_j[0] }
                } else if vary_j {
                    g.range(1, 8) as f64 / 4.0
                } else {
                    base_j[k]
                };
                (*e, signs[k] * mag)
            })
            .collect();
        let gamma = if vary_g { g.range(1, 8) as f64 / 4.0 } else { base_gamma };
        let h = if !use_h {
            0.0
        } else if vary_h {
            // same sign; zero allowed only for a positive field (signum(0.0) = +1)
            let lo = if hsign > 0.0 && g.chance(1, 5) { 0 } else { 1 };
            hsign * g.range(lo, 6) as f64 / 4.0
        } else {
            base_h
        };
        let beta = if vary_b { g.range(1, 10) as f64 / 4.0 } else { base_beta };
        out.push(IsingSpec {
            edges,
            gamma,
            h,
            beta,
            cutoff: if roomy { 24 + g.below(40) as usize } else { 1 + g.below(6) as usize },
            heatbath: heat && g.chance(3, 4),
            rvb: allow_rvb && uniform_j && !vary_j && g.chance(1, 2),
            no_table: match table_mode {
                0 => false,
                1 => true,
                _ => g.coin(),
            },
            tiny: false,
        });
    }
    out
}


/// Ladder families. 0..5: see `ising_ladder_base`. 6: a multigraph with two PARALLEL edges of OPPOSITE
/// sign on the same ordered site pair, RVB updates on (they move a bond operator from one copy to the other:
/// same variables, other bond), J magnitudes varying independently per edge along the ladder. 7: h = 0
/// positions mixed with h > 0 positions at small beta*h (strings without field operators are common, so
/// exchanges out of and into the h = 0 positions do happen). 8: "small energy units": a ladder of kind
/// 1..5 with J, Gamma, h scaled by 2^-56 or 2^-58 and beta by the inverse (all exact), so that Hamiltonians
/// that differ by a factor differ by far less than f64::EPSILON in absolute terms.
pub fn ising_ladder(g: &mut SplitMix64, n: usize, kind: u64, allow_rvb: bool) -> Vec<IsingSpec> {
    match kind {
        6 => {
            let nvars = 2 + g.below(3) as usize;
            let mut graph: Vec<(usize, usize)> = (0..nvars - 1).map(|i| (i, i + 1)).collect();
            let mut signs: Vec<f64> = graph.iter().map(|_| if g.chance(1, 3) { -1.0 } else { 1.0 }).collect();
            // opposite-sign twin of one or two chain edges
            let twins = 1 + g.below(2) as usize;
            for t in 0..twins.min(nvars - 1) {
                graph.push(graph[t]);
                signs.push(-signs[t]);
            }
            let gamma = g.range(1, 6) as f64 / 4.0;
            let beta = g.range(2, 7) as f64 / 4.0;
            let vary_b = g.chance(1, 3);
            let table_mode = g.below(3);
            (0..n)
                .map(|_| IsingSpec {
                    edges: graph.iter().enumerate().map(|(k, e)| (*e, signs[k] * g.range(1, 8) as f64 / 4.0)).collect(),
                    gamma,
                    h: 0.0,
                    beta: if vary_b { g.range(2, 8) as f64 / 4.0 } else { beta },
                    cutoff: 1 + g.below(6) as usize,
                    heatbath: false,
                    rvb: true,
                    no_table: match table_mode {
                        0 => false,
                        1 => true,
                        _ => g.coin(),
                    },
                    tiny: false,
                })
                .collect()
        }
        7 => {
            let mut specs = ising_ladder_base(g, n, 3, false);
            let hunit = (1 + g.below(2)) as f64 / 4.0;
            let phase = g.below(2) as usize;
            for (i, s) in specs.iter_mut().enumerate() {
                s.h = if i % 2 == phase { 0.0 } else { hunit * (1 + g.below(2)) as f64 };
                s.beta = (1 + g.below(3)) as f64 / 4.0;
                s.rvb = false;
            }
            specs
        }
        8 => {
            let base = 1 + g.below(5);
            let mut specs = ising_ladder_base(g, n, base, false);
            let sc = if g.coin() { (2.0f64).powi(-56) } else { (2.0f64).powi(-58) };
            for s in specs.iter_mut() {
                for e in s.edges.iter_mut() {
                    e.1 *= sc;
                }
                s.gamma *= sc;
                s.h *= sc;
                s.beta /= sc;
                s.heatbath = false;
                s.rvb = false;
                s.tiny = true;
            }
            specs
        }
        k => ising_ladder_base(g, n, k, allow_rvb),
    }
}

/// `t` update sweeps of every replica. Ladders in small energy units are advanced with
/// `single_diagonal_step` + `single_cluster_step` (see `Rep::safe_step`), everything else with the
/// real `timesteps`.
pub fn advance<Q: Rep>(tc: &mut TC<Q>, t: usize, safe: bool) -> Result<(), String> {
    catch(|| {
        if safe {
            for (q, beta) in tc.graph_mut().iter_mut() {
                for _ in 0..t {
                    q.q.safe_step(*beta);
                }
            }
        } else {
            tc.timesteps(t)
        }
    })
}

/// Grow one or two operator managers by hand through the public `get_manager_mut().set_cutoff`
/// (the sampler's own cutoff and verify() are unaffected): the manager then holds more slots than
/// its sampler's cutoff, possibly more than the ladder maximum.
pub fn grow_managers_by_hand<Q: Rep>(tc: &mut TC<Q>, g: &mut SplitMix64) {
    let n = tc.num_graphs();
    if n == 0 {
        return;
    }
    let maxc = tc.graph_ref().iter().map(|(q, _)| q.q.sampler_cutoff()).max().unwrap_or(0);
    for _ in 0..1 + g.below(2) {
        let i = g.below(n as u64) as usize;
        let to = if g.coin() { maxc + 1 + g.below(12) as usize } else { tc.graph_ref()[i].0.q.mgr_cutoff() + 1 + g.below(6) as usize };
        if tc.graph_mut()[i].0.q.grow_manager(to) {
            stat(&format!("{}.managers_grown_by_hand", Q::KIND), 1);
        }
    }
}

pub fn build_ising(g: &mut SplitMix64, specs: &[IsingSpec], log: &Log) -> Result<TC<IsingQ>, String> {
    let reps: Vec<(IsingQ, f64)> = specs.iter().map(|s| (make_ising(s, g.next()), s.beta)).collect();
    build(reps, log)
}

#[derive(Clone, Debug)]
pub struct GenSpec {
    pub nvars: usize,
    pub inters: Vec<(bool, Vec<f64>, Vec<usize>)>, // (diagonal?, matrix, vars)
    pub beta: f64,
    pub loops: bool,
    pub heatbath: bool,
}

pub fn make_gen(s: &GenSpec, seed: u64) -> Result<GenQ, String> {
    let mut rng = SplitMix64::new(seed);
    let state: Vec<bool> = (0..s.nvars).map(|_| rng.coin()).collect();
    let mut q = GenQ::new_with_state(s.nvars, rng, state, s.loops);
    for (diag, mat, vars) in &s.inters {
        if *diag {
            q.make_diagonal_interaction(mat.clone(), vars.clone())?;
        } else {
            q.make_interaction(mat.clone(), vars.clone())?;
        }
    }
    q.set_do_heatbath(s.heatbath);
    Ok(q)
}

/// random generic Hamiltonian on `nvars` spins: a transverse-like term per spin + two-site terms
pub fn random_gen_ham(g: &mut SplitMix64, nvars: usize) -> Vec<(bool, Vec<f64>, Vec<usize>)> {
    let mut v = vec![];
    for i in 0..nvars {
        let a = g.range(0, 4) as f64 / 4.0;
        let b = g.range(1, 4) as f64 / 4.0;
        let c = g.range(0, 4) as f64 / 4.0;
        // [[a,b],[b,c]] indexed by (out,in)
        v.push((false, vec![a, b, b, c], vec![i]));
    }
    for i in 0..nvars - 1 {
        if g.coin() {
            let m: Vec<f64> = (0..4).map(|_| g.range(0, 6) as f64 / 4.0).collect();
            v.push((true, m, vec![i, i + 1]));
        } else {
            // symmetric 4x4 with a few off-diagonal elements
            let mut m = vec![0.0; 16];
            for d in 0..4 {
                m[d * 4 + d] = g.range(0, 5) as f64 / 4.0;
            }
            let x = g.range(0, 3) as f64 / 4.0;
            m[1 * 4 + 2] = x;
            m[2 * 4 + 1] = x;
            v.push((false, m, vec![i, i + 1]));
        }
    }
    v
}

// ------------------------------------------------------------------------------------------
// Modes
// ------------------------------------------------------------------------------------------
pub fn equilibrate<Q: Rep>(tc: &mut TC<Q>, g: &mut SplitMix64) -> Result<(), String> {
    equilibrate_s(tc, g, false)
}
pub fn equilibrate_s<Q: Rep>(tc: &mut TC<Q>, g: &mut SplitMix64, safe: bool) -> Result<(), String> {
    let t = 3 + g.below(20) as usize;
    advance(tc, t, safe)
}


/// Floating-point overflow regime of `swap_on_chunks`: a freshly added, extremely cold replica (n = 0,
/// beta = k * 2^50) next to a hot replica holding >= 24 operators: (beta_a/beta_b)^(n_b - n_a) is +inf in
/// binary64. `zero = true`: the cold replica has NO longitudinal field while the hot string holds field
/// operators, so the Hamiltonian factor is exactly 0 and the exact Metropolis ratio is 0 (inf * 0 = NaN in
/// floating point; NaN > u is false: rejected, as it must be). `zero = false` (probe only): the cold
/// replica's couplings are the hot ones times 2^-45 ("other energy unit", beta*J comparable): the exact
/// ratio is >= 1 but the Hamiltonian factor underflows.
pub fn overflow_ladder(g: &mut SplitMix64, zero: bool) -> Option<(Vec<(IsingQ, f64)>, usize)> {
    let nvars = 3 + g.below(2) as usize;
    let graph: Vec<(usize, usize)> = (0..nvars - 1).map(|i| (i, i + 1)).collect();
    let js: Vec<f64> = graph.iter().map(|_| g.range(2, 6) as f64 / 4.0).collect();
    let gamma = g.range(2, 5) as f64 / 4.0;
    let hh = g.range(2, 6) as f64 / 4.0;
    let hot = IsingSpec {
        edges: graph.iter().zip(js.iter()).map(|(e, j)| (*e, *j)).collect(),
        gamma,
        h: hh,
        beta: g.range(6, 10) as f64 / 4.0,
        cutoff: 4,
        heatbath: false,
        rvb: false,
        no_table: g.coin(),
        tiny: false,
    };
    let sc = if zero { 1.0 } else { (2.0f64).powi(-45) };
    let cold = IsingSpec {
        edges: hot.edges.iter().map(|(e, j)| (*e, j * sc)).collect(),
        gamma: gamma * sc,
        h: if zero { 0.0 } else { hh * sc },
        beta: (1 + g.below(3)) as f64 * (2.0f64).powi(50),
        cutoff: 4,
        heatbath: false,
        rvb: false,
        no_table: g.coin(),
        tiny: false,
    };
    let mut qh = make_ising(&hot, g.next());
    let ne = graph.len();
    let mut ok = false;
    for _ in 0..80 {
        if catch(|| {
            qh.timesteps(2, hot.beta);
        })
        .is_err()
        {
            return None;
        }
        let has_field = qh.ops().iter().any(|o| o.0 >= ne + nvars);
        if qh.get_n() >= 24 && has_field {
            ok = true;
            break;
        }
    }
    if !ok {
        return None;
    }
    let qc = make_ising(&cold, g.next()); // fresh: no operators
    let mut qh2 = make_ising(&hot, g.next());
    let _ = catch(|| {
        qh2.timesteps(30, hot.beta);
    });
    let (reps, cold_pos) = match g.below(3) {
        0 => (vec![(qh, hot.beta), (qc, cold.beta)], 1),
        1 => (vec![(qc, cold.beta), (qh, hot.beta)], 0),
        _ => (vec![(qh, hot.beta), (qc, cold.beta), (qh2, hot.beta)], 1),
    };
    Some((reps, cold_pos))
}

pub fn mode_ising_steps(seed: u64, thorough: bool) {
    let mut g = SplitMix64::new(seed ^ 0x1005);
    let ladders = if thorough { 1400 } else { 280 };
    for l in 0..ladders {
        let n = 2 + (l % 7) as usize; // 2..8, odd and even
        let kind = g.below(9);
        let specs = ising_ladder(&mut g, n, kind, true);
        let safe = specs.iter().any(|s| s.tiny);
        let log = new_log();
        let mut tc = match build_ising(&mut g, &specs, &log) {
            Ok(t) => t,
            Err(e) => {
                stat("i.ladder_rejected", 1);
                let _ = e;
                continue;
            }
        };
        stat(&format!("i.ladder_kind_{}", kind), 1);
        if equilibrate_s(&mut tc, &mut g, safe).is_err() {
            stat("i.equilibration_panicked", 1);
            continue;
        }
        if safe {
            // observation for small energy units (reported, not judged here): does the library's own verify()
            // accept these legal strings, and does `timestep` (debug_assert!(self.verify())) survive?
            for (q, beta) in tc.graph_ref() {
                let sound = replica_sound(&q.q).is_ok();
                let propagates = propagate_check(q.q.get_manager_ref(), q.q.state_ref()).map(|s| s == q.q.state_ref()).unwrap_or(false);
                if sound && propagates && q.q.get_n() > 0 {
                    stat("tiny.legal_consistent_nonempty_strings", 1);
                    if !q.q.self_verify() {
                        stat("tiny.verify_false_on_legal_string", 1);
                    }
                    let mut c = q.q.clone();
                    let b = *beta;
                    if catch(move || {
                        c.timestep(b);
                    })
                    .is_err()
                    {
                        stat("tiny.timestep_panics", 1);
                    }
                }
            }
        }
        // a short history: step, a few time steps, step (cached equalities, counters, migrated managers)
        let steps = if kind >= 6 { 4 } else if thorough { 3 } else { 2 };
        let mut hist = hist_of(n);
        for s in 0..steps {
            if g.chance(1, 3) {
                grow_managers_by_hand(&mut tc, &mut g);
            }
            match step_case(&tc, g.next(), true, &mut hist) {
                Ok((next, _)) => {
                    tc = next;
                    let log2 = new_log();
                    set_log(&mut tc, &log2);
                }
                Err(e) => {
                    emit(true, &format!("sw i 1 {} 0 - {} {}", n, hist, describe_container(&tc)), "panic", Some(Err(format!("tempering step panicked: {}", e))));
                    break;
                }
            }
            if s + 1 < steps {
                let t = 1 + g.below(4) as usize;
                if advance(&mut tc, t, safe).is_err() {
                    stat("i.replica_update_panicked", 1);
                    break;
                }
            }
        }
    }
    // ladders in which a replica without longitudinal field neighbours one with a field: the moved
    // string would have weight 0 there, so the exchange must be refused even for a draw of exactly 0.0
    let zl = if thorough { 80 } else { 12 };
    for l in 0..zl {
        let n = 2 + (l % 5) as usize;
        let mut specs = ising_ladder(&mut g, n, 3, false);
        let hpos = (1 + g.below(4)) as f64 / 2.0;
        for (i, s) in specs.iter_mut().enumerate() {
            s.h = if i % 2 == (l % 2) as usize { 0.0 } else { hpos + 0.25 * (i as f64) };
            s.beta = 1.0 + 0.25 * g.below(4) as f64;
        }
        let log = new_log();
        if let Ok(mut tc) = build_ising(&mut g, &specs, &log) {
            stat("i.ladder_zero_field_neighbours", 1);
            if equilibrate(&mut tc, &mut g).is_err() {
                continue;
            }
            let _ = step_case(&tc, g.next(), true, &mut hist_of(n));
        }
    }
    // floating-point overflow regime with an exactly vanishing Hamiltonian factor (see `overflow_ladder`)
    let ol = if thorough { 60 } else { 14 };
    for _ in 0..ol {
        if let Some((reps, _)) = overflow_ladder(&mut g, true) {
            let n = reps.len();
            let log = new_log();
            if let Ok(tc) = build(reps, &log) {
                stat("i.ladder_overflow_zero_factor", 1);
                let _ = step_case(&tc, g.next(), true, &mut hist_of(n));
            }
        }
    }
    // degenerate ladders: 0 and 1 replica (the serial step draws nothing, the rayon step draws the order word)
    for n in 0..2usize {
        let specs = ising_ladder(&mut g, n.max(1), 0, false);
        let log = new_log();
        if let Ok(mut tc) = build_ising(&mut g, &specs[..n], &log) {
            let _ = equilibrate(&mut tc, &mut g);
            let _ = step_case(&tc, g.next(), true, &mut hist_of(n));
        }
    }
}

pub fn mode_generic_steps(seed: u64, thorough: bool) {
    let mut g = SplitMix64::new(seed ^ 0x6e6e);
    let ladders = if thorough { 350 } else { 56 };
    for l in 0..ladders {
        let n = 2 + (l % 7) as usize;
        let nvars = 2 + g.below(2) as usize;
        let ham = random_gen_ham(&mut g, nvars);
        let loops = g.coin();
        let heat = g.chance(1, 3);
        let specs: Vec<GenSpec> = (0..n)
            .map(|_| GenSpec { nvars, inters: ham.clone(), beta: g.range(1, 10) as f64 / 4.0, loops, heatbath: heat })
            .collect();
        let log = new_log();
        let reps: Result<Vec<(GenQ, f64)>, String> = specs.iter().map(|s| make_gen(s, g.next()).map(|q| (q, s.beta))).collect();
        let reps = match reps {
            Ok(r) => r,
            Err(_) => {
                stat("g.ham_rejected", 1);
                continue;
            }
        };
        let mut tc = match build(reps, &log) {
            Ok(t) => t,
            Err(_) => continue,
        };
        if equilibrate(&mut tc, &mut g).is_err() {
            stat("g.equilibration_panicked", 1);
            continue;
        }
        let mut hist = hist_of(n);
        for s in 0..2 {
            match step_case(&tc, g.next(), true, &mut hist) {
                Ok((next, _)) => {
                    tc = next;
                    let log2 = new_log();
                    set_log(&mut tc, &log2);
                }
                Err(e) => {
                    emit(true, &format!("sw g 1 {} 0 - {} {}", n, hist, describe_container(&tc)), "panic", Some(Err(format!("tempering step panicked: {}", e))));
                    break;
                }
            }
            if s == 0 {
                let _ = catch(|| tc.timesteps(2));
            }
        }
    }
}

/// `can_swap_graphs` / `ham_eq` / `relative_weight` called directly on pairs, including pairs the
/// container must refuse (different graph, different sign, different interactions).
pub fn mode_pairs(seed: u64, thorough: bool) {
    let mut g = SplitMix64::new(seed ^ 0xca5);
    let cases = if thorough { 6000 } else { 1200 };
    for c in 0..cases {
        // ---- Ising pair ----
        let nvars = 2 + g.below(3) as usize;
        let graph = random_graph(&mut g, nvars);
        let mk = |g: &mut SplitMix64, graph: &[(usize, usize)], flip_sign: Option<usize>, base: Option<&IsingSpec>| -> IsingSpec {
            let edges = graph
                .iter()
                .enumerate()
                .map(|(k, e)| {
                    let mut j = match base {
                        Some(b) if k < b.edges.len() => {
                            let s = if b.edges[k].1 < 0.0 { -1.0 } else { 1.0 };
                            s * g.range(1, 8) as f64 / 4.0
                        }
                        _ => (if g.chance(1, 3) { -1.0 } else { 1.0 }) * g.range(1, 8) as f64 / 4.0,
                    };
                    if flip_sign == Some(k) {
                        j = -j;
                    }
                    (*e, j)
                })
                .collect();
            IsingSpec { edges, gamma: g.range(1, 8) as f64 / 4.0, h: 0.0, beta: g.range(1, 8) as f64 / 4.0, cutoff: 1 + g.below(5) as usize, heatbath: false, rvb: false, no_table: g.chance(1, 2), tiny: false }
        };
        let mut a = mk(&mut g, &graph, None, None);
        let variant = c % 8;
        let mut b = match variant {
            0 => a.clone(),                                                  // identical
            1 => {
                let k = g.below(graph.len() as u64) as usize;
                mk(&mut g, &graph, Some(k), Some(&a)) // one sign flipped
            }
            2 => {
                // another graph of the same size
                let gr = random_graph(&mut g, nvars);
                mk(&mut g, &gr, None, None)
            }
            _ => mk(&mut g, &graph, None, Some(&a)), // same graph and signs, other magnitudes
        };
        // longitudinal fields: same sign / opposite sign / zero
        match g.below(5) {
            0 => {}
            1 => {
                a.h = g.range(1, 6) as f64 / 4.0;
                b.h = g.range(0, 6) as f64 / 4.0;
            }
            2 => {
                a.h = -(g.range(1, 6) as f64) / 4.0;
                b.h = -(g.range(1, 6) as f64) / 4.0;
            }
            3 => {
                a.h = g.range(1, 6) as f64 / 4.0;
                b.h = -(g.range(1, 6) as f64) / 4.0;
            }
            _ => {
                a.h = g.range(1, 6) as f64 / 4.0;
                b.h = a.h;
            }
        }
        if variant == 0 {
            b.h = a.h;
            if g.coin() {
                b.h = a.h + 0.25;
            }
        }
        // families: small energy units (everything scaled by 2^-56 / 2^-58, beta by the inverse: the two
        // Hamiltonians differ by far less than f64::EPSILON in absolute terms); RVB updates on (with the
        // multigraphs of `random_graph`, incl. opposite-sign parallel edges, a bond operator can move to a twin edge)
        let fam = g.below(5);
        if fam == 0 {
            let sc = if g.coin() { (2.0f64).powi(-56) } else { (2.0f64).powi(-58) };
            for s in [&mut a, &mut b] {
                for e in s.edges.iter_mut() {
                    e.1 *= sc;
                }
                s.gamma *= sc;
                s.h *= sc;
                s.beta /= sc;
                s.tiny = true;
            }
            stat("pair.i.small_units", 1);
        } else if fam == 1 && variant != 2 {
            // give one edge an opposite-sign twin in both graphs
            let k = g.below(a.edges.len() as u64) as usize;
            let (e, ja) = a.edges[k];
            let jb = b.edges[k].1;
            let (ma, mb) = (g.range(1, 8) as f64 / 4.0, g.range(1, 8) as f64 / 4.0);
            a.edges.push((e, -ja.signum() * ma));
            b.edges.push((e, -jb.signum() * mb));
            a.rvb = true;
            b.rvb = true;
            a.h = 0.0;
            b.h = 0.0;
            stat("pair.i.opposite_twin_edges_rvb", 1);
        }
        let safe = a.tiny;
        let mut qa = make_ising(&a, g.next());
        let mut qb = make_ising(&b, g.next());
        let ta = 2 + g.below(12) as usize;
        if catch(|| {
            if safe {
                for _ in 0..ta {
                    qa.safe_step(a.beta);
                    qb.safe_step(b.beta);
                }
            } else {
                qa.timesteps(ta, a.beta);
                qb.timesteps(ta, b.beta);
            }
        })
        .is_err()
        {
            stat("pair.i.update_panicked", 1);
            continue;
        }
        let can = qa.can_swap_graphs(&qb).is_ok();
        let can_r = qb.can_swap_graphs(&qa).is_ok();
        let eq = qa.ham_eq(&qb);
        // relative weights are only meaningful for swappable pairs (the container never asks otherwise)
        let same_shape = a.edges.len() == b.edges.len() && qa.get_nvars() == qb.get_nvars();
        let (rab, rba) = if can && same_shape { (fl(qa.relative_weight(&qb)), fl(qb.relative_weight(&qa))) } else { ("x".into(), "x".into()) };
        // oracle: product of matrix-element ratios over the operator string
        let mut oracle = Ok(());
        if can && same_shape {
            let prod = |s: &IsingQ, o: &IsingQ| -> f64 { s.ops().iter().map(|op| o.weight(op) / s.weight(op)).product() };
            let (wab, wba) = (prod(&qa, &qb), prod(&qb, &qa));
            let close = |x: f64, y: f64| (x - y).abs() <= 1e-9 * x.abs().max(y.abs()).max(1e-300);
            if !close(wab, qa.relative_weight(&qb)) || !close(wba, qb.relative_weight(&qa)) {
                oracle = Err(format!(
                    "relative_weight {} / {} but the product of matrix-element ratios is {} / {}",
                    qa.relative_weight(&qb),
                    qb.relative_weight(&qa),
                    wab,
                    wba
                ));
            }
            if eq && (qa.relative_weight(&qb) != 1.0 || qb.relative_weight(&qa) != 1.0) {
                oracle = Err("ham_eq is true but a relative weight is not 1".into());
            }
        }
        if eq && !can {
            oracle = Err("ham_eq true for a pair that cannot be swapped".into());
        }
        // every matrix element of the Hamiltonian: all bonds x all in/out patterns (also the ones no sampler reads)
        {
            let info = qa.make_haminfo();
            let ne = qa.get_edges().len();
            let nv = qa.get_nvars();
            let pats = |k: usize| -> Vec<Vec<bool>> { (0..(1usize << k)).map(|i| (0..k).map(|b| (i >> (k - 1 - b)) & 1 == 1).collect()).collect() };
            let mut vals = vec![];
            let mut mat_oracle: Result<(), String> = Ok(());
            for b in 0..ne + 2 * nv {
                let (k, vars): (usize, Vec<usize>) = if b < ne { (2, qa.get_edges()[b].0.clone()) } else { (1, vec![(b - ne) % nv]) };
                for ins in pats(k) {
                    for outs in pats(k) {
                        let w = IsingQ::hamiltonian(&info, &vars, b, &ins, &outs);
                        // bond and field terms are diagonal; every element is >= 0
                        if (b < ne || b >= ne + nv) && ins != outs && w != 0.0 {
                            mat_oracle = Err(format!("bond {} has an off-diagonal matrix element {} for {:?} -> {:?}", b, w, ins, outs));
                        }
                        if w < 0.0 {
                            mat_oracle = Err(format!("negative matrix element {} on bond {}", w, b));
                        }
                        vals.push(rat(w));
                    }
                }
            }
            emit(true, &format!("mat {}", qa.describe()), &vals.join(","), Some(mat_oracle));
        }
        // the public swap on samplers with different cutoffs: strings and states exchanged, both cutoffs raised to the larger
        if can && same_shape {
            let (mut xa, mut xb) = (qa.clone(), qb.clone());
            if g.chance(1, 3) {
                let to = xa.mgr_cutoff() + 1 + g.below(15) as usize;
                xa.grow_manager(to);
            }
            let (ca, cb) = (xa.get_cutoff(), xb.get_cutoff());
            let input = format!(
                "swapg {} {} {} {} {} {} {} {}",
                xa.describe(), ca, bits(xa.state_ref()), xa.slots(), xb.describe(), cb, bits(xb.state_ref()), xb.slots()
            );
            let (sa0, sb0) = (xa.state_ref().to_vec(), xb.state_ref().to_vec());
            let (oa0, ob0) = (xa.ops(), xb.ops());
            let r = catch(|| xa.swap_graphs(&mut xb));
            let mut oracle = Ok(());
            if r.is_err() {
                oracle = Err("swap_graphs panicked".to_string());
            } else {
                let m = ca.max(cb);
                if xa.get_cutoff() != m || xb.get_cutoff() != m || xa.mgr_cutoff() < m || xb.mgr_cutoff() < m {
                    oracle = Err(format!("after swap_graphs cutoffs {} / {} (managers {} / {}), expected the larger of {} and {}", xa.get_cutoff(), xb.get_cutoff(), xa.mgr_cutoff(), xb.mgr_cutoff(), ca, cb));
                }
                if xa.state_ref() != &sb0[..] || xb.state_ref() != &sa0[..] || xa.ops() != ob0 || xb.ops() != oa0 {
                    oracle = Err("swap_graphs did not exchange states and operator strings".to_string());
                }
                if frame_tag(&xa) != frame_tag(&qa) || frame_tag(&xb) != frame_tag(&qb) {
                    oracle = Err("swap_graphs changed a field other than manager/state/cutoff".to_string());
                }
            }
            let sh = |x: &IsingQ| format!("{} {} {} {}", x.get_cutoff(), x.mgr_cutoff(), bits(x.state_ref()), x.slots());
            emit(ca != cb, &input, &format!("{} {}", sh(&xa), sh(&xb)), Some(oracle));
        }
        let input = format!("pair i {} {} {} {}", qa.describe(), qa.slots(), qb.describe(), qb.slots());
        let output = format!("{} {} {} {} {}", can as u8, can_r as u8, eq as u8, rab, rba);
        stat(if can { "pair.i.can_swap" } else { "pair.i.refused" }, 1);
        if eq {
            stat("pair.i.ham_eq", 1);
        }
        emit(qa.get_n() > 0 && qb.get_n() > 0, &input, &output, Some(oracle));

        // ---- generic pair ----
        if c % 3 == 0 {
            let nv = 2 + g.below(2) as usize;
            let ha = random_gen_ham(&mut g, nv);
            let hb = match g.below(3) {
                0 => ha.clone(),
                1 => {
                    // same shapes, other numbers (zeros allowed → weight 0 / infinity branches)
                    let mut h = ha.clone();
                    for (_, m, _) in h.iter_mut() {
                        for x in m.iter_mut() {
                            if *x != 0.0 || g.chance(1, 8) {
                                *x = g.range(0, 6) as f64 / 4.0;
                            }
                        }
                    }
                    h
                }
                _ => {
                    let mut h = ha.clone();
                    let k = g.below(h.len() as u64) as usize;
                    let l = h[k].1.len();
                    h[k].1[g.below(l as u64) as usize] += 0.25;
                    h
                }
            };
            let sa = GenSpec { nvars: nv, inters: ha, beta: g.range(1, 8) as f64 / 4.0, loops: g.coin(), heatbath: false };
            let sb = GenSpec { nvars: nv, inters: hb, beta: g.range(1, 8) as f64 / 4.0, loops: g.coin(), heatbath: false };
            if let (Ok(mut qa), Ok(mut qb)) = (make_gen(&sa, g.next()), make_gen(&sb, g.next())) {
                if catch(|| {
                    qa.timesteps(6, sa.beta);
                    qb.timesteps(6, sb.beta);
                })
                .is_err()
                {
                    continue;
                }
                let can = qa.can_swap_graphs(&qb).is_ok();
                let eq = qa.ham_eq(&qb);
                // shapes are equal by construction, so relative_weight is defined
                let rab = qa.relative_weight(&qb);
                let rba = qb.relative_weight(&qa);
                let mut oracle = Ok(());
                if can != eq {
                    oracle = Err("generic sampler: can_swap_graphs and ham_eq disagree".into());
                }
                let prod = |s: &GenQ, o: &GenQ| -> f64 {
                    let mut t = 1.0;
                    for op in s.ops() {
                        let (w1, w2) = (o.weight(&op), s.weight(&op));
                        if w1 == 0.0 {
                            return 0.0;
                        }
                        if w2 == 0.0 {
                            return f64::INFINITY;
                        }
                        t *= w1 / w2;
                    }
                    t
                };
                let close = |x: f64, y: f64| x == y || (x - y).abs() <= 1e-9 * x.abs().max(y.abs());
                if !close(prod(&qa, &qb), rab) || !close(prod(&qb, &qa), rba) {
                    oracle = Err(format!("generic relative_weight {} / {} vs product {} / {}", rab, rba, prod(&qa, &qb), prod(&qb, &qa)));
                }
                if eq && (rab != 1.0 || rba != 1.0) {
                    oracle = Err("generic ham_eq true but relative weight not 1".into());
                }
                let input = format!("pair g {} {} {} {}", qa.describe(), qa.slots(), qb.describe(), qb.slots());
                let output = format!("{} {} {} {} {}", can as u8, qb.can_swap_graphs(&qa).is_ok() as u8, eq as u8, fl(rab), fl(rba));
                stat(if can { "pair.g.can_swap" } else { "pair.g.refused" }, 1);
                emit(qa.get_n() > 0 && qb.get_n() > 0, &input, &output, Some(oracle));
            }
        }
    }
}


/// A ladder that is grown *between* tempering steps: add, step(s), add, step(s), … up to `reps.len()`
/// replicas, continuing with the serial or the rayon result at random. Every step is a full case
/// (bisection, decision log, one decision per neighbour pair of the current ladder).
pub fn grow_history<Q: Rep>(reps: Vec<(Q, f64)>, g: &mut SplitMix64, k0: usize, safe: bool) {
    let total = reps.len();
    let mut tc: TC<Q> = TemperingContainer::new(RecRng::new(0));
    let mut hist = String::new();
    let mut pending = reps.into_iter();
    let mut add_some = |tc: &mut TC<Q>, hist: &mut String, k: usize| -> bool {
        for _ in 0..k {
            if let Some((q, beta)) = pending.next() {
                let id = tc.num_graphs();
                if tc.add_qmc_stepper(Spy { q, id, log: new_log() }, beta).is_err() {
                    stat("grow.add_refused", 1);
                    return false;
                }
                hist.push('a');
            }
        }
        true
    };
    if !add_some(&mut tc, &mut hist, k0) {
        return;
    }
    loop {
        let t = 2 + g.below(8) as usize;
        if advance(&mut tc, t, safe).is_err() {
            stat("grow.replica_update_panicked", 1);
            return;
        }
        if g.chance(1, 4) {
            grow_managers_by_hand(&mut tc, g);
        }
        let steps_here = 1 + g.below(2) as usize;
        for _ in 0..steps_here {
            match step_case_ex(&tc, g.next(), true, &hist) {
                Ok(o) => {
                    let par = g.coin();
                    tc = if par { o.par_after } else { o.after };
                    hist.push(if par { 'p' } else { 's' });
                    let l2 = new_log();
                    set_log(&mut tc, &l2);
                    stat(&format!("grow.{}.step_on_{}_replicas", Q::KIND, tc.num_graphs()), 1);
                }
                Err(e) => {
                    emit(
                        true,
                        &format!("sw {} 1 {} 0 - {} {}", Q::KIND, tc.num_graphs(), hist, describe_container(&tc)),
                        "panic",
                        Some(Err(format!("tempering step panicked: {}", e))),
                    );
                    return;
                }
            }
        }
        if tc.num_graphs() >= total {
            break;
        }
        let k = 1 + g.below(2) as usize;
        if !add_some(&mut tc, &mut hist, k) {
            return;
        }
    }
    stat(&format!("grow.{}.histories", Q::KIND), 1);
}

pub fn mode_grow(seed: u64, thorough: bool) {
    let mut g = SplitMix64::new(seed ^ 0x9a0);
    let runs = if thorough { 160 } else { 30 };
    for l in 0..runs {
        let total = 3 + (l % 6) as usize; // 3..8
        let flavour = l % 3;
        let mut specs = match flavour {
            0 | 1 => {
                // one Hamiltonian for the whole ladder
                let one = ising_ladder(&mut g, 1, 0, false).remove(0);
                (0..total).map(|_| one.clone()).collect::<Vec<_>>()
            }
            _ => {
                let kind = 1 + g.below(8);
                ising_ladder(&mut g, total, kind, true)
            }
        };
        for (i, s) in specs.iter_mut().enumerate() {
            s.cutoff = 1 + g.below(6) as usize;
            if flavour == 1 {
                s.beta = (2 + i) as f64 / 4.0 + 0.25 * g.below(3) as f64;
            }
        }
        stat(&format!("grow.i.flavour_{}", flavour), 1);
        let reps: Vec<(IsingQ, f64)> = specs.iter().map(|s| (make_ising(s, g.next()), s.beta)).collect();
        let k0 = (l % 3) as usize; // start from 0, 1 or 2 replicas
        let safe = specs.iter().any(|s| s.tiny);
        grow_history(reps, &mut g, k0.max(if l % 7 == 0 { 0 } else { 1 }), safe);
    }
    let gruns = if thorough { 50 } else { 10 };
    for l in 0..gruns {
        let total = 3 + (l % 6) as usize;
        let nvars = 2 + g.below(2) as usize;
        let ham = random_gen_ham(&mut g, nvars);
        let same_beta = l % 2 == 0;
        let b0 = g.range(2, 8) as f64 / 4.0;
        let reps: Result<Vec<(GenQ, f64)>, String> = (0..total)
            .map(|_| {
                let beta = if same_beta { b0 } else { g.range(1, 10) as f64 / 4.0 };
                let s = GenSpec { nvars, inters: ham.clone(), beta, loops: l % 3 == 0, heatbath: false };
                make_gen(&s, g.next()).map(|q| (q, beta))
            })
            .collect();
        if let Ok(reps) = reps {
            grow_history(reps, &mut g, 1 + (l % 2) as usize, false);
        }
    }
}


/// do two generic Hamiltonian specs differ clearly (some entry by >= 1e-9, or in shape)?  `None` = they
/// differ, but only below the library's documented absolute tolerance (accepted by design, finding F23)
fn gen_specs_differ(a: &[(bool, Vec<f64>, Vec<usize>)], b: &[(bool, Vec<f64>, Vec<usize>)]) -> Option<bool> {
    if a.len() != b.len() {
        return Some(true);
    }
    let mut small = false;
    for (x, y) in a.iter().zip(b.iter()) {
        if x.0 != y.0 || x.2 != y.2 || x.1.len() != y.1.len() {
            return Some(true);
        }
        for (u, v) in x.1.iter().zip(y.1.iter()) {
            let d = (u - v).abs();
            if d >= 1e-9 {
                return Some(true);
            }
            if d > 0.0 {
                small = true;
            }
        }
    }
    if small { None } else { Some(false) }
}

/// Admission of generic replicas to one ladder: the container must refuse a replica whose Hamiltonian
/// differs from its predecessor's (same bond structure and zero pattern, other magnitudes — also through
/// `into_qmc` of Ising samplers with different couplings). If a mixed ladder IS admitted, it is
/// equilibrated and stepped like any other ladder, so that the swap-probability oracle (ratio recomputed
/// from the strings with each side's own matrices) judges the exchanges.
pub fn mode_generic_mixed(seed: u64, thorough: bool) {
    let mut g = SplitMix64::new(seed ^ 0x9e1);
    let runs = if thorough { 200 } else { 40 };
    for l in 0..runs {
        let n = 2 + (l % 5) as usize;
        let nvars = 2 + g.below(2) as usize;
        let base = random_gen_ham(&mut g, nvars);
        let flavour = l % 4; // 0: all equal, 1: scaled magnitudes, 2: one term changed, 3: differences far below EPSILON (control)
        let same_beta = g.coin();
        let b0 = g.range(2, 8) as f64 / 4.0;
        let first_diff = 1 + g.below((n - 1) as u64) as usize;
        let mut specs: Vec<GenSpec> = vec![];
        for i in 0..n {
            let mut h = base.clone();
            if i >= first_diff {
                match flavour {
                    1 => {
                        let f = 1.0 + (1 + i) as f64 / 4.0;
                        for (_, m, _) in h.iter_mut() {
                            for x in m.iter_mut() {
                                *x *= f; // zeros stay zeros: same zero pattern
                            }
                        }
                    }
                    2 => {
                        let k = g.below(h.len() as u64) as usize;
                        for x in h[k].1.iter_mut() {
                            if *x != 0.0 {
                                *x += 0.25 * (1 + i) as f64;
                            }
                        }
                    }
                    3 => {
                        for (_, m, _) in h.iter_mut() {
                            for x in m.iter_mut() {
                                if *x != 0.0 {
                                    *x += (2.0f64).powi(-60);
                                }
                            }
                        }
                    }
                    _ => {}
                }
            }
            specs.push(GenSpec { nvars, inters: h, beta: if same_beta { b0 } else { g.range(1, 10) as f64 / 4.0 }, loops: l % 3 == 0, heatbath: l % 2 == 1 });
        }
        let reps: Result<Vec<(GenQ, f64)>, String> = specs.iter().map(|s| make_gen(s, g.next()).map(|q| (q, s.beta))).collect();
        let reps = match reps {
            Ok(r) => r,
            Err(_) => {
                stat("gmix.ham_rejected", 1);
                continue;
            }
        };
        // expected verdict, from the specs alone
        let mut expect: Option<Option<usize>> = Some(None); // Some(None) = accepted, Some(Some(k)) = refused at k, None = either
        for k in 1..n {
            match gen_specs_differ(&specs[k - 1].inters, &specs[k].inters) {
                Some(true) => {
                    expect = Some(Some(k));
                    break;
                }
                Some(false) => {}
                None => {
                    expect = None;
                    break;
                }
            }
        }
        let descs: Vec<String> = reps.iter().map(|(q, _)| q.describe().split(' ').next().unwrap_or("-").to_string()).collect();
        let log = new_log();
        let mut tc: TC<GenQ> = TemperingContainer::new(RecRng::new(0));
        let mut refused: Option<usize> = None;
        let mut direct_ok = true; // can_swap_graphs called directly on neighbours agrees with the container
        let mut prev: Option<GenQ> = None;
        for (id, (q, beta)) in reps.into_iter().enumerate() {
            let direct = prev.as_ref().map(|p| p.can_swap_graphs(&q).is_ok()).unwrap_or(true);
            let qc = q.clone();
            let r = tc.add_qmc_stepper(Spy { q, id, log: log.clone() }, beta);
            if r.is_ok() != direct {
                direct_ok = false;
            }
            if r.is_err() {
                refused = Some(id);
                break;
            }
            prev = Some(qc);
        }
        let verdict = match refused {
            Some(k) => format!("refused@{}", k),
            None => "accepted".to_string(),
        };
        let mut oracle = Ok(());
        match expect {
            Some(e) if e != refused => {
                oracle = Err(match e {
                    Some(k) => format!(
                        "generic replica {} has a Hamiltonian that differs from its predecessor's (flavour {}: same bond structure, other magnitudes) and must be refused by add_qmc_stepper, but the ladder was {}",
                        k, flavour, verdict
                    ),
                    None => format!("generic replicas with identical Hamiltonians must be admitted, but the ladder was {}", verdict),
                });
            }
            _ => {}
        }
        if !direct_ok && oracle.is_ok() {
            oracle = Err("can_swap_graphs called directly disagrees with add_qmc_stepper".into());
        }
        stat(&format!("gmix.flavour_{}.{}", flavour, if refused.is_some() { "refused" } else { "admitted" }), 1);
        emit(true, &format!("gadmit {}", descs.join(" ")), &verdict, Some(oracle));
        // an admitted ladder is stepped like any other one (on the unchanged library: equal Hamiltonians, or the
        // sub-EPSILON control)
        if refused.is_none() && flavour != 3 {
            if equilibrate(&mut tc, &mut g).is_err() {
                continue;
            }
            let mut hist = hist_of(n);
            for s in 0..2 {
                match step_case(&tc, g.next(), true, &mut hist) {
                    Ok((next, _)) => {
                        tc = next;
                        let l2 = new_log();
                        set_log(&mut tc, &l2);
                    }
                    Err(e) => {
                        emit(true, &format!("sw g 1 {} 0 - {} {}", n, hist, describe_container(&tc)), "panic", Some(Err(format!("tempering step panicked: {}", e))));
                        break;
                    }
                }
                if s == 0 {
                    let _ = catch(|| tc.timesteps(2));
                }
            }
        }
    }
    // the same through `into_qmc`: Ising samplers with the same graph and different couplings / fields
    let iruns = if thorough { 120 } else { 24 };
    for l in 0..iruns {
        let kind = if l % 3 == 0 { 0 } else { 1 + g.below(2) }; // 0: beta ladder (equal H), 1: J ladder, 2: Gamma ladder
        let specs = ising_ladder_base(&mut g, 2, kind, false);
        if specs.iter().any(|s| s.h != 0.0) {
            continue; // h != 0 conversions are C15's subject
        }
        let (a, b) = (make_ising(&specs[0], g.next()), make_ising(&specs[1], g.next()));
        let differ = specs[0].edges != specs[1].edges || specs[0].gamma != specs[1].gamma;
        let (qa, qb): (GenQ, GenQ) = match catch(move || (a.into_qmc(), b.into_qmc())) {
            Ok(x) => x,
            Err(_) => {
                stat("gmix.into_qmc_panicked", 1);
                continue;
            }
        };
        let can = qa.can_swap_graphs(&qb).is_ok();
        let eq = qa.ham_eq(&qb);
        let mut tc: TemperingContainer<RecRng, GenQ> = TemperingContainer::new(RecRng::new(0));
        let first = tc.add_qmc_stepper(qa.clone(), specs[0].beta).is_ok();
        let second = tc.add_qmc_stepper(qb.clone(), specs[1].beta).is_ok();
        let mut oracle = Ok(());
        if !first || (can == differ) || (second != can) || (eq != can) {
            oracle = Err(format!(
                "into_qmc of Ising samplers whose Hamiltonians {}: can_swap_graphs = {}, ham_eq = {}, container add = {}",
                if differ { "differ" } else { "are equal" },
                can,
                eq,
                second
            ));
        }
        let d0 = qa.describe();
        let d1 = qb.describe();
        stat(if can { "gmix.into_qmc.admitted" } else { "gmix.into_qmc.refused" }, 1);
        emit(
            true,
            &format!("gadmit {} {}", d0.split(' ').next().unwrap_or("-"), d1.split(' ').next().unwrap_or("-")),
            if second { "accepted" } else { "refused@1" },
            Some(oracle),
        );
    }
}


/// Probe (not part of the check): overflow regime in which the exact ratio is >= 1.
pub fn mode_overflow_probe(seed: u64) {
    let mut g = SplitMix64::new(seed ^ 0x0f10);
    for _ in 0..6 {
        if let Some((reps, _)) = overflow_ladder(&mut g, false) {
            let n = reps.len();
            let log = new_log();
            if let Ok(tc) = build(reps, &log) {
                let _ = step_case(&tc, g.next(), true, &mut hist_of(n));
            }
        }
    }
}


// ------------------------------------------------------------------------------------------
// Known finding F28 (fixed witness, independent of VERIF_SEED): floating-point overflow of the temperature factor
// ------------------------------------------------------------------------------------------
const OVW_HOT_SLOTS: &str = "L38:3@2;2,3;01;01;D;0+5@6;3;1;0;O;1+6@6;3;0;0;D;1+7@5;2;0;1;O;1+8@1;1,2;01;01;D;0+9@3;0;1;1;D;1+10@5;2;1;1;D;1+11@3;0;1;1;D;1+12@7;0;1;1;D;0+14@7;0;1;1;D;0+15@5;2;1;1;D;1+16@7;0;1;1;D;0+18@4;1;0;0;D;1+21@1;1,2;01;01;D;0+23@3;0;1;1;D;1+26@2;2,3;10;10;D;0+27@6;3;0;1;O;1+28@9;2;1;1;D;0+29@4;1;0;0;D;1+30@1;1,2;01;01;D;0+31@9;2;1;1;D;0+33@3;0;1;0;O;1+34@4;1;0;0;D;1+35@3;0;0;1;O;1+36@1;1,2;01;01;D;0+37@5;2;1;0;O;1";

/// an Ising sampler holding a literal operator string (protocol encoding of `show_slots`)
fn ising_from_literal(edges: Vec<((usize, usize), f64)>, gamma: f64, h: f64, cutoff: usize, state: Vec<bool>, slots: &str) -> IsingQ {
    use qmc::sse::fast_ops::FastOp;
    let body = slots.split(':').nth(1).unwrap_or("").to_string();
    IsingQ::new_with_rng_with_manager_hook(edges, gamma, h, cutoff, SplitMix64::new(28), Some(state), move |nvars, _nbonds| {
        let ops: Vec<(usize, FastOp)> = body
            .split('+')
            .filter(|t| !t.is_empty())
            .map(|t| {
                let (p, rest) = t.split_once('@').unwrap();
                let f: Vec<&str> = rest.split(';').collect();
                let bond: usize = f[0].parse().unwrap();
                let vars: Vec<usize> = f[1].split(',').map(|v| v.parse().unwrap()).collect();
                let b = |x: &str| -> Vec<bool> { x.chars().map(|c| c == '1').collect() };
                let constant = f[5] == "1";
                let op = if f[4] == "D" {
                    FastOp::diagonal(vars, bond, b(f[2]), constant)
                } else {
                    FastOp::offdiagonal(vars, bond, b(f[2]), b(f[3]), constant)
                };
                (p.parse().unwrap(), op)
            })
            .collect();
        FastOps::new_from_ops(nvars, ops)
    })
}

/// The witness pair of F28 and its control. Position 0: a freshly added replica (no operators, cutoff 4) at
/// beta = 2^51 * unit^-1-scale; position 1: a hot replica (beta = 5/2) holding the literal 26-operator string.
/// `unit = 2^-45`: the cold replica's couplings are the hot ones times 2^-45 (another energy unit, beta*J comparable).
/// `unit = 1` (control): same Hamiltonian, beta = 64.
pub fn mode_overflow_witness() {
    for (name, unit) in [("unit-2^-45", (2.0f64).powi(-45)), ("control-common-unit", 1.0)] {
        let hot_edges = vec![((0usize, 1usize), 1.5), ((1, 2), 1.0), ((2, 3), 0.75)];
        let (gamma, h) = (1.25, 0.75);
        let cold_edges: Vec<((usize, usize), f64)> = hot_edges.iter().map(|(e, j)| (*e, j * unit)).collect();
        let cold = IsingQ::new_with_rng(cold_edges, gamma * unit, h * unit, 4, SplitMix64::new(1), Some(vec![false, true, false, true]));
        let hot = ising_from_literal(hot_edges, gamma, h, 40, vec![true, false, false, true], OVW_HOT_SLOTS);
        let (bc, bh) = (64.0 / unit, 2.5);
        let input_reps = |tc: &TC<IsingQ>| -> String {
            tc.graph_ref()
                .iter()
                .map(|(g, b)| format!("{} {} {} {} {}", g.q.describe(), rat(*b), g.q.sampler_cutoff(), bits(g.q.state_ref()), g.q.slots()))
                .collect::<Vec<_>>()
                .join(" ")
        };
        let log = new_log();
        let tc = match build(vec![(cold, bc), (hot, bh)], &log) {
            Ok(t) => t,
            Err(e) => {
                emit(true, &format!("ovw {}", name), "refused", Some(Err(format!("container refused the witness pair: {}", e))));
                continue;
            }
        };
        let input = format!("ovw {} {}", name, input_reps(&tc));
        let sound = tc.graph_ref().iter().all(|(g, _)| {
            let st = g.q.state_ref().to_vec();
            replica_sound(&g.q).is_ok() && propagate_check(g.q.get_manager_ref(), &st).map(|f| f == st).unwrap_or(false)
        });
        let script = vec![1u64 << 62, 1u64 << 63, 1u64 << 63];
        let r = bisect_pair(&tc, &script, 1, 0);
        let want = {
            let gr = tc.graph_ref();
            oracle_ratio(&gr[0].0.q, bc, &gr[1].0.q, bh)
        };
        let verdict = if want >= 1.0 { "ge1" } else { "lt1" };
        let oracle = match r {
            Err(e) => Err(format!("tempering step panicked: {}", e)),
            Ok(_) if !sound => Err("witness configurations are not legal / consistent".to_string()),
            Ok(p) if (p - want).abs() > 1e-9 => Err(format!(
                "the exact Metropolis ratio of this pair is >= 1 (exchange probability {:.12}; Lean: Qmc.C10.swap_overflow_witness) but the code's bisected exchange probability is {:.12} [F28: temperature factor overflows to +inf, coupling-ratio product underflows to 0, inf * 0 = NaN is never accepted]",
                want, p
            )),
            Ok(_) => Ok(()),
        };
        emit(true, &input, verdict, Some(oracle));
    }
}

#[allow(dead_code)]
fn main() {
    quiet_panics();
    let a = args();
    let r = catch(|| match a.mode.as_str() {
        "ising" => mode_ising_steps(a.seed, a.thorough),
        "generic" => {
            mode_generic_steps(a.seed, a.thorough);
            mode_generic_mixed(a.seed, a.thorough);
        }
        "gmixed" => mode_generic_mixed(a.seed, a.thorough),
        "overflowprobe" => mode_overflow_probe(a.seed),
        "overflow-witness" => mode_overflow_witness(),
        "pairs" => mode_pairs(a.seed, a.thorough),
        "mismatch" => mode_mismatch(a.seed),
        "grow" => mode_grow(a.seed, a.thorough),
        _ => {
            mode_ising_steps(a.seed, a.thorough);
            mode_generic_steps(a.seed, a.thorough);
            mode_generic_mixed(a.seed, a.thorough);
            mode_pairs(a.seed, a.thorough);
            mode_mismatch(a.seed);
            mode_grow(a.seed, a.thorough);
        }
    });
    if let Err(e) = r {
        emit(true, &format!("crash {}", a.mode), "x", Some(Err(format!("harness or library panicked outside a guarded call: {}", e))));
    }
}

/// Finding probe: `can_swap_managers` zips the two edge lists and never compares their lengths, so
/// the container accepts a ladder whose graphs differ in the number of edges (common prefix equal).
/// Emits one `mismatch` case per ladder; the oracle reports what the real code does after a swap.
pub fn mode_mismatch(seed: u64) {
    let mut g = SplitMix64::new(seed ^ 0xbad);
    for trial in 0..4u64 {
        let a = IsingSpec { edges: vec![((0, 1), 1.0), ((1, 2), 1.0)], gamma: 1.0, h: 0.0, beta: 1.0, cutoff: 4, heatbath: false, rvb: false, no_table: false, tiny: false };
        let mut b = a.clone();
        b.edges.push(((0, 2), 0.5 + 0.25 * trial as f64));
        let log = new_log();
        let built = build_ising(&mut g, &[a.clone(), b.clone()], &log);
        let input = format!("mismatch {} {}", make_ising(&a, 1).describe(), make_ising(&b, 1).describe());
        match built {
            Err(_) => emit(true, &input, "refused", Some(Ok(()))),
            Ok(mut tc) => {
                let mut verdict: Result<(), String> = Err("container accepted graphs with 2 and 3 edges (can_swap_graphs Ok)".into());
                let r = catch(|| {
                    let mut swapped = false;
                    for _ in 0..200 {
                        tc.timesteps(3);
                        let before = tc.get_total_swaps();
                        *tc.rng_mut() = RecRng::scripted(vec![0, 0], 1);
                        tc.tempering_step();
                        if tc.get_total_swaps() > before {
                            swapped = true;
                            break;
                        }
                    }
                    let ok = tc.graph_ref().iter().all(|(q, _)| q.q.verify());
                    (swapped, ok)
                });
                match r {
                    Ok((swapped, ok)) => {
                        if let Err(m) = &mut verdict {
                            m.push_str(&format!("; swapped={} verify_after={}", swapped, ok));
                        }
                        let r2 = catch(|| tc.timesteps(20));
                        if let (Err(m), Err(p)) = (&mut verdict, r2) {
                            m.push_str(&format!("; next time steps panicked: {}", p));
                        }
                    }
                    Err(p) => {
                        if let Err(m) = &mut verdict {
                            m.push_str(&format!("; panicked: {}", p));
                        }
                    }
                }
                emit(true, &input, "accepted", Some(verdict));
            }
        }
    }
}
