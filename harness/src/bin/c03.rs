//! C03 — RVB update. Two modes:
//!   helpers : direct differential tests of the pure helpers (`remove_doubles`,
//!             `find_overlapping_starts`, `calculate_mult`, `contiguous_bits`) through the
//!             `verif_hooks` wrappers and of the public `BondContainer`.
//!   rvb     : Ising samplers, one proposed RVB update at a time (see `rvb_mode`); per update also a
//!             `region` case: the exact proposal model replayed on the recorded draws.
//!   pipeline: the RVB step embedded in `timestep` vs the explicit decomposition (see `pipeline_mode`).
//! The oracle column evaluates the property directly on the real code (no model involved).

use qmc::sse::qmc_traits::rvb::verif_hooks::*;
use qmc::sse::qmc_traits::rvb::contiguous_bits;
use qmc::sse::*;
use qmc::util::bondcontainer::BondContainer;
use rand::RngCore;
use std::cell::RefCell;
use std::rc::Rc;
use vh::*;

thread_local! {
    /// number of `get_random` calls made with a draw of exactly 0.0 (the former F12 edge)
    static ZERO_DRAWS: std::cell::Cell<u64> = std::cell::Cell::new(0);
}

// ---------------------------------------------------------------------------------------------
// helpers mode
// ---------------------------------------------------------------------------------------------

fn case_rd(v: Vec<usize>) {
    let out = verif_remove_doubles(v.clone());
    // oracle (sorted inputs only): every value of odd multiplicity exactly once, ascending
    let sorted = v.windows(2).all(|w| w[0] <= w[1]);
    let oracle = if sorted {
        let mut exp = vec![];
        let mut i = 0;
        while i < v.len() {
            let mut j = i;
            while j < v.len() && v[j] == v[i] {
                j += 1;
            }
            if (j - i) % 2 == 1 {
                exp.push(v[i]);
            }
            i = j;
        }
        Some(if exp == out { Ok(()) } else { Err(format!("remove_doubles({:?}) = {:?}, odd-multiplicity elements are {:?}", v, out, exp)) })
    } else {
        None
    };
    emit(v.windows(2).any(|w| w[0] == w[1]), &format!("rd {}", list(&v)), &list(&out), oracle);
}

fn case_fos(ps: usize, pe: usize, cutoff: usize, fp: &[usize]) {
    let fpv = fp.to_vec();
    let r = catch(move || verif_find_overlapping_starts(ps, pe, cutoff, &fpv));
    let (out, oracle) = match &r {
        Ok(v) => {
            let inrange = v.iter().all(|i| *i < fp.len());
            let mut d = v.clone();
            d.sort_unstable();
            d.dedup();
            let distinct = d.len() == v.len();
            // when p_start is not a flip position the interval containing p_start is returned first
            let ok = inrange && distinct;
            (list(v), if ok { Ok(()) } else { Err(format!("indices out of range or repeated: {:?}", v)) })
        }
        Err(_) => ("P".to_string(), if fp.contains(&ps) || fp.is_empty() { Ok(()) } else { Err("unexpected panic".into()) }),
    };
    emit(fp.len() >= 2 && r.is_ok(), &format!("fos {} {} {} {}", ps, pe, cutoff, list(fp)), &out, Some(oracle));
}

fn case_cm(before: &[f64], after: &[f64], n: usize) {
    let b: Vec<(usize, f64)> = before.iter().cloned().enumerate().collect();
    let a: Vec<(usize, f64)> = after.iter().cloned().enumerate().collect();
    let m = verif_calculate_mult(&b, &a, n);
    let wb: f64 = before.iter().sum();
    let wa: f64 = after.iter().sum();
    // oracle: the value is (W_after/W_before)^n (n = 0 -> 1)
    let exp = (wa / wb).powf(n as f64);
    let exp = if n == 0 || wa == wb { 1.0 } else { exp };
    let ok = (m - exp).abs() <= 1e-9 * exp.abs().max(1.0);
    emit(
        n > 0 && wa != wb,
        &format!("cm {} {} {}", rats(before), rats(after), n),
        &format!("~{:e}", m),
        Some(if ok { Ok(()) } else { Err(format!("calculate_mult = {} but (Wa/Wb)^n = {}", m, exp)) }),
    );
}

fn case_cb(word: u64) {
    let mut r = RecRng::scripted(vec![word], 0);
    let n = contiguous_bits(&mut r);
    let mut exp = 0;
    while exp < 64 && (word >> exp) & 1 == 1 {
        exp += 1;
    }
    emit(n > 0, &format!("cb {}", word), &format!("{} {}", n, r.log.len()), Some(if n == exp { Ok(()) } else { Err(format!("contiguous_bits({:#x}) = {}", word, n)) }));
}

#[derive(Clone, Debug)]
enum BcOp {
    Ins(usize, f64),
    Rem(usize),
    Clear,
    Get(u64),
    Weight(usize),
    Has(usize),
}

fn case_bc(ops: &[BcOp]) {
    let mut c = BondContainer::<usize>::default();
    let mut intoks = vec![];
    let mut outtoks = vec![];
    // shadow for the oracle: plain association list in insertion/swap-remove-independent form
    let mut shadow: Vec<(usize, f64)> = vec![];
    let mut oracle: Result<(), String> = Ok(());
    let mut dead = false;
    for op in ops {
        if dead {
            break;
        }
        match op {
            BcOp::Ins(k, w) => {
                intoks.push(format!("i{}:{}", k, rat(*w)));
                let new = c.insert(*k, *w);
                outtoks.push(format!("{}", new as u8));
                let had = shadow.iter().position(|(kk, _)| kk == k);
                if had.is_some() == new {
                    oracle = Err(format!("insert({}) reported new={} but presence was {}", k, new, had.is_some()));
                }
                match had {
                    Some(i) => shadow[i].1 = *w,
                    None => shadow.push((*k, *w)),
                }
            }
            BcOp::Rem(k) => {
                intoks.push(format!("r{}", k));
                let kk = *k;
                let r = catch(std::panic::AssertUnwindSafe(|| c.remove(&kk)));
                match r {
                    Ok(b) => {
                        outtoks.push(format!("{}", b as u8));
                        let had = shadow.iter().position(|(x, _)| *x == kk);
                        if had.is_some() != b {
                            oracle = Err(format!("remove({}) = {} but presence was {}", kk, b, had.is_some()));
                        }
                        if let Some(i) = had {
                            shadow.remove(i);
                        }
                    }
                    Err(_) => {
                        outtoks.push("P".into());
                        dead = true;
                        if shadow.iter().any(|(x, _)| *x == kk) {
                            oracle = Err(format!("remove({}) panicked on a present key", kk));
                        }
                    }
                }
            }
            BcOp::Clear => {
                intoks.push("c".into());
                c.clear();
                outtoks.push("c".into());
                shadow.clear();
            }
            BcOp::Weight(k) => {
                intoks.push(format!("w{}", k));
                let w = c.get_weight(k);
                outtoks.push(w.map(rat).unwrap_or("N".into()));
                let exp = shadow.iter().find(|(x, _)| x == k).map(|x| x.1);
                if exp != w {
                    oracle = Err(format!("get_weight({}) = {:?}, inserted {:?}", k, w, exp));
                }
            }
            BcOp::Has(k) => {
                intoks.push(format!("h{}", k));
                let b = c.contains(k);
                outtoks.push(format!("{}", b as u8));
                if b != shadow.iter().any(|(x, _)| x == k) {
                    oracle = Err(format!("contains({}) = {}", k, b));
                }
            }
            BcOp::Get(word) => {
                intoks.push(format!("g{}", word));
                let mut r = RecRng::scripted(vec![*word], 0);
                let res = catch(std::panic::AssertUnwindSafe(|| c.get_random(&mut r).cloned()));
                match res {
                    Ok(Some((k, w))) => {
                        outtoks.push(format!("{}:{}", k, rat(w)));
                        // property: a selected key has positive weight (it is about to become a stored operator)
                        if w <= 0.0 {
                            // (F12 before /repo commit b694648: a draw of exactly 0.0 selected a zero-weight first key)
                            oracle = Err(format!("get_random with word {} (draw {}) selected key {} of weight {}", word, if (*word >> 12) == 0 { "0.0" } else { "> 0" }, k, w));
                        }
                        if (*word >> 12) == 0 {
                            ZERO_DRAWS.with(|c| c.set(c.get() + 1));
                        }
                    }
                    Ok(None) => {
                        outtoks.push("N".into());
                        if !shadow.is_empty() {
                            oracle = Err("get_random = None on a non-empty container".into());
                        }
                    }
                    Err(_) => outtoks.push("P".into()),
                }
                outtoks.push(format!("d{}", r.log.len()));
            }
        }
        // running total against the shadow after every operation (exact on dyadic inputs)
        let tot: f64 = shadow.iter().map(|x| x.1).sum();
        if !dead && c.get_total_weight() != tot && oracle.is_ok() {
            oracle = Err(format!("total_weight {} but the weights sum to {}", c.get_total_weight(), tot));
        }
        if !dead && c.len() != shadow.len() && oracle.is_ok() {
            oracle = Err(format!("len {} but {} keys present", c.len(), shadow.len()));
        }
    }
    let keys: Vec<String> = c.iter().map(|(k, w)| format!("{}:{}", k, rat(*w))).collect();
    let keys = if keys.is_empty() { "-".to_string() } else { keys.join(",") };
    outtoks.push(keys);
    outtoks.push(rat(c.get_total_weight()));
    emit(ops.len() >= 3, &format!("bc {}", intoks.join(",")), &outtoks.join(" "), Some(oracle));
}

fn helpers_mode(a: &Args) {
    let mut g = SplitMix64::new(a.seed ^ 0xC03);
    let scale = if a.thorough { 8 } else { 1 };

    // --- remove_doubles: all sorted lists over {0,1,2} up to length 6, random sorted and unsorted ones
    fn rec(cur: &mut Vec<usize>, maxlen: usize, f: &mut dyn FnMut(&Vec<usize>)) {
        f(cur);
        if cur.len() == maxlen {
            return;
        }
        let lo = cur.last().cloned().unwrap_or(0);
        for x in lo..3 {
            cur.push(x);
            rec(cur, maxlen, f);
            cur.pop();
        }
    }
    let mut all = vec![];
    rec(&mut vec![], 6, &mut |v| all.push(v.clone()));
    for v in all {
        case_rd(v);
    }
    for _ in 0..300 * scale {
        let n = g.below(14) as usize;
        let mut v: Vec<usize> = (0..n).map(|_| g.below(7) as usize).collect();
        if g.chance(3, 4) {
            v.sort_unstable();
        }
        case_rd(v);
    }

    // --- find_overlapping_starts: exhaustive for cutoff <= 5 (all non-empty position sets, all
    // p_start, p_end), random for larger cutoffs
    for cutoff in 1..=5usize {
        for mask in 1u32..(1 << cutoff) {
            let fp: Vec<usize> = (0..cutoff).filter(|i| (mask >> i) & 1 == 1).collect();
            for ps in 0..cutoff {
                for pe in 0..cutoff {
                    case_fos(ps, pe, cutoff, &fp);
                }
            }
        }
    }
    for _ in 0..400 * scale {
        let cutoff = g.range(6, 40) as usize;
        let mut fp: Vec<usize> = (0..cutoff).filter(|_| g.chance(1, 3)).collect();
        if fp.is_empty() {
            fp.push(g.below(cutoff as u64) as usize);
        }
        let ps = g.below(cutoff as u64) as usize;
        let pe = g.below(cutoff as u64) as usize;
        case_fos(ps, pe, cutoff, &fp);
    }
    case_fos(0, 0, 4, &[]);

    // --- calculate_mult: dyadic weights, before-total > 0 whenever it is used as a divisor
    for _ in 0..400 * scale {
        let nb = g.range(1, 4) as usize;
        let before: Vec<f64> = (0..nb).map(|_| g.range(0, 16) as f64 / 8.0).collect();
        let mut after: Vec<f64> = (0..nb).map(|_| g.range(0, 16) as f64 / 8.0).collect();
        if g.chance(1, 5) {
            after = before.iter().rev().cloned().collect();
        }
        let n = g.below(6) as usize;
        let wb: f64 = before.iter().sum();
        let wa: f64 = after.iter().sum();
        if wb == 0.0 && n > 0 && wa != 0.0 {
            continue; // division by zero: outside the domain (a counted operator has positive weight)
        }
        case_cm(&before, &after, n);
    }
    case_cm(&[], &[], 0);
    case_cm(&[2.0, 0.0], &[0.0, 2.0], 3);
    case_cm(&[2.0, 0.0], &[0.0, 0.0], 2);

    // --- contiguous_bits
    for k in 0..=64u32 {
        let low = if k == 64 { u64::MAX } else { (1u64 << k) - 1 };
        let hi = if k >= 63 { 0 } else { (g.next() >> (k + 1)) << (k + 1) };
        case_cb(low | hi);
    }
    for _ in 0..100 * scale {
        case_cb(g.next());
    }

    // --- BondContainer
    // the former F12 witness on the public type: first key has weight 0, scripted word 0
    case_bc(&[BcOp::Ins(3, 0.0), BcOp::Ins(1, 2.0), BcOp::Get(0), BcOp::Get(4095), BcOp::Get(4096), BcOp::Get(u64::MAX)]);
    for _ in 0..400 * scale {
        let n = g.range(1, 14) as usize;
        let mut ops = vec![];
        for _ in 0..n {
            let k = g.below(7) as usize;
            let w = g.range(0, 16) as f64 / 8.0;
            ops.push(match g.below(12) {
                0..=4 => BcOp::Ins(k, if g.chance(1, 5) { 0.0 } else { w }),
                5..=6 => BcOp::Rem(k),
                7 => {
                    if g.chance(1, 4) {
                        BcOp::Clear
                    } else {
                        BcOp::Has(k)
                    }
                }
                8 => BcOp::Weight(k),
                _ => BcOp::Get(match g.below(5) {
                    0 => 0,
                    1 => g.below(1 << 13),
                    2 => u64::MAX - g.below(1 << 13),
                    _ => g.next(),
                }),
            });
        }
        case_bc(&ops);
    }
    stat("bc_get_random_zero_draws", ZERO_DRAWS.with(|c| c.get()));
}


// ---------------------------------------------------------------------------------------------
// rvb mode
// ---------------------------------------------------------------------------------------------

/// RNG handle shared between the harness and the sampler(s): lets the harness script the words of
/// one update and read the log while the sampler owns "its" RNG.
#[derive(Clone)]
struct Shared(Rc<RefCell<RecRng>>);
impl RngCore for Shared {
    fn next_u32(&mut self) -> u32 {
        self.0.borrow_mut().next_u32()
    }
    fn next_u64(&mut self) -> u64 {
        self.0.borrow_mut().next_u64()
    }
    fn fill_bytes(&mut self, dest: &mut [u8]) {
        self.0.borrow_mut().fill_bytes(dest)
    }
    fn try_fill_bytes(&mut self, dest: &mut [u8]) -> Result<(), rand::Error> {
        self.0.borrow_mut().try_fill_bytes(dest)
    }
}
impl Shared {
    fn script(&self, words: &[u64]) {
        let mut r = self.0.borrow_mut();
        r.script = words.to_vec();
        r.pos = 0;
        r.log.clear();
    }
    fn free(&self) {
        let mut r = self.0.borrow_mut();
        r.script.clear();
        r.pos = 0;
        r.log.clear();
    }
    fn log(&self) -> Vec<u64> {
        self.0.borrow().log.clone()
    }
}

type G = DefaultQmcIsingGraph<Shared>;

#[derive(Clone, Debug)]
struct Model {
    name: &'static str,
    nvars: usize,
    edges: Vec<((usize, usize), f64)>,
    gamma: f64,
    h: f64,
    beta: f64,
}

#[derive(Clone, Debug, PartialEq)]
struct SOp {
    bond: usize,
    vars: Vec<usize>,
    ins: Vec<bool>,
    outs: Vec<bool>,
    diag: bool,
    constant: bool,
}

#[derive(Clone, Debug, PartialEq)]
struct Snap {
    state: Vec<bool>,
    slots: Vec<Option<SOp>>,
    text: String,
}

fn snap(g: &G) -> Snap {
    let m = g.get_manager_ref();
    let slots = (0..m.get_cutoff())
        .map(|p| {
            m.get_pth(p).map(|op| SOp {
                bond: op.get_bond(),
                vars: op.get_vars().to_vec(),
                ins: op.get_inputs().to_vec(),
                outs: op.get_outputs().to_vec(),
                diag: op.is_diagonal(),
                constant: op.is_constant(),
            })
        })
        .collect();
    Snap { state: g.clone_state(), slots, text: show_slots(m) }
}

fn weight_of(g: &G, op: &SOp) -> f64 {
    let info = g.make_haminfo();
    G::hamiltonian(&info, &op.vars, op.bond, &op.ins, &op.outs)
}

fn show_edges(m: &Model) -> String {
    m.edges.iter().map(|((a, b), j)| format!("{}:{}:{}", a, b, rat(*j))).collect::<Vec<_>>().join(",")
}

/// Region of a trace, expanded to all variables.
#[derive(Clone, Debug, PartialEq)]
struct Reg {
    subvars: Vec<usize>,
    start: Vec<bool>,
    toggles: Vec<usize>,
}
fn reg_of(t: &RvbTrace) -> Reg {
    Reg { subvars: t.subvars.clone(), start: t.cluster_starting_state.clone(), toggles: t.cluster_toggle_ps.clone() }
}

/// Model-independent evaluation of one observed update on the real before/after pair:
/// dense slot-by-slot sweep with the membership mask of the traced region.
struct Dense {
    k: usize,            // rotatable operators (on a boundary bond)
    q: f64,              // Π over rotatable ops of W_after(p) / W_before(p)
    r: f64,              // Π over enclosed ops of w(flipped) / w
    fwd_redraw: f64,     // Π w_after(new bond) / W_after(p)
    bwd_redraw: f64,     // Π w_before(old bond) / W_before(p)
    outside_same: bool,  // operators not touched by the region are identical
    bad: Option<String>,
    /// number of toggles processed when the running product (in the order the code multiplies:
    /// Ising factor at an enclosed op, pending bond factors at an off-diagonal op or a toggle)
    /// first fell below f64::EPSILON; None = never
    break_after_toggles: Option<usize>,
}

fn dense(g: &G, m: &Model, before: &Snap, after: &Snap, reg: &Reg) -> Dense {
    let info = g.make_haminfo();
    let mut mask = vec![false; m.nvars];
    for (i, v) in reg.subvars.iter().enumerate() {
        mask[*v] = reg.start[i];
    }
    let mut st = before.state.clone();
    let mut d = Dense { k: 0, q: 1.0, r: 1.0, fwd_redraw: 1.0, bwd_redraw: 1.0, outside_same: true, bad: None, break_after_toggles: None };
    let mut ti = 0;
    let mut running = 1.0f64;
    let mut pending = 1.0f64;
    let w2 = |b: usize, sa: bool, sb: bool| -> f64 {
        let (va, vb) = m.edges[b].0;
        G::hamiltonian(&info, &[va, vb], b, &[sa, sb], &[sa, sb])
    };
    for p in 0..before.slots.len() {
        let (ob, oa) = (&before.slots[p], after.slots.get(p).cloned().flatten());
        let ob = match ob {
            Some(o) => o,
            None => {
                if oa.is_some() {
                    d.bad = Some(format!("slot {} was empty and is occupied afterwards", p));
                }
                continue;
            }
        };
        let is_tog = ti < reg.toggles.len() && reg.toggles[ti] == p;
        let boundary: Vec<usize> = (0..m.edges.len()).filter(|b| mask[m.edges[*b].0 .0] != mask[m.edges[*b].0 .1]).collect();
        if ob.bond < m.edges.len() && boundary.contains(&ob.bond) {
            // rotatable operator
            d.k += 1;
            let mut wb = 0.0;
            let mut wa = 0.0;
            for b in &boundary {
                let (u, v) = m.edges[*b].0;
                wb += w2(*b, st[u], st[v]);
                wa += w2(*b, st[u] != mask[u], st[v] != mask[v]);
            }
            d.q *= wa / wb;
            pending *= wa / wb;
            let (u, v) = m.edges[ob.bond].0;
            d.bwd_redraw *= w2(ob.bond, st[u], st[v]) / wb;
            match &oa {
                Some(oa) if oa.bond < m.edges.len() && boundary.contains(&oa.bond) => {
                    let (u, v) = m.edges[oa.bond].0;
                    d.fwd_redraw *= w2(oa.bond, st[u] != mask[u], st[v] != mask[v]) / wa;
                }
                _ => {
                    if after != before {
                        d.bad = Some(format!("rotatable op at slot {} not re-bonded to a boundary bond", p));
                    }
                }
            }
        } else {
            let any_in = ob.vars.iter().any(|v| mask[*v]);
            let all_in = ob.vars.iter().all(|v| mask[*v]);
            let nearby = ob.vars.iter().any(|v| reg.subvars.contains(v));
            if all_in {
                let fl = SOp { ins: ob.ins.iter().map(|b| !b).collect(), outs: ob.outs.iter().map(|b| !b).collect(), ..ob.clone() };
                let f = weight_of(g, &fl) / weight_of(g, ob);
                d.r *= f;
                running *= f;
                if running < f64::EPSILON && d.break_after_toggles.is_none() {
                    d.break_after_toggles = Some(ti + is_tog as usize);
                }
            }
            if nearby && (!ob.diag || is_tog) {
                running *= pending;
                pending = 1.0;
                if running < f64::EPSILON && d.break_after_toggles.is_none() {
                    d.break_after_toggles = Some(ti + is_tog as usize);
                }
            }
            if !any_in && !is_tog && oa.as_ref() != Some(ob) {
                d.outside_same = false;
            }
            if is_tog {
                if ob.vars.len() != 1 || !ob.constant {
                    d.bad = Some(format!("toggle position {} is not a one-variable constant operator", p));
                } else {
                    let v = ob.vars[0];
                    mask[v] = !mask[v];
                }
                ti += 1;
            }
        }
        for (i, v) in ob.vars.iter().enumerate() {
            st[*v] = ob.outs[i];
        }
    }
    if ti != reg.toggles.len() {
        d.bad = Some("not all toggle positions carry operators".into());
    }
    d
}

/// positions of the constant operators per variable, in slot order (what `find_constants` collects)
fn const_ps(before: &Snap, nvars: usize) -> Vec<Vec<usize>> {
    let mut v = vec![vec![]; nvars];
    for (p, o) in before.slots.iter().enumerate() {
        if let Some(o) = o {
            if o.constant {
                for x in &o.vars {
                    v[*x].push(p);
                }
            }
        }
    }
    v
}

fn mask0_of(reg: &Reg, nvars: usize) -> Vec<bool> {
    let mut mask = vec![false; nvars];
    for (i, v) in reg.subvars.iter().enumerate() {
        mask[*v] = reg.start[i];
    }
    mask
}

/// membership just after slot p0
fn mask_after(before: &Snap, reg: &Reg, nvars: usize, p0: usize) -> Vec<bool> {
    let mut mask = mask0_of(reg, nvars);
    for p in &reg.toggles {
        if *p <= p0 {
            if let Some(Some(o)) = before.slots.get(*p) {
                mask[o.vars[0]] = !mask[o.vars[0]];
            }
        }
    }
    mask
}

/// number of (variable, interval between constant operators) cells in the region
fn cell_count(before: &Snap, reg: &Reg, nvars: usize) -> usize {
    let cps = const_ps(before, nvars);
    let m0 = mask0_of(reg, nvars);
    (0..nvars)
        .map(|v| if cps[v].is_empty() { m0[v] as usize } else { cps[v].iter().filter(|p| mask_after(before, reg, nvars, **p)[v]).count() })
        .sum()
}

/// Container-level integrity of the sampler's operator string, through the public navigation API only
/// (model independent): (1) `get_count(b)` for every bond equals a scan of the slots; (2) for every
/// variable the world line followed through the per-variable links (`get_first_p_for_var`,
/// `get_next_p_for_rel_var`) visits exactly the slots whose operator acts on that variable, in order, and
/// the relative index handed out points at that variable.
fn integrity(g: &G, m: &Model) -> Result<(), String> {
    let mgr = g.get_manager_ref();
    let s = snap(g);
    let nb = m.edges.len() + 2 * m.nvars;
    for b in 0..nb {
        let scan = s.slots.iter().filter(|o| o.as_ref().map(|o| o.bond == b).unwrap_or(false)).count();
        let cnt = mgr.get_count(b);
        if cnt != scan {
            return Err(format!("get_count({}) = {} but {} operators on that bond are in the string", b, cnt, scan));
        }
    }
    let n_scan = s.slots.iter().filter(|o| o.is_some()).count();
    if mgr.get_n() != n_scan {
        return Err(format!("get_n() = {} but {} operators are in the string", mgr.get_n(), n_scan));
    }
    for v in 0..m.nvars {
        let want: Vec<usize> = s.slots.iter().enumerate().filter(|(_, o)| o.as_ref().map(|o| o.vars.contains(&v)).unwrap_or(false)).map(|(p, _)| p).collect();
        let mut got = vec![];
        let mut cur = mgr.get_first_p_for_var(v);
        while let Some(PRel { p, relv }) = cur {
            if got.len() > want.len() + 1 {
                return Err(format!("world line of variable {} does not terminate ({:?} ...)", v, got));
            }
            let node = match mgr.get_node_ref(p) {
                Some(n) => n,
                None => return Err(format!("world line of variable {} leads to the empty slot {}", v, p)),
            };
            let vars = node.get_op_ref().get_vars();
            if vars.get(relv) != Some(&v) {
                return Err(format!("world line of variable {}: at slot {} the link's relative index {} points at variable {:?} (operator on {:?})", v, p, relv, vars.get(relv), vars));
            }
            got.push(p);
            cur = mgr.get_next_p_for_rel_var(relv, node);
        }
        if got != want {
            return Err(format!("world line of variable {} visits slots {:?} but the operators acting on it are at {:?}", v, got, want));
        }
    }
    Ok(())
}

fn close(a: f64, b: f64) -> bool {
    (a - b).abs() <= 1e-9 * a.abs().max(b.abs()).max(1e-300) || (a.abs() < 1e-15 && b.abs() < 1e-15)
}

/// One proposed update on `g`; emits the case. Returns false if the sampler is unusable (panic).
fn observe(g: &mut G, rng: &Shared, m: &Model, stats: &mut std::collections::BTreeMap<String, u64>) -> bool {
    let before = snap(g);
    let g_before = g.clone();
    rng.free();
    let _ = take_trace();
    let res = catch(std::panic::AssertUnwindSafe(|| g.single_rvb_sweep(Some(1))));
    let log = rng.log();
    let head = format!(
        "rvb {} {} {} {} {} {}",
        m.nvars,
        show_edges(m),
        rat(m.gamma),
        rat(m.h),
        bits(&before.state),
        before.text
    );
    let tr = take_trace();
    if let Err(msg) = res {
        emit(true, &format!("{} - - - 0 {} - L0: -", head, list(&log)), "PANIC", Some(Err(format!("single_rvb_sweep panicked: {}", msg))));
        return false;
    }
    let (succ, _) = res.unwrap();
    let t = &tr[0];
    let after = snap(g);
    let reg = reg_of(t);
    let mut fails: Vec<String> = vec![];
    if tr.len() != 1 {
        fails.push(format!("{} traces for one update", tr.len()));
    }
    if (succ == 1) != t.accepted {
        fails.push("returned success count disagrees with the trace".into());
    }
    // --- container integrity after the update (bond counts, per-variable links), and follow-up steps on a
    // clone (cluster, diagonal, another RVB update) so that a corrupted string surfaces
    match catch(std::panic::AssertUnwindSafe(|| integrity(g, m))) {
        Ok(Ok(())) => {}
        Ok(Err(e)) => fails.push(format!("after the update: {}", e)),
        Err(msg) => fails.push(format!("navigating the string after the update panicked: {}", msg)),
    }
    {
        let mut gf = g.clone();
        rng.free();
        let r = catch(std::panic::AssertUnwindSafe(|| {
            gf.single_cluster_step();
            gf.single_diagonal_step(m.beta);
            gf.single_rvb_sweep(Some(1));
        }));
        rng.free();
        let _ = take_trace();
        match r {
            Err(msg) => fails.push(format!("cluster / diagonal / RVB steps following the update panicked: {}", msg)),
            Ok(()) => {
                let sf = snap(&gf);
                match catch(std::panic::AssertUnwindSafe(|| integrity(&gf, m))) {
                    Ok(Ok(())) => {}
                    Ok(Err(e)) => fails.push(format!("after cluster / diagonal / RVB steps following the update: {}", e)),
                    Err(msg) => fails.push(format!("navigating the string after the follow-up steps panicked: {}", msg)),
                }
                if propagate_check(gf.get_manager_ref(), &sf.state).map(|x| x != sf.state).unwrap_or(true) {
                    fails.push("after cluster / diagonal / RVB steps following the update the configuration is not consistent".into());
                }
            }
        }
    }
    // --- oracle, model independent
    match propagate_check(g.get_manager_ref(), &after.state) {
        Ok(s) if s == after.state => {}
        Ok(_) => fails.push("propagated state after the update is not periodic".into()),
        Err(p) => fails.push(format!("operator at slot {} does not meet its inputs after the update", p)),
    }
    for (p, o) in after.slots.iter().enumerate() {
        if let Some(o) = o {
            if !(weight_of(g, o) > 0.0) {
                fails.push(format!("operator with weight 0 stored at slot {} (bond {})", p, o.bond));
            }
        }
    }
    let n_b = before.slots.iter().filter(|o| o.is_some()).count();
    let n_a = after.slots.iter().filter(|o| o.is_some()).count();
    if n_b != n_a || n_a != g.get_n() {
        fails.push(format!("operator count changed {} -> {} (get_n {})", n_b, n_a, g.get_n()));
    }
    if !t.accepted && after != before {
        fails.push("rejected proposal changed the configuration".into());
    }
    let d = dense(g, m, &before, &after, &reg);
    if let Some(b) = &d.bad {
        fails.push(b.clone());
    }
    // words drawn after the proposal: the accept draw (unless p >= 1) and one per rotated operator
    // (which region is proposed from which words is compared exactly by the `region` case below)
    let tail = (t.p_to_flip < 1.0) as usize + if t.accepted { d.k } else { 0 };
    if !d.outside_same {
        fails.push("an operator outside the traced region changed".into());
    }
    // acceptance formula on the real weights: p = Π W_aft/W_bef · Π ising ratios, or exactly 0 when
    // the running product underflows f64::EPSILON on the way (the sweep is abandoned: F19)
    let expect_p = if d.break_after_toggles.is_some() { 0.0 } else { d.q * d.r };
    if d.break_after_toggles.is_some() {
        *stats.entry("rvb_underflow_proposals".into()).or_insert(0) += 1;
        if d.q * d.r > 0.0 {
            *stats.entry("rvb_underflow_proposals_nonzero_product".into()).or_insert(0) += 1;
        }
        if t.p_to_flip != 0.0 {
            fails.push(format!("F19: the running product underflowed EPSILON but p_to_flip = {:e} (not 0): a half-swept membership can reach mutate_graph", t.p_to_flip));
        }
    }
    // F19 regression: a proposal below EPSILON must be rejected even when the accept word is 0
    if t.p_to_flip < f64::EPSILON && !log.is_empty() {
        let mut script = log.clone();
        *script.last_mut().unwrap() = 0;
        let mut g0 = g_before.clone();
        rng.script(&script);
        let r0 = catch(std::panic::AssertUnwindSafe(|| g0.single_rvb_sweep(Some(1))));
        let used = rng.log().len();
        rng.free();
        let tr0 = take_trace();
        match r0 {
            Err(msg) => fails.push(format!("F19: with the accept word forced to 0 the update panicked: {}", msg)),
            Ok(_) => {
                let acc0 = tr0.get(0).map(|t| t.accepted).unwrap_or(false);
                if t.p_to_flip == 0.0 || d.break_after_toggles.is_some() {
                    if acc0 || snap(&g0) != before {
                        fails.push("F19: a proposal of probability 0 / underflowed product was applied when the accept word is 0".into());
                    }
                    if used != log.len() {
                        fails.push(format!("forced-reject re-run drew {} words instead of {}", used, log.len()));
                    }
                    *stats.entry("rvb_forced_word0_rejected".into()).or_insert(0) += 1;
                }
            }
        }
    }
    if !close(t.p_to_flip, expect_p) {
        fails.push(format!("p_to_flip {} but Π(W_aft/W_bef)·Π(ising) on the real weights = {}", t.p_to_flip, expect_p));
    }
    // --- F12 regression through the RVB path: force one rotation draw to exactly 0.0; the re-bonded
    // operator must still have positive weight (BondContainer::get_random skips zero-weight keys)
    if t.accepted && d.k > 0 && log.len() >= d.k {
        let mut script = log.clone();
        let which = log.len() - d.k + (log.len() % d.k);
        script[which] = 0;
        let mut g0 = g_before.clone();
        rng.script(&script);
        let r0 = catch(std::panic::AssertUnwindSafe(|| g0.single_rvb_sweep(Some(1))));
        rng.free();
        let _ = take_trace();
        match r0 {
            Err(msg) => fails.push(format!("with a rotation draw forced to 0.0 the update panicked: {}", msg)),
            Ok(_) => {
                let s0 = snap(&g0);
                for (p, o) in s0.slots.iter().enumerate() {
                    if let Some(o) = o {
                        if !(weight_of(&g0, o) > 0.0) {
                            fails.push(format!("F12 via RVB: rotation draw 0.0 stored an operator of weight 0 at slot {} (bond {})", p, o.bond));
                        }
                    }
                }
                if propagate_check(g0.get_manager_ref(), &s0.state).map(|x| x != s0.state).unwrap_or(true) {
                    fails.push("with a rotation draw forced to 0.0 the result is not a consistent configuration".into());
                }
                *stats.entry("rvb_rotation_word0_probes".into()).or_insert(0) += 1;
            }
        }
    }
    // --- the acceptance rule measured on the real code: applied with probability min(1, p_to_flip).
    // p >= 1 is always applied; for 0 < p < 1 the same proposal words followed by an accept word just
    // below / above p * 2^64 must be accepted / rejected (the flip point / 2^64 is the probability).
    if t.p_to_flip >= 1.0 && !t.accepted {
        fails.push(format!("a proposal with p_to_flip = {} >= 1 was not applied", t.p_to_flip));
    }
    if t.p_to_flip > 0.0 && t.p_to_flip < 1.0 && log.len() >= tail {
        let prefix = log.len() - tail;
        let thr = (t.p_to_flip * (2.0 * (1u64 << 63) as f64)) as u64;
        let mut probes = vec![(thr.saturating_add(1 << 20), false)];
        if thr > 0 {
            probes.push((thr - thr.min(1 << 20), true));
        }
        for (w, want) in probes {
            let mut script = log[..prefix].to_vec();
            script.push(w);
            let mut g0 = g_before.clone();
            rng.script(&script);
            let _ = take_trace();
            let r0 = catch(std::panic::AssertUnwindSafe(|| g0.single_rvb_sweep(Some(1))));
            rng.free();
            let tr0 = take_trace();
            match (r0, tr0.get(0)) {
                (Ok(_), Some(t0)) => {
                    if reg_of(t0) != reg || t0.p_to_flip.to_bits() != t.p_to_flip.to_bits() {
                        fails.push(format!(
                            "acceptance rule: the {} words before the accept draw (all but one accept word iff p < 1 and one word per rotated operator) followed by another accept word did not reproduce the proposal — the update does not draw its accept word as specified",
                            prefix
                        ));
                    } else if t0.accepted != want {
                        fails.push(format!(
                            "acceptance rule: p_to_flip = {:e}, accept word {} ({} p*2^64 = {}) but the proposal was {}",
                            t.p_to_flip,
                            w,
                            if want { "below" } else { "at or above" },
                            thr,
                            if t0.accepted { "applied" } else { "rejected" }
                        ));
                    }
                    *stats.entry("rvb_accept_threshold_probes".into()).or_insert(0) += 1;
                }
                (Err(msg), _) => fails.push(format!("accept-threshold probe panicked: {}", msg)),
                _ => fails.push("accept-threshold probe produced no trace".into()),
            }
        }
    }
    // --- proposal symmetry and detailed balance on the real pair
    let mut p2tok = "-".to_string();
    if t.accepted {
        let mut g2 = g.clone();
        rng.script(&log);
        let r2 = catch(std::panic::AssertUnwindSafe(|| g2.single_rvb_sweep(Some(1))));
        rng.free();
        let tr2 = take_trace();
        match r2 {
            Err(msg) => fails.push(format!("reverse proposal panicked: {}", msg)),
            Ok(_) => {
                let t2 = &tr2[0];
                let r2 = reg_of(t2);
                // (the traced starting state of the reverse proposal is only meaningful when its sweep ran to the end)
                if r2.subvars != reg.subvars || r2.toggles != reg.toggles || (t2.p_to_flip >= f64::EPSILON && r2.start != reg.start) {
                    fails.push(format!("same draws from the new configuration propose a different region: {:?} vs {:?}", reg_of(t2), reg));
                }
                p2tok = format!("~{:e}", t2.p_to_flip);
                // weight ratio of the pair via the public Hamiltonian
                let mut ratio = 1.0;
                for (ob, oa) in before.slots.iter().zip(after.slots.iter()) {
                    if let (Some(ob), Some(oa)) = (ob, oa) {
                        if ob != oa {
                            ratio *= weight_of(g, oa) / weight_of(g, ob);
                        }
                    }
                }
                let lhs = t.p_to_flip.min(1.0) * d.fwd_redraw;
                let rhs = ratio * t2.p_to_flip.min(1.0) * d.bwd_redraw;
                if !close(lhs, rhs) {
                    fails.push(format!(
                        "detailed balance violated on the pair: A·redraw = {} but (π'/π)·A'·redraw' = {} (p={}, p'={}, π'/π={})",
                        lhs, rhs, t.p_to_flip, t2.p_to_flip, ratio
                    ));
                }
                if t.p_to_flip > 0.0 && !close(t.p_to_flip * t2.p_to_flip, 1.0) {
                    fails.push(format!("reverse multiplier {} is not the reciprocal of {}", t2.p_to_flip, t.p_to_flip));
                }
            }
        }
    }
    let input = format!(
        "{} {} {} {} {} {} {} {}",
        head,
        list(&reg.subvars),
        bits(&reg.start),
        list(&reg.toggles),
        t.accepted as u8,
        list(&log),
        bits(&after.state),
        after.text
    );
    // last token: the decidable hypothesis `RegionOK` of the kernel theorems (ising_timestep_invariant_rvb_cut)
    // evaluated by the model on the traced region (before, and after when applied) must hold: expected constant
    let output = format!("~{:e} {} 1 1 {} {} 1 ok rok=1", t.p_to_flip, d.k, if t.accepted { "1" } else { "-" }, p2tok);
    // --- kind `region`: the exact proposal model replayed on the recorded draws must produce exactly
    // the traced region and consume exactly the words drawn before the accept draw.
    // Oracle (model independent): (1) the update leaves what the proposal reads untouched (positions of
    // the constant operators per variable, cutoff); (2) the proposal reads nothing else: from a
    // configuration with the same constant-operator positions but different spins / operator contents
    // (one `single_cluster_step` applied to a clone of `before`) the same words propose the same region.
    {
        let mut rfails: Vec<String> = vec![];
        let cps_b = const_ps(&before, m.nvars);
        if const_ps(&after, m.nvars) != cps_b || after.slots.len() != before.slots.len() {
            rfails.push("the update changed the positions of constant operators or the cutoff (the data the proposal reads)".into());
        }
        // F21: the cluster never grows across an edge with J = 0: all variables that are inside the
        // cluster at some time lie in one connected component of the graph of non-zero couplings
        {
            let mut inside: Vec<usize> = reg.subvars.iter().zip(reg.start.iter()).filter(|(_, b)| **b).map(|(v, _)| *v).collect();
            for p in &reg.toggles {
                if let Some(Some(o)) = before.slots.get(*p) {
                    inside.extend(o.vars.iter().cloned());
                }
            }
            let mut comp: Vec<usize> = (0..m.nvars).collect();
            for _ in 0..m.nvars {
                for ((x, y), j) in &m.edges {
                    if *j != 0.0 {
                        let c = comp[*x].min(comp[*y]);
                        comp[*x] = c;
                        comp[*y] = c;
                    }
                }
            }
            if inside.iter().any(|v| comp[*v] != comp[inside[0]]) {
                rfails.push(format!("F21: the cluster {:?} spans variables that are connected only through J = 0 edges", inside));
            }
            if m.edges.iter().any(|e| e.1 == 0.0) {
                *stats.entry("region_on_diluted_graph".into()).or_insert(0) += 1;
            }
        }
        let mut gs = g_before.clone();
        rng.free();
        let rs = catch(std::panic::AssertUnwindSafe(|| gs.single_cluster_step()));
        // (a sampler whose step panicked has lost its manager: do not touch it)
        let scr = if rs.is_ok() { snap(&gs) } else { before.clone() };
        if let Err(msg) = &rs {
            rfails.push(format!("single_cluster_step on a clone of the configuration before the update panicked: {}", msg));
        }
        if rs.is_ok() && const_ps(&scr, m.nvars) == cps_b && scr.slots.len() == before.slots.len() {
            if scr.state != before.state || scr.slots != before.slots {
                *stats.entry("region_scrambled_differs".into()).or_insert(0) += 1;
            }
            rng.script(&log);
            let _ = take_trace();
            let r3 = catch(std::panic::AssertUnwindSafe(|| gs.single_rvb_sweep(Some(1))));
            rng.free();
            let tr3 = take_trace();
            match (r3, tr3.get(0)) {
                (Ok(_), Some(t3)) => {
                    if reg_of(t3) != reg {
                        rfails.push(format!(
                            "the proposal depends on more than the constant-operator positions: same words, same positions, other spins propose {:?} instead of {:?}",
                            reg_of(t3),
                            reg
                        ));
                    }
                    *stats.entry("region_scrambled_probes".into()).or_insert(0) += 1;
                }
                (Err(msg), _) => rfails.push(format!("proposal from the cluster-flipped configuration panicked: {}", msg)),
                _ => rfails.push("no trace from the cluster-flipped configuration".into()),
            }
        } else {
            rng.free();
            *stats.entry("region_scramble_skipped".into()).or_insert(0) += 1;
        }
        let _ = take_trace();
        let prop_draws = log.len() as i64 - tail as i64;
        let cells = cell_count(&before, &reg, m.nvars);
        *stats.entry(format!("region_cells_{}", cells.min(6))).or_insert(0) += 1;
        *stats.entry(format!("region_proposal_draws_{}", (prop_draws.max(0) as usize).min(12))).or_insert(0) += 1;
        emit(
            cells >= 2,
            &format!("region {} {} {} {}", m.nvars, show_edges(m), before.text, list(&log)),
            &format!("{} {} {} {} ok rok=1", list(&reg.subvars), bits(&reg.start), list(&reg.toggles), prop_draws),
            Some(if rfails.is_empty() { Ok(()) } else { Err(rfails.join("; ")) }),
        );
    }
    *stats.entry(format!("rvb_{}_{}", m.name, if t.accepted { "accepted" } else { "rejected" })).or_insert(0) += 1;
    *stats.entry(format!("rvb_rotatable_{}", d.k.min(4))).or_insert(0) += 1;
    *stats.entry(format!("rvb_toggles_{}", reg.toggles.len().min(6))).or_insert(0) += 1;
    if t.accepted && after != before {
        *stats.entry("rvb_accepted_changed".into()).or_insert(0) += 1;
    }
    emit(
        t.accepted && after != before || (!t.accepted && t.p_to_flip > 0.0),
        &input,
        &output,
        Some(if fails.is_empty() { Ok(()) } else { Err(fails.join("; ")) }),
    );
    true
}

fn models(g: &mut SplitMix64, thorough: bool) -> Vec<Model> {
    let mut v = vec![];
    let js = [0.5, 1.0, 2.0, 0.25, 1.5];
    let gammas = [0.5, 1.0, 2.0];
    let hs = [0.0, 0.0, 0.5, -1.0];
    let betas = [0.5, 1.0, 2.0, 4.0];
    let reps = if thorough { 20 } else { 3 };
    for rep in 0..reps {
        // frustrated triangle, equal couplings
        v.push(Model { name: "triangle", nvars: 3, edges: vec![((0, 1), 1.0), ((1, 2), 1.0), ((0, 2), 1.0)], gamma: *g.pick(&gammas), h: 0.0, beta: *g.pick(&betas) });
        // triangle, unequal |J|
        v.push(Model { name: "triangle_unequal", nvars: 3, edges: vec![((0, 1), *g.pick(&js)), ((1, 2), *g.pick(&js)), ((0, 2), *g.pick(&js))], gamma: *g.pick(&gammas), h: *g.pick(&hs), beta: *g.pick(&betas) });
        // ring with one flipped bond
        let n = g.range(4, 6) as usize;
        let mut e: Vec<((usize, usize), f64)> = (0..n).map(|i| ((i, (i + 1) % n), -1.0)).collect();
        e[0].1 = 1.0;
        if rep % 2 == 1 {
            for x in e.iter_mut() {
                x.1 *= *g.pick(&js);
            }
        }
        v.push(Model { name: "ring_flipped", nvars: n, edges: e, gamma: *g.pick(&gammas), h: *g.pick(&hs), beta: *g.pick(&betas) });
        // multi-edges
        v.push(Model { name: "multi_edge", nvars: 3, edges: vec![((0, 1), 1.0), ((0, 1), -0.5), ((1, 2), *g.pick(&js)), ((0, 2), 1.0), ((1, 2), 0.5)], gamma: *g.pick(&gammas), h: *g.pick(&hs), beta: *g.pick(&betas) });
        // two triangles sharing an edge, with a longitudinal field
        v.push(Model { name: "bowtie_field", nvars: 4, edges: vec![((0, 1), 1.0), ((1, 2), 1.0), ((0, 2), 2.0), ((2, 3), 1.0), ((1, 3), 0.5)], gamma: *g.pick(&gammas), h: if rep % 2 == 0 { 0.5 } else { -0.25 }, beta: *g.pick(&betas) });
        // random graph
        let n = g.range(3, 6) as usize;
        let mut e = vec![];
        for a in 0..n {
            for b in (a + 1)..n {
                if g.chance(3, 5) {
                    let j = *g.pick(&js) * if g.coin() { 1.0 } else { -1.0 };
                    e.push(((a, b), j));
                }
            }
        }
        if e.is_empty() || e.iter().map(|((a, b), _)| *a.max(b)).max().unwrap() + 1 != n {
            e.push(((0, n - 1), 1.0));
            e.push(((n - 2, n - 1), 1.0));
        }
        v.push(Model { name: "random", nvars: n, edges: e, gamma: *g.pick(&gammas), h: *g.pick(&hs), beta: *g.pick(&betas) });
        // strong frustrated pair + weak third bond at low temperature: long runs of rotatable operators
        // with ratio 1/16 each, so products underflow f64::EPSILON inside the sweep (F19 regression)
        v.push(Model { name: "underflow", nvars: 3, edges: vec![((0, 1), 2.0), ((0, 2), 2.0), ((1, 2), 0.125)], gamma: 0.5, h: 0.0, beta: 4.0 });
        // weak transverse field: few constant operators, idle variables occur
        v.push(Model { name: "weak_gamma", nvars: 4, edges: vec![((0, 1), 1.0), ((1, 2), 1.0), ((2, 3), 1.0), ((0, 3), 1.0), ((0, 2), 0.5)], gamma: 0.125, h: 0.0, beta: *g.pick(&betas) });
        // duplicate edges between the same two spins with opposite signs, listed in the same and in the
        // OPPOSITE orientation: an RVB move rotates operators between them (same variable set, other bond /
        // other variable order: the quick-install path of `mutate_p`)
        v.push(Model { name: "anti_pair", nvars: 2, edges: vec![((0, 1), 1.0), ((1, 0), -0.5)], gamma: *g.pick(&gammas), h: 0.0, beta: *g.pick(&betas) });
        v.push(Model { name: "dup_pair", nvars: 2, edges: vec![((0, 1), 1.0), ((0, 1), -0.5), ((1, 0), 0.25)], gamma: *g.pick(&gammas), h: if rep % 2 == 1 { 0.5 } else { 0.0 }, beta: *g.pick(&betas) });
        v.push(Model { name: "anti_triangle", nvars: 3, edges: vec![((0, 1), 1.0), ((1, 0), -1.0), ((1, 2), *g.pick(&js)), ((2, 1), -0.5), ((2, 0), 1.0), ((0, 2), -2.0)], gamma: *g.pick(&gammas), h: *g.pick(&hs), beta: *g.pick(&betas) });
        // diluted graphs: some couplings exactly 0 (F21: the cluster must not grow across them, no panic)
        v.push(Model { name: "diluted_triangle", nvars: 3, edges: vec![((0, 1), *g.pick(&js)), ((1, 2), 0.0), ((0, 2), *g.pick(&js))], gamma: *g.pick(&gammas), h: if rep % 3 == 2 { 0.5 } else { 0.0 }, beta: *g.pick(&betas) });
        let n = g.range(4, 5) as usize;
        let mut e: Vec<((usize, usize), f64)> = (0..n).map(|i| ((i, (i + 1) % n), if g.chance(1, 3) { 0.0 } else { *g.pick(&js) * if g.coin() { 1.0 } else { -1.0 } })).collect();
        e.push(((0, 2), 0.0));
        e[1].1 = 0.0;
        v.push(Model { name: "diluted_ring", nvars: n, edges: e, gamma: *g.pick(&gammas), h: 0.0, beta: *g.pick(&betas) });
        // weak field (idle variables) + zero couplings + a variable attached only through J = 0 edges
        v.push(Model { name: "diluted_weak_gamma", nvars: 4, edges: vec![((0, 1), 0.0), ((1, 2), 1.0), ((2, 3), 0.0), ((0, 2), 0.5), ((0, 3), 0.0)], gamma: if rep % 2 == 0 { 0.125 } else { 0.5 }, h: 0.0, beta: *g.pick(&betas) });
    }
    v
}

fn rvb_mode(a: &Args) {
    j0_regression();
    let mut gen = SplitMix64::new(a.seed ^ 0x3C03);
    let mut stats = std::collections::BTreeMap::new();
    let per_model = if a.thorough { 80 } else { 40 };
    for (mi, m) in models(&mut gen, a.thorough).into_iter().enumerate() {
        let rng = Shared(Rc::new(RefCell::new(RecRng::new(a.seed.wrapping_mul(1000).wrapping_add(mi as u64)))));
        let state: Vec<bool> = (0..m.nvars).map(|_| gen.coin()).collect();
        let mut g = G::new_with_rng(m.edges.clone(), m.gamma, m.h, 2 * m.nvars, rng.clone(), Some(state));
        if gen.coin() {
            g.set_run_rvb(true);
        }
        if gen.chance(1, 3) {
            g.set_enable_heatbath(true);
        }
        if let Err(msg) = catch(std::panic::AssertUnwindSafe(|| g.timesteps(20, m.beta))) {
            emit(true, &format!("thermalise {} {}", m.name, mi), "ok", Some(Err(format!("timesteps with RVB panicked: {}", msg))));
            continue;
        }
        let _ = take_trace();
        let mut alive = true;
        let per_model = if m.name == "underflow" { per_model * 15 } else { per_model };
        for i in 0..per_model {
            if !alive {
                break;
            }
            if i % 3 == 0 {
                let do_cluster = gen.coin();
                if let Err(msg) = catch(std::panic::AssertUnwindSafe(|| {
                    g.single_diagonal_step(m.beta);
                    if do_cluster {
                        g.single_cluster_step();
                    }
                })) {
                    emit(true, &format!("thermalise {} {}", m.name, mi), "ok", Some(Err(format!("diagonal/cluster step after RVB updates panicked: {}", msg))));
                    break;
                }
            }
            alive = observe(&mut g, &rng, &m, &mut stats);
            // 1..k updates per sweep = the same single updates in sequence (same draws)
            if alive && i % 5 == 4 {
                let k = gen.range(2, 4) as usize;
                let mut gk = g.clone();
                rng.free();
                let _ = take_trace();
                let mut single_traces = vec![];
                let mut ok = true;
                for _ in 0..k {
                    if catch(std::panic::AssertUnwindSafe(|| g.single_rvb_sweep(Some(1)))).is_err() {
                        ok = false;
                        break;
                    }
                }
                if !ok {
                    emit(true, &format!("sweepk {} {}", mi, i), "PANIC", Some(Err("single_rvb_sweep panicked".into())));
                    alive = false;
                    continue;
                }
                single_traces.extend(take_trace());
                let log = rng.log();
                rng.script(&log);
                let r = catch(std::panic::AssertUnwindSafe(|| gk.single_rvb_sweep(Some(k))));
                let used = rng.log().len();
                rng.free();
                let multi = take_trace();
                let same = r.is_ok()
                    && snap(&gk) == snap(&g)
                    && used == log.len()
                    && multi.len() == single_traces.len()
                    && multi.iter().zip(single_traces.iter()).all(|(x, y)| reg_of(x) == reg_of(y) && x.p_to_flip == y.p_to_flip && x.accepted == y.accepted);
                emit(
                    multi.iter().any(|t| t.accepted),
                    &format!("sweepk {} {} {} {}", m.name, mi, i, k),
                    "same",
                    Some(if same { Ok(()) } else { Err(format!("single_rvb_sweep(Some({})) differs from {} single updates with the same draws", k, k)) }),
                );
            }
        }
    }
    for (k, v) in stats {
        stat(&k, v);
    }
}


// ---------------------------------------------------------------------------------------------
// pipeline mode: the RVB step embedded in `timestep` (after `set_run_rvb(true)`) has its own copies of
// the bond-weight / ising-ratio closures. Two samplers with identical RNG streams: A runs `timestep`,
// B runs `single_diagonal_step; single_rvb_sweep(None); single_cluster_step`. Oracle (model
// independent): identical state / operator string / cutoff after every step and identical RVB traces
// (regions, p_to_flip bit for bit, accept flags). Correspondence (kind `ptf`): for the traced updates of
// A up to and including the first accepted one (their `before` configuration is the one B has after its
// diagonal step) the traced p_to_flip equals the model's value for the traced region.
// ---------------------------------------------------------------------------------------------

fn pipeline_mode(a: &Args) {
    let mut gen = SplitMix64::new(a.seed ^ 0x91C03);
    let steps = if a.thorough { 40 } else { 24 };
    let mut stats: std::collections::BTreeMap<String, u64> = std::collections::BTreeMap::new();
    for (mi, m) in models(&mut gen, a.thorough).into_iter().enumerate() {
        let seed = a.seed.wrapping_mul(7777).wrapping_add(mi as u64);
        let ra = Shared(Rc::new(RefCell::new(RecRng::new(seed))));
        let rb = Shared(Rc::new(RefCell::new(RecRng::new(seed))));
        let state: Vec<bool> = (0..m.nvars).map(|_| gen.coin()).collect();
        let mut ga = G::new_with_rng(m.edges.clone(), m.gamma, m.h, 2 * m.nvars, ra.clone(), Some(state.clone()));
        let mut gb = G::new_with_rng(m.edges.clone(), m.gamma, m.h, 2 * m.nvars, rb.clone(), Some(state.clone()));
        ga.set_run_rvb(true);
        gb.set_run_rvb(true);
        let hb = gen.chance(1, 3);
        if hb {
            ga.set_enable_heatbath(true);
            gb.set_enable_heatbath(true);
        }
        for t in 0..steps {
            let beta = if t % 2 == 0 { m.beta } else { *gen.pick(&[0.5, 1.0, 2.0]) };
            let _ = take_trace();
            let res_a = catch(std::panic::AssertUnwindSafe(|| {
                ga.timestep(beta);
            }));
            let tra = take_trace();
            let res_b1 = catch(std::panic::AssertUnwindSafe(|| gb.single_diagonal_step(beta)));
            // (a sampler whose step panicked has lost its manager: stop using it)
            let mid = if res_b1.is_ok() { Some(snap(&gb)) } else { None };
            let _ = take_trace();
            let res_b2 = if res_b1.is_ok() {
                catch(std::panic::AssertUnwindSafe(|| {
                    gb.single_rvb_sweep(None);
                }))
            } else {
                Ok(())
            };
            let trb = take_trace();
            let res_b3 = if res_b1.is_ok() && res_b2.is_ok() {
                catch(std::panic::AssertUnwindSafe(|| {
                    gb.single_cluster_step();
                }))
            } else {
                Ok(())
            };
            let mut fails: Vec<String> = vec![];
            for (what, r) in [("timestep", &res_a), ("single_diagonal_step", &res_b1), ("single_rvb_sweep", &res_b2), ("single_cluster_step", &res_b3)] {
                if let Err(msg) = r {
                    fails.push(format!("{} panicked: {}", what, msg));
                }
            }
            let dead = !fails.is_empty();
            if !dead {
                let (sa, sb) = (snap(&ga), snap(&gb));
                if sa != sb || ga.get_cutoff() != gb.get_cutoff() {
                    fails.push(format!("step {}: timestep (automatic RVB) differs from single_diagonal_step; single_rvb_sweep(None); single_cluster_step with the same draws", t));
                }
                for (who, gg) in [("timestep", &ga), ("the explicit decomposition", &gb)] {
                    match catch(std::panic::AssertUnwindSafe(|| integrity(gg, &m))) {
                        Ok(Ok(())) => {}
                        Ok(Err(e)) => fails.push(format!("after {}: {}", who, e)),
                        Err(msg) => fails.push(format!("navigating the string after {} panicked: {}", who, msg)),
                    }
                }
                if tra.len() != trb.len() {
                    fails.push(format!("{} RVB proposals inside timestep, {} in the explicit sweep", tra.len(), trb.len()));
                }
                for (i, (x, y)) in tra.iter().zip(trb.iter()).enumerate() {
                    if reg_of(x) != reg_of(y) {
                        fails.push(format!("proposal {}: region inside timestep {:?}, in the explicit sweep {:?}", i, reg_of(x), reg_of(y)));
                        break;
                    }
                    if x.p_to_flip.to_bits() != y.p_to_flip.to_bits() || x.accepted != y.accepted {
                        fails.push(format!(
                            "proposal {}: p_to_flip inside timestep = {:e} (accepted {}), in the explicit sweep on the same configuration, region and draws = {:e} (accepted {})",
                            i, x.p_to_flip, x.accepted, y.p_to_flip, y.accepted
                        ));
                        break;
                    }
                }
            }
            *stats.entry("pipeline_rvb_proposals_in_timestep".into()).or_insert(0) += tra.len() as u64;
            *stats.entry("pipeline_rvb_accepted_in_timestep".into()).or_insert(0) += tra.iter().filter(|t| t.accepted).count() as u64;
            let failed = !fails.is_empty();
            emit(
                tra.iter().any(|t| t.accepted),
                &format!("pipe {} {} {} {} {}", m.name, mi, t, rat(beta), hb as u8),
                "same",
                Some(if fails.is_empty() { Ok(()) } else { Err(fails.join("; ")) }),
            );
            // model value of p_to_flip for the proposals whose `before` configuration is known
            for x in tra.iter() {
                let mid = match &mid {
                    Some(m) => m,
                    None => break,
                };
                let reg = reg_of(x);
                let unequal = m.edges.iter().any(|e| e.1.abs() != m.edges[0].1.abs());
                emit(
                    x.p_to_flip != 1.0,
                    &format!(
                        "ptf {} {} {} {} {} {} {} {} {}",
                        m.nvars,
                        show_edges(&m),
                        rat(m.gamma),
                        rat(m.h),
                        bits(&mid.state),
                        mid.text,
                        list(&reg.subvars),
                        bits(&reg.start),
                        list(&reg.toggles)
                    ),
                    &format!("~{:e}", x.p_to_flip),
                    None,
                );
                *stats.entry(format!("pipeline_ptf_{}_{}", if unequal { "unequalJ" } else { "equalJ" }, if m.h != 0.0 { "h" } else { "h0" })).or_insert(0) += 1;
                if x.accepted {
                    break;
                }
            }
            if dead || failed {
                break;
            }
        }
    }
    for (k, v) in stats {
        stat(&k, v);
    }
}

/// F21 regression (fixed in /repo 523d878): an edge with J = 0 next to an idle variable. Before the
/// fix `build_cluster` pushed the neighbour with weight `bond_mag = 0`; the next `pop_index` computed
/// 0/0 = NaN and `gen_bool(NaN)` panicked. Scripted: start at the idle variable 0, cluster size 2.
fn j0_regression() {
    for (nvars, edges) in [(2usize, vec![((0usize, 1usize), 0.0f64)]), (3, vec![((0, 1), 0.0), ((0, 2), 0.0), ((1, 2), 1.0)])] {
        let rng = Shared(Rc::new(RefCell::new(RecRng::new(1))));
        let m = Model { name: "j0", nvars, edges, gamma: 1.0, h: 0.0, beta: 1.0 };
        let state: Vec<bool> = (0..nvars).map(|v| v % 2 == 1).collect();
        let mut g = G::new_with_rng(m.edges.clone(), m.gamma, m.h, 4, rng.clone(), Some(state));
        let before = snap(&g);
        // start choice 0 (idle variable 0), size word 1 (one trailing one => cluster size 2), then free draws
        rng.script(&[0, 1]);
        let _ = take_trace();
        let res = catch(std::panic::AssertUnwindSafe(|| g.single_rvb_sweep(Some(1))));
        let log = rng.log();
        rng.free();
        let tr = take_trace();
        let input = format!("region {} {} {} {}", m.nvars, show_edges(&m), before.text, list(&log));
        match (res, tr.get(0)) {
            (Ok(_), Some(t)) => {
                let reg = reg_of(t);
                let tail = (t.p_to_flip < 1.0) as usize;
                let ok = reg.subvars == vec![0] && reg.start == vec![true];
                emit(
                    true,
                    &input,
                    &format!("{} {} {} {} ok rok=1", list(&reg.subvars), bits(&reg.start), list(&reg.toggles), log.len() - tail),
                    Some(if ok { Ok(()) } else { Err(format!("F21: the cluster grew across a J = 0 edge: {:?}", reg)) }),
                );
            }
            (Err(msg), _) => emit(true, &input, &format!("- - - {} PANIC", log.len()), Some(Err(format!("F21: single_rvb_sweep panicked on a graph with a J = 0 edge: {}", msg)))),
            _ => emit(true, &input, "- - - 0 PANIC", Some(Err("no trace".into()))),
        }
    }
}

fn main() {
    let a = args();
    quiet_panics();
    match a.mode.as_str() {
        "helpers" => helpers_mode(&a),
        "rvb" => rvb_mode(&a),
        "pipeline" => pipeline_mode(&a),
        _ => {
            helpers_mode(&a);
            rvb_mode(&a);
            pipeline_mode(&a);
        }
    }
}

