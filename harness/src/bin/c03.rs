//! C03 — RVB update. Two modes:
//!   helpers : direct differential tests of the pure helpers (`remove_doubles`,
//!             `find_overlapping_starts`, `calculate_mult`, `contiguous_bits`) through the
//!             `verif_hooks` wrappers and of the public `BondContainer`.
//!   rvb     : Ising samplers, one proposed RVB update at a time (see `rvb_mode`).
//! The oracle column evaluates the property directly on the real code (no model involved).

use qmc::sse::qmc_traits::rvb::verif_hooks::*;
use qmc::sse::qmc_traits::rvb::contiguous_bits;
use qmc::sse::*;
use qmc::util::bondcontainer::BondContainer;
use rand::RngCore;
use std::cell::RefCell;
use std::rc::Rc;
use vh::*;

thread_local! {
    /// number of `get_random` calls made with a draw of exactly 0.0 (the former F12 edge)
    static ZERO_DRAWS: std::cell::Cell<u64> = std::cell::Cell::new(0);
}

// ---------------------------------------------------------------------------------------------
// helpers mode
// ---------------------------------------------------------------------------------------------

fn case_rd(v: Vec<usize>) {
    let out = verif_remove_doubles(v.clone());
    // oracle (sorted inputs only): every value of odd multiplicity exactly once, ascending
    let sorted = v.windows(2).all(|w| w[0] <= w[1]);
    let oracle = if sorted {
        let mut exp = vec![];
        let mut i = 0;
        while i < v.len() {
            let mut j = i;
            while j < v.len() && v[j] == v[i] {
                j += 1;
            }
            if (j - i) % 2 == 1 {
                exp.push(v[i]);
            }
            i = j;
        }
        Some(if exp == out { Ok(()) } else { Err(format!("remove_doubles({:?}) = {:?}, odd-multiplicity elements are {:?}", v, out, exp)) })
    } else {
        None
    };
    emit(v.windows(2).any(|w| w[0] == w[1]), &format!("rd {}", list(&v)), &list(&out), oracle);
}

fn case_fos(ps: usize, pe: usize, cutoff: usize, fp: &[usize]) {
    let fpv = fp.to_vec();
    let r = catch(move || verif_find_overlapping_starts(ps, pe, cutoff, &fpv));
    let (out, oracle) = match &r {
        Ok(v) => {
            let inrange = v.iter().all(|i| *i < fp.len());
            let mut d = v.clone();
            d.sort_unstable();
            d.dedup();
            let distinct = d.len() == v.len();
            // when p_start is not a flip position the interval containing p_start is returned first
            let ok = inrange && distinct;
            (list(v), if ok { Ok(()) } else { Err(format!("indices out of range or repeated: {:?}", v)) })
        }
        Err(_) => ("P".to_string(), if fp.contains(&ps) || fp.is_empty() { Ok(()) } else { Err("unexpected panic".into()) }),
    };
    emit(fp.len() >= 2 && r.is_ok(), &format!("fos {} {} {} {}", ps, pe, cutoff, list(fp)), &out, Some(oracle));
}

fn case_cm(before: &[f64], after: &[f64], n: usize) {
    let b: Vec<(usize, f64)> = before.iter().cloned().enumerate().collect();
    let a: Vec<(usize, f64)> = after.iter().cloned().enumerate().collect();
    let m = verif_calculate_mult(&b, &a, n);
    let wb: f64 = before.iter().sum();
    let wa: f64 = after.iter().sum();
    // oracle: the value is (W_after/W_before)^n (n = 0 -> 1)
    let exp = (wa / wb).powf(n as f64);
    let exp = if n == 0 || wa == wb { 1.0 } else { exp };
    let ok = (m - exp).abs() <= 1e-9 * exp.abs().max(1.0);
    emit(
        n > 0 && wa != wb,
        &format!("cm {} {} {}", rats(before), rats(after), n),
        &format!("~{:e}", m),
        Some(if ok { Ok(()) } else { Err(format!("calculate_mult = {} but (Wa/Wb)^n = {}", m, exp)) }),
    );
}

fn case_cb(word: u64) {
    let mut r = RecRng::scripted(vec![word], 0);
    let n = contiguous_bits(&mut r);
    let mut exp = 0;
    while exp < 64 && (word >> exp) & 1 == 1 {
        exp += 1;
    }
    emit(n > 0, &format!("cb {}", word), &format!("{} {}", n, r.log.len()), Some(if n == exp { Ok(()) } else { Err(format!("contiguous_bits({:#x}) = {}", word, n)) }));
}

#[derive(Clone, Debug)]
enum BcOp {
    Ins(usize, f64),
    Rem(usize),
    Clear,
    Get(u64),
    Weight(usize),
    Has(usize),
}

fn case_bc(ops: &[BcOp]) {
    let mut c = BondContainer::<usize>::default();
    let mut intoks = vec![];
    let mut outtoks = vec![];
    // shadow for the oracle: plain association list in insertion/swap-remove-independent form
    let mut shadow: Vec<(usize, f64)> = vec![];
    let mut oracle: Result<(), String> = Ok(());
    let mut dead = false;
    for op in ops {
        if dead {
            break;
        }
        match op {
            BcOp::Ins(k, w) => {
                intoks.push(format!("i{}:{}", k, rat(*w)));
                let new = c.insert(*k, *w);
                outtoks.push(format!("{}", new as u8));
                let had = shadow.iter().position(|(kk, _)| kk == k);
                if had.is_some() == new {
                    oracle = Err(format!("insert({}) reported new={} but presence was {}", k, new, had.is_some()));
                }
                match had {
                    Some(i) => shadow[i].1 = *w,
                    None => shadow.push((*k, *w)),
                }
            }
            BcOp::Rem(k) => {
                intoks.push(format!("r{}", k));
                let kk = *k;
                let r = catch(std::panic::AssertUnwindSafe(|| c.remove(&kk)));
                match r {
                    Ok(b) => {
                        outtoks.push(format!("{}", b as u8));
                        let had = shadow.iter().position(|(x, _)| *x == kk);
                        if had.is_some() != b {
                            oracle = Err(format!("remove({}) = {} but presence was {}", kk, b, had.is_some()));
                        }
                        if let Some(i) = had {
                            shadow.remove(i);
                        }
                    }
                    Err(_) => {
                        outtoks.push("P".into());
                        dead = true;
                        if shadow.iter().any(|(x, _)| *x == kk) {
                            oracle = Err(format!("remove({}) panicked on a present key", kk));
                        }
                    }
                }
            }
            BcOp::Clear => {
                intoks.push("c".into());
                c.clear();
                outtoks.push("c".into());
                shadow.clear();
            }
            BcOp::Weight(k) => {
                intoks.push(format!("w{}", k));
                let w = c.get_weight(k);
                outtoks.push(w.map(rat).unwrap_or("N".into()));
                let exp = shadow.iter().find(|(x, _)| x == k).map(|x| x.1);
                if exp != w {
                    oracle = Err(format!("get_weight({}) = {:?}, inserted {:?}", k, w, exp));
                }
            }
            BcOp::Has(k) => {
                intoks.push(format!("h{}", k));
                let b = c.contains(k);
                outtoks.push(format!("{}", b as u8));
                if b != shadow.iter().any(|(x, _)| x == k) {
                    oracle = Err(format!("contains({}) = {}", k, b));
                }
            }
            BcOp::Get(word) => {
                intoks.push(format!("g{}", word));
                let mut r = RecRng::scripted(vec![*word], 0);
                let res = catch(std::panic::AssertUnwindSafe(|| c.get_random(&mut r).cloned()));
                match res {
                    Ok(Some((k, w))) => {
                        outtoks.push(format!("{}:{}", k, rat(w)));
                        // property: a selected key has positive weight (it is about to become a stored operator)
                        if w <= 0.0 {
                            // (F12 before /repo commit b694648: a draw of exactly 0.0 selected a zero-weight first key)
                            oracle = Err(format!("get_random with word {} (draw {}) selected key {} of weight {}", word, if (*word >> 12) == 0 { "0.0" } else { "> 0" }, k, w));
                        }
                        if (*word >> 12) == 0 {
                            ZERO_DRAWS.with(|c| c.set(c.get() + 1));
                        }
                    }
                    Ok(None) => {
                        outtoks.push("N".into());
                        if !shadow.is_empty() {
                            oracle = Err("get_random = None on a non-empty container".into());
                        }
                    }
                    Err(_) => outtoks.push("P".into()),
                }
                outtoks.push(format!("d{}", r.log.len()));
            }
        }
        // running total against the shadow after every operation (exact on dyadic inputs)
        let tot: f64 = shadow.iter().map(|x| x.1).sum();
        if !dead && c.get_total_weight() != tot && oracle.is_ok() {
            oracle = Err(format!("total_weight {} but the weights sum to {}", c.get_total_weight(), tot));
        }
        if !dead && c.len() != shadow.len() && oracle.is_ok() {
            oracle = Err(format!("len {} but {} keys present", c.len(), shadow.len()));
        }
    }
    let keys: Vec<String> = c.iter().map(|(k, w)| format!("{}:{}", k, rat(*w))).collect();
    let keys = if keys.is_empty() { "-".to_string() } else { keys.join(",") };
    outtoks.push(keys);
    outtoks.push(rat(c.get_total_weight()));
    emit(ops.len() >= 3, &format!("bc {}", intoks.join(",")), &outtoks.join(" "), Some(oracle));
}

fn helpers_mode(a: &Args) {
    let mut g = SplitMix64::new(a.seed ^ 0xC03);
    let scale = if a.thorough { 8 } else { 1 };

    // --- remove_doubles: all sorted lists over {0,1,2} up to length 6, random sorted and unsorted ones
    fn rec(cur: &mut Vec<usize>, maxlen: usize, f: &mut dyn FnMut(&Vec<usize>)) {
        f(cur);
        if cur.len() == maxlen {
            return;
        }
        let lo = cur.last().cloned().unwrap_or(0);
        for x in lo..3 {
            cur.push(x);
            rec(cur, maxlen, f);
            cur.pop();
        }
    }
    let mut all = vec![];
    rec(&mut vec![], 6, &mut |v| all.push(v.clone()));
    for v in all {
        case_rd(v);
    }
    for _ in 0..300 * scale {
        let n = g.below(14) as usize;
        let mut v: Vec<usize> = (0..n).map(|_| g.below(7) as usize).collect();
        if g.chance(3, 4) {
            v.sort_unstable();
        }
        case_rd(v);
    }

    // --- find_overlapping_starts: exhaustive for cutoff <= 5 (all non-empty position sets, all
    // p_start, p_end), random for larger cutoffs
    for cutoff in 1..=5usize {
        for mask in 1u32..(1 << cutoff) {
            let fp: Vec<usize> = (0..cutoff).filter(|i| (mask >> i) & 1 == 1).collect();
            for ps in 0..cutoff {
                for pe in 0..cutoff {
                    case_fos(ps, pe, cutoff, &fp);
                }
            }
        }
    }
    for _ in 0..400 * scale {
        let cutoff = g.range(6, 40) as usize;
        let mut fp: Vec<usize> = (0..cutoff).filter(|_| g.chance(1, 3)).collect();
        if fp.is_empty() {
            fp.push(g.below(cutoff as u64) as usize);
        }
        let ps = g.below(cutoff as u64) as usize;
        let pe = g.below(cutoff as u64) as usize;
        case_fos(ps, pe, cutoff, &fp);
    }
    case_fos(0, 0, 4, &[]);

    // --- calculate_mult: dyadic weights, before-total > 0 whenever it is used as a divisor
    for _ in 0..400 * scale {
        let nb = g.range(1, 4) as usize;
        let before: Vec<f64> = (0..nb).map(|_| g.range(0, 16) as f64 / 8.0).collect();
        let mut after: Vec<f64> = (0..nb).map(|_| g.range(0, 16) as f64 / 8.0).collect();
        if g.chance(1, 5) {
            after = before.iter().rev().cloned().collect();
        }
        let n = g.below(6) as usize;
        let wb: f64 = before.iter().sum();
        let wa: f64 = after.iter().sum();
        if wb == 0.0 && n > 0 && wa != 0.0 {
            continue; // division by zero: outside the domain (a counted operator has positive weight)
        }
        case_cm(&before, &after, n);
    }
    case_cm(&[], &[], 0);
    case_cm(&[2.0, 0.0], &[0.0, 2.0], 3);
    case_cm(&[2.0, 0.0], &[0.0, 0.0], 2);

    // --- contiguous_bits
    for k in 0..=64u32 {
        let low = if k == 64 { u64::MAX } else { (1u64 << k) - 1 };
        let hi = if k >= 63 { 0 } else { (g.next() >> (k + 1)) << (k + 1) };
        case_cb(low | hi);
    }
    for _ in 0..100 * scale {
        case_cb(g.next());
    }

    // --- BondContainer
    // the former F12 witness on the public type: first key has weight 0, scripted word 0
    case_bc(&[BcOp::Ins(3, 0.0), BcOp::Ins(1, 2.0), BcOp::Get(0), BcOp::Get(4095), BcOp::Get(4096), BcOp::Get(u64::MAX)]);
    for _ in 0..400 * scale {
        let n = g.range(1, 14) as usize;
        let mut ops = vec![];
        for _ in 0..n {
            let k = g.below(7) as usize;
            let w = g.range(0, 16) as f64 / 8.0;
            ops.push(match g.below(12) {
                0..=4 => BcOp::Ins(k, if g.chance(1, 5) { 0.0 } else { w }),
                5..=6 => BcOp::Rem(k),
                7 => {
                    if g.chance(1, 4) {
                        BcOp::Clear
                    } else {
                        BcOp::Has(k)
                    }
                }
                8 => BcOp::Weight(k),
                _ => BcOp::Get(match g.below(5) {
                    0 => 0,
                    1 => g.below(1 << 13),
                    2 => u64::MAX - g.below(1 << 13),
                    _ => g.next(),
                }),
            });
        }
        case_bc(&ops);
    }
    stat("bc_get_random_zero_draws", ZERO_DRAWS.with(|c| c.get()));
}

fn main() {
    let a = args();
    quiet_panics();
    match a.mode.as_str() {
        "helpers" => helpers_mode(&a),
        _ => {
            helpers_mode(&a);
        }
    }
}

// keep the imports used while the rvb mode is being written
#[allow(dead_code)]
fn _unused(_: Rc<RefCell<RecRng>>, r: &mut dyn RngCore) -> u64 {
    let _ = take_trace();
    r.next_u64()
}
