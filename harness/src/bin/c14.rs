//! C14 — a sampler restored from a snapshot continues exactly as if never interrupted.
//!
//! Rust-vs-Rust lock-step on the real code (this *is* the property, so the oracle column carries the
//! verdict; the Lean driver answers the expected verdict `same` and, for the `keys` cases, the JSON
//! keys the regenerated field model says serde must write):
//!
//!  * `keys <Struct> <sorted json keys>`: keys of the real `serde_json` output of every struct on the
//!    snapshot path vs `Qmc.Gen.serdeKeys` (regenerated from the source).
//!  * `ising …`: at EVERY step index k of a run, snapshot in both forms
//!      (a) with RNG:   serde_json(QmcIsingGraph<SplitMix64>) -> text -> back
//!      (b) RNG-less:   From -> (SerializeQmcGraph, rng); serde_json(SerializeQmcGraph) -> text -> back;
//!                      into_qmc(same rng)
//!    then run original, (a), (b) and (c) = "snapshot/restore after every single step" in lock-step for m
//!    further steps comparing state, operator string, n, cutoff, returned energy (bits), rvb success rate
//!    (bits), the complete JSON snapshot (all private counters, RNG state, pool counts) and `verify()`.
//!  * `generic …`: the same for `Qmc` (form (a) only; it has no RNG-less form).
//!  * `temper …`: tempering container, snapshot right after a tempering step, forms (a) and
//!    (b) = (SerializeTemperingContainer, rng, rngs) -> JSON -> into_tempering_container_from_vec.
//!
//! All parameters are small dyadic rationals; serde_json's `float_roundtrip` is enabled in Cargo.toml, so a
//! bit-level difference after restore can only come from `qmc`.

use qmc::sse::fast_ops::FastOps;
use qmc::sse::qmc_ising::serialization::SerializeQmcGraph;
use qmc::sse::*;
use serde_json::Value;
use vh::*;

type G = QmcIsingGraph<SplitMix64, FastOps>;
type SG = SerializeQmcGraph<FastOps>;
type Q = DefaultQmc<SplitMix64>;
type TC = DefaultTemperingContainer<SplitMix64, SplitMix64>;
type STC = SerializeTemperingContainer<FastOps>;

#[derive(Clone, Debug)]
struct Cfg {
    edges: Vec<((usize, usize), f64)>,
    transverse: f64,
    longitudinal: f64,
    beta: f64,
    cutoff: usize,
    rvb: bool,
    heatbath: bool,
    seed: u64,
    /// explicit initial spin state (None = drawn from the sampler's RNG)
    init_state: Option<Vec<bool>>,
}

impl Cfg {
    fn show(&self) -> String {
        let e: Vec<String> = self
            .edges
            .iter()
            .map(|((a, b), j)| format!("{}-{}:{}", a, b, rat(*j)))
            .collect();
        format!(
            "edges={} G={} h={} beta={} cutoff={} rvb={} hb={} seed={}",
            e.join(","),
            rat(self.transverse),
            rat(self.longitudinal),
            rat(self.beta),
            self.cutoff,
            self.rvb as u8,
            self.heatbath as u8,
            self.seed
        )
    }
    fn build(&self) -> G {
        let mut g = G::new_with_rng(
            self.edges.clone(),
            self.transverse,
            self.longitudinal,
            self.cutoff,
            SplitMix64::new(self.seed),
            self.init_state.clone(),
        );
        if self.rvb {
            g.set_run_rvb(true);
        }
        if self.heatbath {
            g.set_enable_heatbath(true);
        }
        g
    }
}

fn graph_shape(kind: u64, n: usize) -> Vec<(usize, usize)> {
    match kind % 4 {
        0 => (0..n - 1).map(|i| (i, i + 1)).collect(), // chain
        1 => {
            if n < 3 {
                vec![(0, 1)]
            } else {
                (0..n).map(|i| (i, (i + 1) % n)).collect() // ring
            }
        }
        2 => {
            // star + one extra edge (frustrated when signs are mixed)
            let mut e: Vec<(usize, usize)> = (1..n).map(|i| (0, i)).collect();
            if n >= 3 {
                e.push((1, 2));
            }
            e
        }
        _ => {
            // complete graph on min(n,4) + chain for the rest
            let m = n.min(4);
            let mut e = vec![];
            for a in 0..m {
                for b in a + 1..m {
                    e.push((a, b));
                }
            }
            for i in m..n {
                e.push((i - 1, i));
            }
            e
        }
    }
}

fn gen_cfg(gen: &mut SplitMix64, i: usize, thorough: bool) -> Cfg {
    let nmax = if thorough { 8 } else { 6 };
    let n = 2 + gen.below(nmax - 1) as usize;
    let shape = graph_shape(gen.next(), n);
    // one configuration in three uses couplings that are NOT dyadic (0.3, 0.7, 1.1): sums of such weights are inexact, so
    // running totals (BondContainer.total_weight, heat-bath tables) carry rounding residues — state a snapshot must either
    // carry or never need.  Fine for this oracle (implementation vs implementation); never used in a model comparison.
    let nd = i >= 8 && i % 3 == 2;
    let js: [f64; 8] = if nd { [-1.1, -0.7, -0.3, 0.3, 0.3, 0.7, 0.7, 1.1] } else { [-2.0, -1.5, -1.0, -0.5, 0.5, 1.0, 1.5, 2.0] };
    let uniform_j = gen.coin();
    let j0 = *gen.pick(&js);
    let edges = shape
        .into_iter()
        .map(|e| (e, if uniform_j { j0 } else { *gen.pick(&js) }))
        .collect();
    // the first 8 configurations enumerate the option combinations (rvb, heatbath, h != 0)
    let (rvb, heatbath, field) = if i < 8 {
        (i & 1 == 1, i & 2 == 2, i & 4 == 4)
    } else {
        (gen.coin(), gen.coin(), gen.coin())
    };
    let rvb = rvb || nd;
    let hs = [-1.0, -0.5, -0.25, 0.25, 0.5, 1.0];
    Cfg {
        edges,
        transverse: if nd { *gen.pick(&[0.3, 1.0, 0.7]) } else { *gen.pick(&[0.25, 0.5, 1.0, 1.5]) },
        longitudinal: if field { *gen.pick(&hs) } else { 0.0 },
        beta: *gen.pick(&[0.5, 1.0, 2.0, 4.0]),
        cutoff: *gen.pick(&[1usize, 2, 3, n, 4 * n]),
        rvb,
        heatbath,
        seed: gen.next(),
        init_state: None,
    }
}

// ------------------------------------------------------------------------------------------------
// observation of one sampler
// ------------------------------------------------------------------------------------------------
#[derive(PartialEq, Debug, Clone)]
struct Obs {
    state: String,
    slots: String,
    n: usize,
    cutoff: usize,
    energy_bits: u64,
    rvb_bits: u64,
    verify: bool,
    json: String,
}

fn diff(a: &Obs, b: &Obs) -> Option<String> {
    if a.state != b.state {
        return Some(format!("state {} vs {}", a.state, b.state));
    }
    if a.slots != b.slots {
        return Some(format!("opstring {} vs {}", a.slots, b.slots));
    }
    if a.n != b.n {
        return Some(format!("n {} vs {}", a.n, b.n));
    }
    if a.cutoff != b.cutoff {
        return Some(format!("cutoff {} vs {}", a.cutoff, b.cutoff));
    }
    if a.energy_bits != b.energy_bits {
        return Some(format!(
            "energy {} vs {}",
            f64::from_bits(a.energy_bits),
            f64::from_bits(b.energy_bits)
        ));
    }
    if a.rvb_bits != b.rvb_bits {
        return Some(format!(
            "rvb_success_rate {} vs {}",
            f64::from_bits(a.rvb_bits),
            f64::from_bits(b.rvb_bits)
        ));
    }
    if !a.verify || !b.verify {
        return Some(format!("verify {} / {}", a.verify, b.verify));
    }
    if a.json != b.json {
        return Some(format!("json snapshots differ: {}", json_diff(&a.json, &b.json)));
    }
    None
}

/// first differing path of two JSON texts (for the failure message)
fn json_diff(a: &str, b: &str) -> String {
    fn walk(path: &str, a: &Value, b: &Value) -> Option<String> {
        match (a, b) {
            (Value::Object(x), Value::Object(y)) => {
                for (k, v) in x {
                    match y.get(k) {
                        None => return Some(format!("{}.{} missing on the right", path, k)),
                        Some(w) => {
                            if let Some(d) = walk(&format!("{}.{}", path, k), v, w) {
                                return Some(d);
                            }
                        }
                    }
                }
                for k in y.keys() {
                    if !x.contains_key(k) {
                        return Some(format!("{}.{} missing on the left", path, k));
                    }
                }
                None
            }
            (Value::Array(x), Value::Array(y)) => {
                if x.len() != y.len() {
                    return Some(format!("{} length {} vs {}", path, x.len(), y.len()));
                }
                for (i, (v, w)) in x.iter().zip(y.iter()).enumerate() {
                    if let Some(d) = walk(&format!("{}[{}]", path, i), v, w) {
                        return Some(d);
                    }
                }
                None
            }
            _ => {
                if a == b {
                    None
                } else {
                    Some(format!("{}: {} vs {}", path, a, b))
                }
            }
        }
    }
    let va: Value = serde_json::from_str(a).unwrap();
    let vb: Value = serde_json::from_str(b).unwrap();
    walk("$", &va, &vb).unwrap_or_else(|| "texts differ, values equal".into())
}

fn obs_ising(g: &G, energy: f64) -> Obs {
    Obs {
        state: bits(g.state_ref()),
        slots: show_slots(g.get_manager_ref()),
        n: g.get_n(),
        cutoff: g.get_cutoff(),
        energy_bits: energy.to_bits(),
        rvb_bits: g.rvb_success_rate().to_bits(),
        verify: g.verify(),
        json: serde_json::to_string(g).unwrap(),
    }
}

/// form (a): with RNG
fn rt_with_rng(g: &G) -> Result<G, String> {
    let text = serde_json::to_string(g).map_err(|e| e.to_string())?;
    serde_json::from_str::<G>(&text).map_err(|e| e.to_string())
}

/// form (b): RNG-less form + the same RNG re-attached (consumes the sampler, like the API)
fn rt_rngless(g: G) -> Result<G, String> {
    let (sg, rng): (SG, SplitMix64) = g.into();
    let text = serde_json::to_string(&sg).map_err(|e| e.to_string())?;
    let sg2: SG = serde_json::from_str(&text).map_err(|e| e.to_string())?;
    Ok(sg2.into_qmc(rng))
}


// ------------------------------------------------------------------------------------------------
// hidden state outside the snapshot: the pooled scratch instances.  A snapshot stores only the pool SIZES, a restored
// sampler gets fresh `Default` instances — so every instance handed back to a pool must be observably `Default`
// (allocator hook, `--cfg qmc_verif`: the `clean` flag of a return event is `verif_is_clean()` after `reset()`;
// BondContainer: no keys, total_weight == 0 exactly, nothing mapped).
// ------------------------------------------------------------------------------------------------
fn pool_reset_log() {
    let _ = qmc::util::allocator::verif_log::take();
}

/// Err if any instance was returned dirty since the last call (also keeps the thread-local log short).
fn pool_check(when: &str) -> Result<(), String> {
    let log = qmc::util::allocator::verif_log::take();
    let returns = log.iter().filter(|e| e.1 == -1).count();
    POOL_RETURNS.with(|c| c.set(c.get() + returns as u64));
    match log.iter().find(|e| e.1 == -1 && !e.2) {
        None => Ok(()),
        Some((ty, _, _, left)) => Err(format!(
            "{}: a pooled scratch instance of type {} was handed back NOT in its reset state (pool then held {}); the snapshot stores only the pool size, so this state is lost by a restore",
            when, ty, left
        )),
    }
}

thread_local! {
    static POOL_RETURNS: std::cell::Cell<u64> = std::cell::Cell::new(0);
}

fn run_steps(g: &mut G, k: usize, beta: f64) {
    for _ in 0..k {
        g.timesteps(1, beta);
    }
}

struct Summary {
    nontrivial: bool,
    grew: bool,
    rvb_succ: bool,
}

/// the property at snapshot point k (original rebuilt from its seed for every copy: no use of `Clone`)
fn lockstep_ising(cfg: &Cfg, k: usize, m: usize) -> Result<Summary, String> {
    lockstep_ising_with(cfg, &|| cfg.build(), k, m)
}

/// the same for a sampler produced by `build` (e.g. started from a prepared operator string)
fn lockstep_ising_with(cfg: &Cfg, build: &dyn Fn() -> G, k: usize, m: usize) -> Result<Summary, String> {
    let fresh = |k: usize| {
        let mut g = build();
        run_steps(&mut g, k, cfg.beta);
        g
    };
    pool_reset_log();
    let mut orig = fresh(k);
    pool_check(&format!("steps 1..{}", k))?;
    let at_k = obs_ising(&orig, 0.0);
    let mut a = rt_with_rng(&orig).map_err(|e| format!("form a: {}", e))?;
    let mut b = rt_rngless(fresh(k)).map_err(|e| format!("form b: {}", e))?;
    let mut c = fresh(k);
    for (name, x) in [("a", &a), ("b", &b)] {
        if let Some(d) = diff(&at_k, &obs_ising(x, 0.0)) {
            return Err(format!("right after restore ({}) at k={}: {}", name, k, d));
        }
    }
    let mut grew = false;
    for s in 1..=m {
        let eo = orig.timesteps(1, cfg.beta);
        let ea = a.timesteps(1, cfg.beta);
        let eb = b.timesteps(1, cfg.beta);
        let ec = c.timesteps(1, cfg.beta);
        pool_check(&format!("step k+{} (k={})", s, k))?;
        let oo = obs_ising(&orig, eo);
        grew |= oo.cutoff != at_k.cutoff;
        for (name, x, e) in [("a", &a, ea), ("b", &b, eb), ("c", &c, ec)] {
            if let Some(d) = diff(&oo, &obs_ising(x, e)) {
                return Err(format!("form {} snapshot k={} step k+{}: {}", name, k, s, d));
            }
        }
        // (c): repeated cycles, alternating the two forms after every step
        c = if s % 2 == 0 {
            rt_with_rng(&c).map_err(|e| format!("cycle a: {}", e))?
        } else {
            rt_rngless(c).map_err(|e| format!("cycle b: {}", e))?
        };
    }
    let v: Value = serde_json::from_str(&at_k.json).unwrap();
    Ok(Summary {
        nontrivial: at_k.n > 0,
        grew,
        rvb_succ: v["total_rvb_successes"].as_u64().unwrap_or(0) > 0,
    })
}


// ------------------------------------------------------------------------------------------------
// non-dyadic couplings + RVB on small frustrated graphs, SmallRng (the RNG of the two regression inputs), RNG-less form
// ------------------------------------------------------------------------------------------------
type GS = QmcIsingGraph<rand::rngs::SmallRng, FastOps>;

fn nd_edges(kind: usize) -> Vec<((usize, usize), f64)> {
    match kind {
        0 => vec![((0, 1), 0.3), ((1, 2), 0.3), ((2, 0), 0.3), ((2, 3), 0.3), ((3, 0), 0.3)],
        1 => vec![((0, 1), 0.3), ((1, 2), 0.7), ((2, 0), 1.1), ((2, 3), 0.3), ((3, 0), 0.7), ((1, 3), 1.1)],
        2 => vec![((0, 1), 0.7), ((1, 2), -0.3), ((2, 0), 1.1), ((2, 3), 0.7), ((3, 4), 0.3), ((4, 0), 1.1), ((1, 3), 0.3)],
        _ => vec![((0, 1), 1.1), ((1, 2), 1.1), ((2, 0), 1.1)],
    }
}

fn nd_make(kind: usize, seed: u64, transverse: f64) -> GS {
    use rand::SeedableRng;
    let mut g = GS::new_with_rng(nd_edges(kind), transverse, 0.0, 4, rand::rngs::SmallRng::seed_from_u64(seed), None);
    g.set_run_rvb(true);
    g
}

fn nd_fingerprint(g: &GS) -> String {
    format!(
        "{} {} n={} c={} rvb={} ok={}",
        bits(g.state_ref()),
        show_slots(g.get_manager_ref()),
        g.get_n(),
        g.get_cutoff(),
        g.rvb_success_rate().to_bits(),
        g.verify()
    )
}

fn nd_restore(g: GS) -> Result<GS, String> {
    let (sg, rng): (SG, rand::rngs::SmallRng) = g.into();
    let text = serde_json::to_string(&sg).map_err(|e| e.to_string())?;
    let sg2: SG = serde_json::from_str(&text).map_err(|e| e.to_string())?;
    if serde_json::to_string(&sg2).map_err(|e| e.to_string())? != text {
        return Err("RNG-less snapshot does not re-serialise to the same JSON".into());
    }
    Ok(sg2.into_qmc(rng))
}

/// snapshot after step k (RNG-less form, same RNG re-attached), then m further steps in lock-step with the
/// uninterrupted run; pooled instances must be in their reset state after every step
fn lockstep_nd(kind: usize, transverse: f64, beta: f64, seed: u64, k: usize, m: usize) -> Result<bool, String> {
    pool_reset_log();
    let mut orig = nd_make(kind, seed, transverse);
    let mut b = nd_make(kind, seed, transverse);
    // a dirty pool is remembered and the run goes on, so that the message can also say whether (and where) the
    // restored trajectory actually leaves the uninterrupted one
    let mut dirty: Option<String> = None;
    for i in 0..k {
        orig.timestep(beta);
        b.timestep(beta);
        if let Err(e) = pool_check(&format!("step {}", i + 1)) {
            dirty.get_or_insert(e);
        }
    }
    let mut b = nd_restore(b)?;
    let mut diverged: Option<String> = None;
    if nd_fingerprint(&orig) != nd_fingerprint(&b) {
        diverged = Some(format!("right after restore at k={}: {} vs {}", k, nd_fingerprint(&orig), nd_fingerprint(&b)));
    }
    for s in 1..=m {
        if diverged.is_some() {
            break;
        }
        orig.timestep(beta);
        b.timestep(beta);
        if let Err(e) = pool_check(&format!("step k+{} (k={})", s, k)) {
            dirty.get_or_insert(e);
        }
        let (fo, fb) = (nd_fingerprint(&orig), nd_fingerprint(&b));
        if fo != fb {
            diverged = Some(format!("snapshot k={} step k+{}: restored run leaves the uninterrupted one: {} vs {}", k, s, fo, fb));
        }
    }
    match (diverged, dirty) {
        (None, None) => Ok(orig.get_n() > 0),
        (Some(d), None) => Err(d),
        (None, Some(p)) => Err(format!("{} [trajectories still equal for {} steps after the snapshot at k={}]", p, m, k)),
        (Some(d), Some(p)) => Err(format!("{} || cause: {}", d, p)),
    }
}


// ------------------------------------------------------------------------------------------------
// scale / regime cases: 33..130 spins with up spins at word boundaries, a hub with 300 leaves, a complete graph
// ------------------------------------------------------------------------------------------------
fn state_pattern(n: usize, which: usize, gen: &mut SplitMix64) -> (String, Vec<bool>) {
    match which {
        0 => ("up31,32,63,64".into(), (0..n).map(|i| [31usize, 32, 63, 64].contains(&i)).collect()),
        1 => ("allup".into(), vec![true; n]),
        2 => ("up-last".into(), (0..n).map(|i| i + 1 == n || i == 31 || i % 64 == 63).collect()),
        _ => ("random".into(), (0..n).map(|_| gen.coin()).collect()),
    }
}

fn big_cfg(kind: &str, n: usize, which: usize, gen: &mut SplitMix64) -> (String, Cfg) {
    let edges: Vec<((usize, usize), f64)> = match kind {
        "hub" => (1..n).map(|i| ((0, i), if i % 2 == 0 { 1.0 } else { -1.0 })).collect(),
        "complete" => {
            let mut e = vec![];
            for a in 0..n {
                for b in a + 1..n {
                    e.push(((a, b), if (a + b) % 3 == 0 { -0.5 } else { 0.5 }));
                }
            }
            e
        }
        _ => (0..n).map(|i| ((i, (i + 1) % n), if i % 5 == 0 { -1.0 } else { 1.0 })).collect(), // ring
    };
    let (pname, st) = state_pattern(n, which, gen);
    let cfg = Cfg {
        edges,
        transverse: 0.5,
        longitudinal: 0.0,
        beta: 0.5,
        cutoff: 4,
        rvb: kind != "ring" || which % 2 == 0,
        heatbath: kind == "ring" && which == 1,
        seed: gen.next(),
        init_state: Some(st),
    };
    (format!("{} n={} state={}", kind, n, pname), cfg)
}

// ------------------------------------------------------------------------------------------------
// generic sampler
// ------------------------------------------------------------------------------------------------
fn build_generic(cfg: &Cfg, loops: bool) -> Q {
    let nvars = cfg.edges.iter().map(|((a, b), _)| *a.max(b)).max().unwrap() + 1;
    let mut q = Q::new(nvars, SplitMix64::new(cfg.seed), loops);
    for ((a, b), j) in &cfg.edges {
        q.make_diagonal_interaction_and_offset(vec![-j, *j, *j, -j], vec![*a, *b]).unwrap();
    }
    for v in 0..nvars {
        let t = cfg.transverse;
        q.make_interaction(vec![t, t, t, t], vec![v]).unwrap();
    }
    if cfg.longitudinal != 0.0 {
        for v in 0..nvars {
            let h = cfg.longitudinal;
            q.make_interaction_and_offset(vec![-h, 0.0, 0.0, h], vec![v]).unwrap();
        }
    }
    q.set_do_heatbath(cfg.heatbath);
    q
}

fn obs_generic(q: &Q, energy: f64) -> Obs {
    Obs {
        state: bits(q.state_ref()),
        slots: show_slots(q.get_manager_ref()),
        n: q.get_n(),
        cutoff: q.get_cutoff(),
        energy_bits: energy.to_bits(),
        rvb_bits: 0,
        // `Qmc` has no `Verify` impl: independent propagate-and-check with periodic closure
        verify: propagate_check(q.get_manager_ref(), q.state_ref()).map(|f| f == q.state_ref()).unwrap_or(false),
        json: serde_json::to_string(q).unwrap(),
    }
}

fn lockstep_generic(cfg: &Cfg, loops: bool, k: usize, m: usize) -> Result<Summary, String> {
    lockstep_generic_with(cfg, &|| build_generic(cfg, loops), k, m)
}

fn lockstep_generic_with(cfg: &Cfg, build: &dyn Fn() -> Q, k: usize, m: usize) -> Result<Summary, String> {
    pool_reset_log();
    let mut orig = build();
    for _ in 0..k {
        orig.timesteps(1, cfg.beta);
    }
    pool_check(&format!("steps 1..{}", k))?;
    let at_k = obs_generic(&orig, 0.0);
    let rt = |q: &Q| -> Result<Q, String> {
        let text = serde_json::to_string(q).map_err(|e| e.to_string())?;
        serde_json::from_str::<Q>(&text).map_err(|e| e.to_string())
    };
    let mut a = rt(&orig)?;
    let mut c = rt(&orig)?;
    if let Some(d) = diff(&at_k, &obs_generic(&a, 0.0)) {
        return Err(format!("right after restore at k={}: {}", k, d));
    }
    let mut grew = false;
    for s in 1..=m {
        let eo = orig.timesteps(1, cfg.beta);
        let ea = a.timesteps(1, cfg.beta);
        let ec = c.timesteps(1, cfg.beta);
        pool_check(&format!("step k+{} (k={})", s, k))?;
        let oo = obs_generic(&orig, eo);
        grew |= oo.cutoff != at_k.cutoff;
        for (name, x, e) in [("a", &a, ea), ("c", &c, ec)] {
            if let Some(d) = diff(&oo, &obs_generic(x, e)) {
                return Err(format!("form {} snapshot k={} step k+{}: {}", name, k, s, d));
            }
        }
        c = rt(&c)?;
    }
    Ok(Summary {
        nontrivial: at_k.n > 0,
        grew,
        rvb_succ: false,
    })
}


// ------------------------------------------------------------------------------------------------
// samplers started from a PREPARED operator string with legal but non-canonical ops: constant single-site ops
// written as `FastOp::offdiagonal(v, bond, s, s, true)` (inputs == outputs, variant Offdiagonal) exactly as
// /repo/tests/check_rvb_crash.rs writes them.  A snapshot must store the variant, not re-derive it: `is_diagonal()`
// decides whether the diagonal update may remove the op.
// ------------------------------------------------------------------------------------------------
fn prepared_state(nvars: usize, seed: u64) -> Vec<bool> {
    (0..nvars).map(|v| (seed >> v) & 1 == 1).collect()
}

/// `first_const_bond + v` is the bond number of the constant single-site op of variable v
fn prepared_ops(nvars: usize, first_const_bond: usize, state: &[bool], seed: u64) -> Vec<(usize, qmc::sse::fast_ops::FastOp)> {
    use qmc::sse::fast_ops::FastOp;
    use smallvec::smallvec;
    let ps = [0usize, 1, 3, 4, 6, 7];
    ps.iter()
        .enumerate()
        .map(|(i, p)| {
            let v = (i + seed as usize) % nvars;
            let s = state[v];
            // every third op in canonical diagonal form, the others as Offdiagonal(s, s)
            let op = if i % 3 == 2 {
                FastOp::diagonal(smallvec![v], first_const_bond + v, smallvec![s], true)
            } else {
                FastOp::offdiagonal(smallvec![v], first_const_bond + v, smallvec![s], smallvec![s], true)
            };
            (*p, op)
        })
        .collect()
}

fn build_prepared_ising(cfg: &Cfg) -> G {
    let nvars = cfg.edges.iter().map(|((a, b), _)| *a.max(b)).max().unwrap() + 1;
    let nedges = cfg.edges.len();
    let state = prepared_state(nvars, cfg.seed);
    let st = state.clone();
    let seed = cfg.seed;
    let mut g = G::new_with_rng_with_manager_hook(
        cfg.edges.clone(),
        cfg.transverse,
        cfg.longitudinal,
        cfg.cutoff.max(9),
        SplitMix64::new(cfg.seed),
        Some(state),
        move |nv, _nbonds| FastOps::new_from_ops(nv, prepared_ops(nv, nedges, &st, seed)),
    );
    if cfg.rvb {
        g.set_run_rvb(true);
    }
    if cfg.heatbath {
        g.set_enable_heatbath(true);
    }
    g
}

fn build_prepared_generic(cfg: &Cfg, loops: bool) -> Q {
    let nvars = cfg.edges.iter().map(|((a, b), _)| *a.max(b)).max().unwrap() + 1;
    let nedges = cfg.edges.len();
    let state = prepared_state(nvars, cfg.seed);
    let st = state.clone();
    let seed = cfg.seed;
    let mut q = Q::new_with_state_with_manager_hook(nvars, SplitMix64::new(cfg.seed), state, loops, move |nv| {
        FastOps::new_from_ops(nv, prepared_ops(nv, nedges, &st, seed))
    });
    for ((a, b), j) in &cfg.edges {
        q.make_diagonal_interaction_and_offset(vec![-j, *j, *j, -j], vec![*a, *b]).unwrap();
    }
    for v in 0..nvars {
        let t = cfg.transverse;
        q.make_interaction(vec![t, t, t, t], vec![v]).unwrap();
    }
    q.set_do_heatbath(cfg.heatbath);
    q.set_cutoff(9.max(nvars));
    q
}

// ------------------------------------------------------------------------------------------------
// tempering container
// ------------------------------------------------------------------------------------------------
#[derive(Clone, Debug)]
struct TCfg {
    base: Cfg,
    /// per replica: (beta, scale of J (1 = same Hamiltonian), scale of Γ)
    replicas: Vec<(f64, f64, f64)>,
    seed: u64,
}

impl TCfg {
    fn show(&self) -> String {
        let r: Vec<String> = self
            .replicas
            .iter()
            .map(|(b, sj, sg)| format!("{}:{}:{}", rat(*b), rat(*sj), rat(*sg)))
            .collect();
        format!("{} replicas={} cseed={}", self.base.show(), r.join(","), self.seed)
    }
    fn build(&self) -> TC {
        let mut tc: TC = TemperingContainer::new(SplitMix64::new(self.seed));
        for (i, (beta, sj, sg)) in self.replicas.iter().enumerate() {
            let mut c = self.base.clone();
            c.edges.iter_mut().for_each(|(_, j)| *j *= sj);
            c.transverse *= sg;
            c.seed = self.base.seed.wrapping_add(1000 * (i as u64 + 1));
            tc.add_qmc_stepper(c.build(), *beta).unwrap();
        }
        tc
    }
}

fn gen_tcfg(gen: &mut SplitMix64, i: usize, thorough: bool) -> TCfg {
    let mut base = gen_cfg(gen, i, thorough);
    base.cutoff = *gen.pick(&[1usize, 2, 5]);
    let nrep = 2 + gen.below(if thorough { 5 } else { 4 }) as usize;
    let same_ham = gen.chance(1, 3);
    let replicas = (0..nrep)
        .map(|_| {
            let beta = *gen.pick(&[0.5, 1.0, 1.5, 2.0, 3.0]);
            if same_ham {
                (beta, 1.0, 1.0)
            } else {
                (beta, *gen.pick(&[0.5, 1.0, 1.5]), *gen.pick(&[0.5, 1.0, 2.0]))
            }
        })
        .collect();
    TCfg {
        base,
        replicas,
        seed: gen.next(),
    }
}

fn obs_tc(tc: &TC, strip_caches: bool) -> Vec<String> {
    let mut out: Vec<String> = tc
        .graph_ref()
        .iter()
        .map(|(g, beta)| {
            format!(
                "{} {} n={} c={} beta={} rvb={} ok={}",
                bits(g.state_ref()),
                show_slots(g.get_manager_ref()),
                g.get_n(),
                g.get_cutoff(),
                rat(*beta),
                g.rvb_success_rate().to_bits(),
                g.verify()
            )
        })
        .collect();
    out.push(format!("swaps={}", tc.get_total_swaps()));
    let mut v = serde_json::to_value(tc).unwrap();
    if strip_caches {
        // the RNG-less restore resets the two pairwise-equality caches (recomputed on the next tempering step)
        let o = v.as_object_mut().unwrap();
        o.remove("graph_ham_eq_a");
        o.remove("graph_ham_eq_b");
    }
    out.push(v.to_string());
    out
}

fn diff_tc(a: &[String], b: &[String]) -> Option<String> {
    for (i, (x, y)) in a.iter().zip(b.iter()).enumerate() {
        if x != y {
            let what = if i + 1 == a.len() {
                format!("json: {}", json_diff(x, y))
            } else if i + 2 == a.len() {
                format!("{} vs {}", x, y)
            } else {
                format!("replica {}: {} vs {}", i, x, y)
            };
            return Some(what);
        }
    }
    None
}

fn tc_step(tc: &mut TC) {
    tc.timesteps(1);
    tc.tempering_step();
}

fn tc_rt_with_rng(tc: &TC) -> Result<TC, String> {
    let text = serde_json::to_string(tc).map_err(|e| e.to_string())?;
    serde_json::from_str::<TC>(&text).map_err(|e| e.to_string())
}

fn tc_rt_rngless(tc: TC) -> Result<TC, String> {
    let (stc, rng, rngs): (STC, SplitMix64, Vec<SplitMix64>) = tc.into();
    let text = serde_json::to_string(&stc).map_err(|e| e.to_string())?;
    let stc2: STC = serde_json::from_str(&text).map_err(|e| e.to_string())?;
    Ok(stc2.into_tempering_container_from_vec(rng, rngs))
}

fn lockstep_temper(cfg: &TCfg, k: usize, m: usize) -> Result<(bool, u64, bool), String> {
    let fresh = |k: usize| {
        let mut tc = cfg.build();
        for _ in 0..k {
            tc_step(&mut tc);
        }
        tc
    };
    pool_reset_log();
    let mut orig = fresh(k);
    pool_check(&format!("tempering history up to k={}", k))?;
    let swaps_at_k = orig.get_total_swaps();
    let mut a = tc_rt_with_rng(&orig).map_err(|e| format!("form a: {}", e))?;
    let mut b = tc_rt_rngless(fresh(k)).map_err(|e| format!("form b: {}", e))?;
    let mut c = fresh(k);
    if let Some(d) = diff_tc(&obs_tc(&orig, false), &obs_tc(&a, false)) {
        return Err(format!("right after restore (a) at k={}: {}", k, d));
    }
    if let Some(d) = diff_tc(&obs_tc(&orig, true), &obs_tc(&b, true)) {
        return Err(format!("right after restore (b) at k={}: {}", k, d));
    }
    for s in 1..=m {
        // alternate the two drivers of the container: single steps, and timesteps_sample (which has its own swaps)
        let (ro, ra, rb, rc) = if s % 3 == 0 {
            (
                Some(orig.timesteps_sample(3, 2, 1)),
                Some(a.timesteps_sample(3, 2, 1)),
                Some(b.timesteps_sample(3, 2, 1)),
                Some(c.timesteps_sample(3, 2, 1)),
            )
        } else {
            tc_step(&mut orig);
            tc_step(&mut a);
            tc_step(&mut b);
            tc_step(&mut c);
            (None, None, None, None)
        };
        let enc = |r: &Option<Vec<(Vec<Vec<bool>>, f64)>>| -> String {
            match r {
                None => "-".into(),
                Some(v) => v
                    .iter()
                    .map(|(ss, e)| format!("{}@{}", ss.iter().map(|s| bits(s)).collect::<Vec<_>>().join("/"), e.to_bits()))
                    .collect::<Vec<_>>()
                    .join(";"),
            }
        };
        pool_check(&format!("tempering op k+{} (k={})", s, k))?;
        let oo = obs_tc(&orig, false);
        for (name, x, r) in [("a", &a, &ra), ("b", &b, &rb), ("c", &c, &rc)] {
            if enc(&ro) != enc(r) {
                return Err(format!("form {} snapshot k={} step k+{}: timesteps_sample returned {} vs {}", name, k, s, enc(&ro), enc(r)));
            }
            if let Some(d) = diff_tc(&oo, &obs_tc(x, false)) {
                return Err(format!("form {} snapshot k={} step k+{}: {}", name, k, s, d));
            }
        }
        c = if s % 2 == 0 { tc_rt_with_rng(&c)? } else { tc_rt_rngless(c)? };
        // (c) may have just lost its caches; they are compared again after its next tempering step
        if s % 2 == 1 {
            // bring the caches back before the next JSON comparison without touching anything observable:
            // a tempering step would draw from the RNG, so instead compare with caches stripped next round
            let oo = obs_tc(&orig, true);
            if let Some(d) = diff_tc(&oo, &obs_tc(&c, true)) {
                return Err(format!("cycle (b) at k+{}: {}", s, d));
            }
        }
    }
    let nontrivial = orig.graph_ref().iter().any(|(g, _)| g.get_n() > 0);
    Ok((nontrivial, orig.get_total_swaps(), orig.get_total_swaps() > swaps_at_k))
}


// ------------------------------------------------------------------------------------------------
// tempering containers that GROW: add_qmc_stepper interleaved with tempering steps
// ------------------------------------------------------------------------------------------------
#[derive(Clone, Copy, Debug, PartialEq)]
enum GrowOp {
    /// add replica number i of the configuration
    Add(usize),
    /// timesteps(1) + tempering_step()
    Step,
}

fn show_ops(ops: &[GrowOp]) -> String {
    ops.iter()
        .map(|o| match o {
            GrowOp::Add(i) => format!("A{}", i),
            GrowOp::Step => "T".to_string(),
        })
        .collect::<Vec<_>>()
        .join("")
}

impl TCfg {
    fn replica(&self, i: usize) -> (G, f64) {
        let (beta, sj, sg) = self.replicas[i];
        let mut c = self.base.clone();
        c.edges.iter_mut().for_each(|(_, j)| *j *= sj);
        c.transverse *= sg;
        c.seed = self.base.seed.wrapping_add(1000 * (i as u64 + 1));
        (c.build(), beta)
    }
}

fn apply_op(cfg: &TCfg, tc: &mut TC, op: GrowOp) {
    match op {
        GrowOp::Add(i) => {
            let (g, beta) = cfg.replica(i);
            tc.add_qmc_stepper(g, beta).unwrap();
        }
        GrowOp::Step => tc_step(tc),
    }
}

/// `n0` replicas before the first step, then 1..3 steps between two adds, up to `cfg.replicas.len()` replicas, then
/// two more steps.  The last add therefore always comes AFTER at least one tempering step.
fn gen_grow_ops(gen: &mut SplitMix64, nfinal: usize, n0: usize) -> Vec<GrowOp> {
    let mut ops: Vec<GrowOp> = (0..n0).map(GrowOp::Add).collect();
    for i in n0..nfinal {
        for _ in 0..(1 + gen.below(3)) {
            ops.push(GrowOp::Step);
        }
        ops.push(GrowOp::Add(i));
    }
    ops.push(GrowOp::Step);
    ops.push(GrowOp::Step);
    ops
}

/// snapshot after the first k ops of the history (so also right after an add, and right after the step following
/// an add), both forms; then the rest of the history and `m` further tempering steps in lock-step
fn lockstep_grow(cfg: &TCfg, ops: &[GrowOp], k: usize, m: usize) -> Result<(bool, u64), String> {
    let fresh = || {
        let mut tc: TC = TemperingContainer::new(SplitMix64::new(cfg.seed));
        for op in &ops[..k] {
            apply_op(cfg, &mut tc, *op);
        }
        tc
    };
    pool_reset_log();
    let mut orig = fresh();
    pool_check(&format!("growing history up to op {}", k))?;
    let mut a = tc_rt_with_rng(&orig).map_err(|e| format!("form a: {}", e))?;
    let mut b = tc_rt_rngless(fresh()).map_err(|e| format!("form b: {}", e))?;
    let mut c = fresh();
    if let Some(d) = diff_tc(&obs_tc(&orig, false), &obs_tc(&a, false)) {
        return Err(format!("right after restore (a) at op {}: {}", k, d));
    }
    if let Some(d) = diff_tc(&obs_tc(&orig, true), &obs_tc(&b, true)) {
        return Err(format!("right after restore (b) at op {}: {}", k, d));
    }
    let rest: Vec<GrowOp> = ops[k..].iter().cloned().chain(std::iter::repeat(GrowOp::Step).take(m)).collect();
    // the RNG-less copy has empty caches until the first tempering step that actually runs (>= 2 replicas)
    let mut b_caches_known = false;
    let mut c_caches_known = true;
    for (s, op) in rest.iter().enumerate() {
        for tc in [&mut orig, &mut a, &mut b, &mut c] {
            apply_op(cfg, tc, *op);
        }
        pool_check(&format!("growing history op {}+{}", k, s + 1))?;
        let rebuilt = *op == GrowOp::Step && orig.graph_ref().len() >= 2;
        let reset = matches!(op, GrowOp::Add(_));
        b_caches_known = b_caches_known || rebuilt || reset;
        c_caches_known = c_caches_known || rebuilt || reset;
        let full = obs_tc(&orig, false);
        let stripped = obs_tc(&orig, true);
        if let Some(d) = diff_tc(&full, &obs_tc(&a, false)) {
            return Err(format!("form a snapshot at op {} then op +{} ({:?}): {}", k, s + 1, op, d));
        }
        let (ob, xb) = if b_caches_known { (&full, obs_tc(&b, false)) } else { (&stripped, obs_tc(&b, true)) };
        if let Some(d) = diff_tc(ob, &xb) {
            return Err(format!("form b snapshot at op {} then op +{} ({:?}): {}", k, s + 1, op, d));
        }
        let (oc, xc) = if c_caches_known { (&full, obs_tc(&c, false)) } else { (&stripped, obs_tc(&c, true)) };
        if let Some(d) = diff_tc(oc, &xc) {
            return Err(format!("form c (cycled) snapshot at op {} then op +{} ({:?}): {}", k, s + 1, op, d));
        }
        // (c): snapshot-restore after every op, alternating the forms
        if s % 2 == 0 {
            c = tc_rt_rngless(c)?;
            c_caches_known = false;
        } else {
            c = tc_rt_with_rng(&c)?;
        }
    }
    let nontrivial = orig.graph_ref().iter().any(|(g, _)| g.get_n() > 0);
    Ok((nontrivial, orig.get_total_swaps()))
}

// ------------------------------------------------------------------------------------------------
// JSON keys of the real serde output
// ------------------------------------------------------------------------------------------------
fn keys_of(v: &Value) -> String {
    let mut k: Vec<String> = v.as_object().map(|o| o.keys().cloned().collect()).unwrap_or_default();
    k.sort();
    list(&k)
}

fn emit_keys(name: &str, v: &Value) {
    let ok = v.is_object();
    emit(
        true,
        &format!("keys {}", name),
        &keys_of(v),
        Some(if ok { Ok(()) } else { Err(format!("{} is not serialised as a JSON object: {}", name, v)) }),
    );
}

fn keys_mode() {
    let cfg = Cfg {
        edges: vec![((0, 1), 1.0), ((1, 2), -1.0), ((2, 0), 1.0)],
        transverse: 1.0,
        longitudinal: 0.5,
        beta: 2.0,
        cutoff: 3,
        rvb: true,
        heatbath: true,
        seed: 11,
        init_state: None,
    };
    let mut g = cfg.build();
    run_steps(&mut g, 10, cfg.beta);
    let v = serde_json::to_value(&g).unwrap();
    emit_keys("QmcIsingGraph", &v);
    let m = &v["op_manager"];
    emit_keys("FastOpsTemplate", m);
    emit_keys("DefaultFastOpAllocator", &m["alloc"]);
    emit_keys("Allocator", &m["alloc"]["usize_alloc"]);
    emit_keys("BondWeights", &v["bond_weights"]);
    let node = m["ops"].as_array().unwrap().iter().find(|x| !x.is_null()).cloned().unwrap_or(Value::Null);
    emit_keys("FastOpNodeTemplate", &node);
    emit_keys("BasicOp", &node["op"]);
    let prel = m["var_ends"]
        .as_array()
        .unwrap()
        .iter()
        .find(|x| !x.is_null())
        .map(|x| x[0].clone())
        .unwrap_or(Value::Null);
    emit_keys("PRel", &prel);
    // pools are stored as bare counts
    let cnt = &m["alloc"]["usize_alloc"]["instances"];
    emit(
        true,
        "poolcount usize_alloc",
        if cnt.is_u64() { "count" } else { "instances" },
        Some(if cnt.is_u64() { Ok(()) } else { Err(format!("pool is not serialised as a count: {}", cnt)) }),
    );
    let sg: SG = cfg.build().into();
    emit_keys("SerializeQmcGraph", &serde_json::to_value(&sg).unwrap());

    let q = build_generic(&cfg, true);
    let vq = serde_json::to_value(&q).unwrap();
    emit_keys("Qmc", &vq);
    emit_keys("Interaction", &vq["bonds"][0]);

    let tcfg = TCfg {
        base: cfg.clone(),
        replicas: vec![(1.0, 1.0, 1.0), (2.0, 1.0, 1.0)],
        seed: 5,
    };
    let tc = tcfg.build();
    emit_keys("TemperingContainer", &serde_json::to_value(&tc).unwrap());
    let stc: STC = tcfg.build().into();
    emit_keys("SerializeTemperingContainer", &serde_json::to_value(&stc).unwrap());
}

fn main() {
    let a = args();
    quiet_panics();
    let mut gen = SplitMix64::new(a.seed ^ 0xC14);
    let (ncfg, kmax, m) = if a.thorough { (100, 40, 30) } else { (32, 20, 12) };
    let (ngen, ntemper) = if a.thorough { (40, 40) } else { (12, 16) };

    keys_mode();

    let (mut grew, mut rvbs, mut hb, mut field, mut rvbopt) = (0u64, 0u64, 0u64, 0u64, 0u64);
    for i in 0..ncfg {
        let cfg = gen_cfg(&mut gen, i, a.thorough);
        hb += cfg.heatbath as u64;
        field += (cfg.longitudinal != 0.0) as u64;
        rvbopt += cfg.rvb as u64;
        for k in 0..=kmax {
            let r = catch(|| lockstep_ising(&cfg, k, m));
            let (nt, verdict) = match r {
                Ok(Ok(s)) => {
                    grew += s.grew as u64;
                    rvbs += s.rvb_succ as u64;
                    (s.nontrivial, Ok(()))
                }
                Ok(Err(e)) => (true, Err(e)),
                Err(p) => (true, Err(format!("panic: {}", p))),
            };
            let out = if verdict.is_ok() { "same" } else { "diff" };
            emit(nt, &format!("ising {} k={} m={}", cfg.show(), k, m), out, Some(verdict));
        }
    }
    stat("ising.configs", ncfg);
    stat("ising.heatbath_configs", hb);
    stat("ising.field_configs", field);
    stat("ising.rvb_configs", rvbopt);
    stat("ising.snapshots_mid_cutoff_growth", grew);
    stat("ising.snapshots_with_rvb_successes", rvbs);

    let mut ggrew = 0u64;
    for i in 0..ngen {
        let cfg = gen_cfg(&mut gen, i, a.thorough);
        let loops = i % 2 == 0;
        for k in 0..=kmax {
            let r = catch(|| lockstep_generic(&cfg, loops, k, m));
            let (nt, verdict) = match r {
                Ok(Ok(s)) => {
                    ggrew += s.grew as u64;
                    (s.nontrivial, Ok(()))
                }
                Ok(Err(e)) => (true, Err(e)),
                Err(p) => (true, Err(format!("panic: {}", p))),
            };
            let out = if verdict.is_ok() { "same" } else { "diff" };
            emit(nt, &format!("generic loops={} {} k={} m={}", loops as u8, cfg.show(), k, m), out, Some(verdict));
        }
    }
    stat("generic.configs", ngen);
    stat("generic.snapshots_mid_cutoff_growth", ggrew);

    let (mut after_swap, mut total_swaps) = (0u64, 0u64);
    let tk = if a.thorough { 20 } else { 8 };
    for i in 0..ntemper {
        let cfg = gen_tcfg(&mut gen, i, a.thorough);
        for k in 0..=tk {
            let r = catch(|| lockstep_temper(&cfg, k, m.min(12)));
            let (nt, verdict) = match r {
                Ok(Ok((nt, swaps, swapped_later))) => {
                    total_swaps = total_swaps.max(swaps);
                    after_swap += swapped_later as u64;
                    (nt, Ok(()))
                }
                Ok(Err(e)) => (true, Err(e)),
                Err(p) => (true, Err(format!("panic: {}", p))),
            };
            let out = if verdict.is_ok() { "same" } else { "diff" };
            emit(nt, &format!("temper {} k={} m={}", cfg.show(), k, m.min(12)), out, Some(verdict));
        }
    }
    stat("temper.configs", ntemper);
    stat("temper.snapshots_followed_by_successful_swaps", after_swap);
    stat("temper.max_total_swaps", total_swaps);

    // growing containers: add_qmc_stepper interleaved with tempering steps, final sizes 3..6 (both parities)
    let ngrow = if a.thorough { 32 } else { 12 };
    let mut grow_swaps = 0u64;
    let mut grow_cases = 0u64;
    for i in 0..ngrow {
        let nfinal = 3 + i % 4;
        let n0 = 1 + (i / 4) % 2; // 1 or 2 replicas before the first step
        let mut cfg = gen_tcfg(&mut gen, 8 + i, a.thorough);
        while cfg.replicas.len() < nfinal {
            let r = cfg.replicas[cfg.replicas.len() - 1];
            cfg.replicas.push((r.0 + 0.5, r.1, r.2));
        }
        cfg.replicas.truncate(nfinal);
        let ops = gen_grow_ops(&mut gen, nfinal, n0);
        let mg = if a.thorough { 16 } else { 12 };
        for k in 0..=ops.len() {
            let r = catch(|| lockstep_grow(&cfg, &ops, k, mg));
            let (nt, verdict) = match r {
                Ok(Ok((nt, swaps))) => {
                    grow_swaps = grow_swaps.max(swaps);
                    (nt, Ok(()))
                }
                Ok(Err(e)) => (true, Err(e)),
                Err(p) => (true, Err(format!("panic: {}", p))),
            };
            grow_cases += 1;
            let out = if verdict.is_ok() { "same" } else { "diff" };
            emit(nt, &format!("temper-grow {} ops={} k={} m={}", cfg.show(), show_ops(&ops), k, mg), out, Some(verdict));
        }
    }
    stat("temper_grow.configs", ngrow);
    stat("temper_grow.cases", grow_cases);
    stat("temper_grow.max_total_swaps", grow_swaps);

    // fixed regression inputs (fourth-round seed: residue in a pooled BondContainer) + a grid around them: every k
    for (kind, gamma, beta, seed, k) in [(1usize, 0.3, 2.0, 27u64, 18usize), (0, 1.0, 0.5, 28, 48)] {
        let r = catch(|| lockstep_nd(kind, gamma, beta, seed, k, 40));
        let (nt, verdict) = match r {
            Ok(Ok(nt)) => (nt, Ok(())),
            Ok(Err(e)) => (true, Err(e)),
            Err(p) => (true, Err(format!("panic: {}", p))),
        };
        let out = if verdict.is_ok() { "same" } else { "diff" };
        emit(nt, &format!("ising-nd-fixed kind={} G={} beta={} smallrng_seed={} k={} m=40", kind, rat(gamma), rat(beta), seed, k), out, Some(verdict));
    }
    let (nd_seeds, nd_k, nd_m) = if a.thorough { (24u64, 60usize, 16usize) } else { (6, 50, 12) };
    let mut nd_cases = 0u64;
    for kind in 0..4usize {
        for (gamma, beta) in [(0.3, 2.0), (1.0, 0.5), (0.7, 1.0)] {
            for sd in 0..nd_seeds {
                let seed = 25 + sd; // includes 27 and 28
                let mut verdict = Ok(());
                let mut nt = false;
                for k in 0..=nd_k {
                    match catch(|| lockstep_nd(kind, gamma, beta, seed, k, nd_m)) {
                        Ok(Ok(x)) => nt |= x,
                        Ok(Err(e)) => {
                            verdict = Err(e);
                            break;
                        }
                        Err(p) => {
                            verdict = Err(format!("k={}: panic: {}", k, p));
                            break;
                        }
                    }
                    nd_cases += 1;
                }
                let out = if verdict.is_ok() { "same" } else { "diff" };
                emit(nt || verdict.is_err(), &format!("ising-nd kind={} G={} beta={} smallrng_seed={} k=0..{} m={}", kind, rat(gamma), rat(beta), seed, nd_k, nd_m), out, Some(verdict));
            }
        }
    }
    stat("ising_nd.snapshot_points", nd_cases);
    stat("pool.return_events_checked_clean", POOL_RETURNS.with(|c| c.get()));

    // samplers started from a prepared string with non-canonical (Offdiagonal(s, s)) constant ops: k = 0..3
    let nprep = if a.thorough { 24 } else { 8 };
    let mut prep_offdiag_at_snapshot = 0u64;
    for i in 0..nprep {
        let mut cfg = gen_cfg(&mut gen, i, a.thorough);
        cfg.longitudinal = 0.0; // keeps bond numbering identical for both samplers (edges, then one constant op per variable)
        let loops = i % 2 == 0;
        for k in 0..=3usize {
            let r = catch(|| {
                let g = {
                    let mut g = build_prepared_ising(&cfg);
                    run_steps(&mut g, k, cfg.beta);
                    g
                };
                let offd = show_slots(g.get_manager_ref()).matches(";O;").count() as u64;
                lockstep_ising_with(&cfg, &|| build_prepared_ising(&cfg), k, m).map(|s| (s, offd))
            });
            let (nt, verdict) = match r {
                Ok(Ok((s, offd))) => {
                    prep_offdiag_at_snapshot += (offd > 0) as u64;
                    (s.nontrivial, Ok(()))
                }
                Ok(Err(e)) => (true, Err(e)),
                Err(p) => (true, Err(format!("panic: {}", p))),
            };
            let out = if verdict.is_ok() { "same" } else { "diff" };
            emit(nt, &format!("prepared-ising {} k={} m={}", cfg.show(), k, m), out, Some(verdict));
            let r = catch(|| lockstep_generic_with(&cfg, &|| build_prepared_generic(&cfg, loops), k, m));
            let (nt, verdict) = match r {
                Ok(Ok(s)) => (s.nontrivial, Ok(())),
                Ok(Err(e)) => (true, Err(e)),
                Err(p) => (true, Err(format!("panic: {}", p))),
            };
            let out = if verdict.is_ok() { "same" } else { "diff" };
            emit(nt, &format!("prepared-generic loops={} {} k={} m={}", loops as u8, cfg.show(), k, m), out, Some(verdict));
        }
    }
    stat("prepared.configs", nprep);
    stat("prepared.ising_snapshots_holding_offdiagonal_ops", prep_offdiag_at_snapshot);

    // scale / regime: 33..130 spins (word-boundary state patterns), hub with 300 leaves + rvb, complete graph on 40 spins
    let sizes: Vec<(&str, usize)> = if a.thorough {
        vec![("ring", 33), ("ring", 64), ("ring", 65), ("ring", 100), ("ring", 130), ("hub", 301), ("complete", 40)]
    } else {
        vec![("ring", 33), ("ring", 65), ("ring", 130), ("hub", 301), ("complete", 40)]
    };
    let mut big_cases = 0u64;
    for (kind, n) in sizes {
        for which in 0..4usize {
            if kind != "ring" && which >= 2 && !a.thorough {
                continue;
            }
            let (name, cfg) = big_cfg(kind, n, which, &mut gen);
            let (kb, mb) = if kind == "ring" { (2usize, 3usize) } else { (1, 2) };
            for k in 0..=kb {
                let r = catch(|| lockstep_ising(&cfg, k, mb));
                let (nt, verdict) = match r {
                    Ok(Ok(s)) => (s.nontrivial || k == 0, Ok(())),
                    Ok(Err(e)) => (true, Err(e)),
                    Err(p) => (true, Err(format!("panic: {}", p))),
                };
                big_cases += 1;
                let out = if verdict.is_ok() { "same" } else { "diff" };
                emit(nt, &format!("big-ising {} seed={} rvb={} hb={} k={} m={}", name, cfg.seed, cfg.rvb as u8, cfg.heatbath as u8, k, mb), out, Some(verdict));
            }
            // the same replicas inside a tempering container (both container forms)
            if kind == "ring" {
                let tcfg = TCfg { base: cfg.clone(), replicas: vec![(0.5, 1.0, 1.0), (1.0, 1.0, 1.0), (0.25, 1.0, 1.0)], seed: gen.next() };
                for k in 0..=1usize {
                    let r = catch(|| lockstep_temper(&tcfg, k, 3));
                    let (nt, verdict) = match r {
                        Ok(Ok((nt, _, _))) => (nt || k == 0, Ok(())),
                        Ok(Err(e)) => (true, Err(e)),
                        Err(p) => (true, Err(format!("panic: {}", p))),
                    };
                    big_cases += 1;
                    let out = if verdict.is_ok() { "same" } else { "diff" };
                    emit(nt, &format!("big-temper {} seed={} cseed={} k={} m=3", name, cfg.seed, tcfg.seed, k), out, Some(verdict));
                }
            }
        }
    }
    stat("big.cases", big_cases);
}
