//! C13 — runs are reproducible from their seeds and independent of thread scheduling; clones continue exactly
//! like the original; the rayon tempering driver returns what the serial driver returns for every pool size.
//!
//! Runtime (Rust-vs-Rust) comparison on the real code; the oracle column carries the verdict.  The Lean driver
//! answers the proved verdict `same` and, for the `draws` cases, the number of container-RNG words the model
//! says a serial / parallel tempering step consumes (measured here from the SplitMix64 state).
//!
//!  * `twin-ising` / `twin-generic` / `twin-classical` / `twin-temper`: two objects built from equal inputs and
//!    equal seeds (one of them on another OS thread) give identical sequences of states, operator strings, n,
//!    cutoff, energies, swap counts, JSON snapshots.
//!  * `clone-…`: a clone taken at step k is identical; stepping the clone leaves the original untouched
//!    (snapshot before == after); the original then produces exactly the sequence the clone produced, which
//!    is the sequence of an uninterrupted reference run.
//!  * `pool`: serial `timesteps_sample` / `tempering_step` / `timesteps` vs the rayon versions inside pools of
//!    1..16 threads, repeated executions: returns (sampled states, energy bits), replicas, swap count and the
//!    complete JSON snapshot (container RNG included, ≥ 2 replicas) are equal.
//!  * `onereplica`: with exactly ONE replica the returns and replica are equal but the parallel step draws one
//!    container-RNG word and the serial one none (documented note, compared with the model's draw counts).

use qmc::classical::graph::GraphState;
use qmc::sse::fast_ops::FastOps;
use qmc::sse::*;
use vh::*;

type G = QmcIsingGraph<SplitMix64, FastOps>;
type Q = DefaultQmc<SplitMix64>;
type TC = DefaultTemperingContainer<SplitMix64, SplitMix64>;

#[derive(Clone, Debug)]
struct Cfg {
    edges: Vec<((usize, usize), f64)>,
    transverse: f64,
    longitudinal: f64,
    beta: f64,
    cutoff: usize,
    rvb: bool,
    heatbath: bool,
    seed: u64,
}

impl Cfg {
    fn nvars(&self) -> usize {
        self.edges.iter().map(|((a, b), _)| *a.max(b)).max().unwrap() + 1
    }
    fn show(&self) -> String {
        let e: Vec<String> = self.edges.iter().map(|((a, b), j)| format!("{}-{}:{}", a, b, rat(*j))).collect();
        format!(
            "edges={} G={} h={} beta={} cutoff={} rvb={} hb={} seed={}",
            e.join(","),
            rat(self.transverse),
            rat(self.longitudinal),
            rat(self.beta),
            self.cutoff,
            self.rvb as u8,
            self.heatbath as u8,
            self.seed
        )
    }
    fn build(&self) -> G {
        let mut g = G::new_with_rng(
            self.edges.clone(),
            self.transverse,
            self.longitudinal,
            self.cutoff,
            SplitMix64::new(self.seed),
            None,
        );
        if self.rvb {
            g.set_run_rvb(true);
        }
        if self.heatbath {
            g.set_enable_heatbath(true);
        }
        g
    }
    fn build_generic(&self, loops: bool) -> Q {
        let nvars = self.nvars();
        let mut q = Q::new(nvars, SplitMix64::new(self.seed), loops);
        for ((a, b), j) in &self.edges {
            q.make_diagonal_interaction_and_offset(vec![-j, *j, *j, -j], vec![*a, *b]).unwrap();
        }
        for v in 0..nvars {
            let t = self.transverse;
            q.make_interaction(vec![t, t, t, t], vec![v]).unwrap();
        }
        if self.longitudinal != 0.0 {
            for v in 0..nvars {
                let h = self.longitudinal;
                q.make_interaction_and_offset(vec![-h, 0.0, 0.0, h], vec![v]).unwrap();
            }
        }
        q.set_do_heatbath(self.heatbath);
        q
    }
    fn build_classical(&self) -> GraphState<SplitMix64> {
        let biases = vec![self.longitudinal; self.nvars()];
        let mut g = GraphState::new(&self.edges, &biases, SplitMix64::new(self.seed));
        // importance sampling needs a positive total weight (C19 finding F13): only for all-positive couplings
        if self.heatbath && self.edges.iter().all(|(_, j)| *j > 0.0) {
            g.enable_edge_importance_sampling(true);
        }
        g
    }
}

fn graph_shape(kind: u64, n: usize) -> Vec<(usize, usize)> {
    match kind % 4 {
        0 => (0..n - 1).map(|i| (i, i + 1)).collect(),
        1 => {
            if n < 3 {
                vec![(0, 1)]
            } else {
                (0..n).map(|i| (i, (i + 1) % n)).collect()
            }
        }
        2 => {
            let mut e: Vec<(usize, usize)> = (1..n).map(|i| (0, i)).collect();
            if n >= 3 {
                e.push((1, 2));
            }
            e
        }
        _ => {
            let m = n.min(4);
            let mut e = vec![];
            for a in 0..m {
                for b in a + 1..m {
                    e.push((a, b));
                }
            }
            for i in m..n {
                e.push((i - 1, i));
            }
            e
        }
    }
}

fn gen_cfg(gen: &mut SplitMix64, i: usize, thorough: bool) -> Cfg {
    let nmax = if thorough { 8 } else { 6 };
    let n = 2 + gen.below(nmax - 1) as usize;
    let shape = graph_shape(gen.next(), n);
    let js = [-2.0, -1.5, -1.0, -0.5, 0.5, 1.0, 1.5, 2.0];
    let uniform_j = gen.coin();
    let j0 = *gen.pick(&js);
    let edges = shape.into_iter().map(|e| (e, if uniform_j { j0 } else { *gen.pick(&js) })).collect();
    let (rvb, heatbath, field) = if i < 8 { (i & 1 == 1, i & 2 == 2, i & 4 == 4) } else { (gen.coin(), gen.coin(), gen.coin()) };
    let hs = [-1.0, -0.5, -0.25, 0.25, 0.5, 1.0];
    Cfg {
        edges,
        transverse: *gen.pick(&[0.25, 0.5, 1.0, 1.5]),
        longitudinal: if field { *gen.pick(&hs) } else { 0.0 },
        beta: *gen.pick(&[0.5, 1.0, 2.0, 4.0]),
        cutoff: *gen.pick(&[1usize, 2, 3, n, 4 * n]),
        rvb,
        heatbath,
        seed: gen.next(),
    }
}

// ------------------------------------------------------------------------------------------------
// A uniform view of the three sampler kinds: step once, observe everything
// ------------------------------------------------------------------------------------------------
trait Sampler: Clone + Send + 'static {
    fn step(&mut self, beta: f64) -> String;
    fn snapshot(&self) -> String;
    fn nontrivial(&self) -> bool;
}

impl Sampler for G {
    fn step(&mut self, beta: f64) -> String {
        let e = self.timesteps(1, beta);
        format!(
            "{} {} n={} c={} e={} rvb={} ok={}",
            bits(self.state_ref()),
            show_slots(self.get_manager_ref()),
            self.get_n(),
            self.get_cutoff(),
            e.to_bits(),
            self.rvb_success_rate().to_bits(),
            self.verify()
        )
    }
    fn snapshot(&self) -> String {
        serde_json::to_string(self).unwrap()
    }
    fn nontrivial(&self) -> bool {
        self.get_n() > 0
    }
}

impl Sampler for Q {
    fn step(&mut self, beta: f64) -> String {
        let e = self.timesteps(1, beta);
        format!(
            "{} {} n={} c={} e={}",
            bits(self.state_ref()),
            show_slots(self.get_manager_ref()),
            self.get_n(),
            self.get_cutoff(),
            e.to_bits()
        )
    }
    fn snapshot(&self) -> String {
        serde_json::to_string(self).unwrap()
    }
    fn nontrivial(&self) -> bool {
        self.get_n() > 0
    }
}

/// classical sampler: one `do_time_step`; the snapshot is state + energy + the next RNG words of a clone
#[derive(Clone)]
struct Classical(GraphState<SplitMix64>);
impl Sampler for Classical {
    fn step(&mut self, beta: f64) -> String {
        self.0.do_time_step(beta, None, None, None, None).unwrap();
        format!("{} e={}", bits(self.0.state_ref()), self.0.get_energy().to_bits())
    }
    fn snapshot(&self) -> String {
        format!("{} e={} dbg={:?}", bits(self.0.state_ref()), self.0.get_energy().to_bits(), self.0)
    }
    fn nontrivial(&self) -> bool {
        true
    }
}

/// twin runs: same inputs, same seed; one on this thread, one on a fresh OS thread, one after the other
fn twin<S: Sampler>(build: impl Fn() -> S + Send + Sync + Clone + 'static, beta: f64, t: usize) -> Result<bool, String> {
    let run = move |build: &dyn Fn() -> S| -> (Vec<String>, String, bool) {
        let mut s = build();
        let seq: Vec<String> = (0..t).map(|_| s.step(beta)).collect();
        let nt = s.nontrivial();
        (seq, s.snapshot(), nt)
    };
    let a = run(&build);
    let b2 = build.clone();
    let b = std::thread::spawn(move || {
        // pollute this thread's ambient state a little before running: another sampler with a different seed
        let run = move |build: &dyn Fn() -> S| -> (Vec<String>, String, bool) {
            let mut s = build();
            let seq: Vec<String> = (0..t).map(|_| s.step(beta)).collect();
            let nt = s.nontrivial();
            (seq, s.snapshot(), nt)
        };
        run(&b2)
    })
    .join()
    .map_err(|_| "twin thread panicked".to_string())?;
    let c = run(&build);
    for (name, x) in [("other-thread", &b), ("second-run", &c)] {
        for (i, (p, q)) in a.0.iter().zip(x.0.iter()).enumerate() {
            if p != q {
                return Err(format!("{}: step {} differs: {} vs {}", name, i + 1, p, q));
            }
        }
        if a.1 != x.1 {
            return Err(format!("{}: final snapshots differ", name));
        }
    }
    Ok(a.2)
}

/// clone at step k: identical, independent, continues like the original and like an uninterrupted run
fn clone_at<S: Sampler>(build: impl Fn() -> S, beta: f64, k: usize, j: usize) -> Result<bool, String> {
    let mut orig = build();
    for _ in 0..k {
        orig.step(beta);
    }
    let before = orig.snapshot();
    let mut c = orig.clone();
    if c.snapshot() != before {
        return Err(format!("clone at k={} differs from the original", k));
    }
    let cseq: Vec<String> = (0..j).map(|_| c.step(beta)).collect();
    if orig.snapshot() != before {
        return Err(format!("stepping the clone (taken at k={}) changed the original", k));
    }
    let c_after = c.snapshot();
    let oseq: Vec<String> = (0..j).map(|_| orig.step(beta)).collect();
    if c.snapshot() != c_after {
        return Err(format!("stepping the original changed the clone (taken at k={})", k));
    }
    for (i, (p, q)) in oseq.iter().zip(cseq.iter()).enumerate() {
        if p != q {
            return Err(format!("clone at k={}: step k+{} differs: original {} vs clone {}", k, i + 1, p, q));
        }
    }
    if orig.snapshot() != c_after {
        return Err(format!("clone at k={}: snapshots after {} further steps differ", k, j));
    }
    // uninterrupted reference
    let mut r = build();
    let mut rseq = vec![];
    for i in 0..k + j {
        let o = r.step(beta);
        if i >= k {
            rseq.push(o);
        }
    }
    if rseq != oseq || r.snapshot() != c_after {
        return Err(format!("having been cloned at k={} changed the original's continuation", k));
    }
    Ok(orig.nontrivial())
}


/// `dst.clone_from(&src)`: afterwards dst must be what `src.clone()` is — whatever dst was before (larger / smaller /
/// equal cutoff, more / fewer ops, other options, even another model) — and continue exactly like it; src untouched.
fn clone_from_case<S: Sampler>(build_src: impl Fn() -> S, build_dst: impl Fn() -> S, beta: f64, ks: usize, kd: usize, j: usize) -> Result<bool, String> {
    let mut src = build_src();
    for _ in 0..ks {
        src.step(beta);
    }
    let mut dst = build_dst();
    for _ in 0..kd {
        dst.step(beta);
    }
    let before = src.snapshot();
    dst.clone_from(&src);
    let mut reference = src.clone();
    if src.snapshot() != before {
        return Err("clone_from changed its source".into());
    }
    if dst.snapshot() != reference.snapshot() {
        return Err(format!("after dst.clone_from(&src) (src stepped {}, dst stepped {} before) dst differs from src.clone()", ks, kd));
    }
    for i in 0..j {
        let (a, b) = (dst.step(beta), reference.step(beta));
        if a != b {
            return Err(format!("clone_from copy (src stepped {}, dst stepped {} before) leaves src.clone() at step +{}: {} vs {}", ks, kd, i + 1, a, b));
        }
    }
    if dst.snapshot() != reference.snapshot() {
        return Err("snapshots differ after the continuation".into());
    }
    let mut o = src;
    for i in 0..j {
        o.step(beta);
        let _ = i;
    }
    if o.snapshot() != reference.snapshot() {
        return Err("the source's own continuation differs from its clone's".into());
    }
    Ok(reference.nontrivial())
}

// ------------------------------------------------------------------------------------------------
// tempering containers
// ------------------------------------------------------------------------------------------------
#[derive(Clone, Debug)]
struct TCfg {
    base: Cfg,
    replicas: Vec<(f64, f64, f64)>,
    seed: u64,
}

impl TCfg {
    fn show(&self) -> String {
        let r: Vec<String> = self.replicas.iter().map(|(b, sj, sg)| format!("{}:{}:{}", rat(*b), rat(*sj), rat(*sg))).collect();
        format!("{} replicas={} cseed={}", self.base.show(), r.join(","), self.seed)
    }
    fn build(&self) -> TC {
        let mut tc: TC = TemperingContainer::new(SplitMix64::new(self.seed));
        for (i, (beta, sj, sg)) in self.replicas.iter().enumerate() {
            let mut c = self.base.clone();
            c.edges.iter_mut().for_each(|(_, j)| *j *= sj);
            c.transverse *= sg;
            c.seed = self.base.seed.wrapping_add(1000 * (i as u64 + 1));
            tc.add_qmc_stepper(c.build(), *beta).unwrap();
        }
        tc
    }
}

fn gen_tcfg(gen: &mut SplitMix64, i: usize, thorough: bool, nrep: Option<usize>) -> TCfg {
    let mut base = gen_cfg(gen, i, thorough);
    base.cutoff = *gen.pick(&[1usize, 2, 5]);
    let nrep = nrep.unwrap_or_else(|| 2 + gen.below(if thorough { 9 } else { 6 }) as usize);
    let same_ham = gen.chance(1, 3);
    let replicas = (0..nrep)
        .map(|_| {
            // very different betas => very different work per replica => uneven task lengths in the pool
            let beta = *gen.pick(&[0.25, 0.5, 1.0, 2.0, 4.0, 8.0]);
            if same_ham {
                (beta, 1.0, 1.0)
            } else {
                (beta, *gen.pick(&[0.5, 1.0, 1.5]), *gen.pick(&[0.5, 1.0, 2.0]))
            }
        })
        .collect();
    TCfg { base, replicas, seed: gen.next() }
}

fn obs_tc(tc: &TC) -> String {
    let mut out: Vec<String> = tc
        .graph_ref()
        .iter()
        .map(|(g, beta)| {
            format!(
                "{} {} n={} c={} beta={} rvb={} ok={}",
                bits(g.state_ref()),
                show_slots(g.get_manager_ref()),
                g.get_n(),
                g.get_cutoff(),
                rat(*beta),
                g.rvb_success_rate().to_bits(),
                g.verify()
            )
        })
        .collect();
    out.push(format!("swaps={}", tc.get_total_swaps()));
    out.push(serde_json::to_string(tc).unwrap());
    out.join(" # ")
}

fn enc_ret(v: &[(Vec<Vec<bool>>, f64)]) -> String {
    v.iter()
        .map(|(ss, e)| format!("{}@{}", ss.iter().map(|s| bits(s)).collect::<Vec<_>>().join("/"), e.to_bits()))
        .collect::<Vec<_>>()
        .join(";")
}

/// one "program" run on a container: a mix of all drivers; `par` selects the rayon versions
fn program(tc: &mut TC, par: bool, prog: &[(u8, usize, usize, usize)]) -> Vec<String> {
    let mut out = vec![];
    for (op, a, b, c) in prog {
        match (op, par) {
            (0, false) => out.push(enc_ret(&tc.timesteps_sample(*a, *b, *c))),
            (0, true) => out.push(enc_ret(&tc.parallel_timesteps_sample(*a, *b, *c))),
            (1, false) => tc.tempering_step(),
            (1, true) => tc.parallel_tempering_step(),
            (_, false) => tc.timesteps(*a),
            (_, true) => tc.parallel_timesteps(*a),
        }
        out.push(obs_tc(tc));
    }
    out
}

fn gen_prog(gen: &mut SplitMix64, len: usize) -> Vec<(u8, usize, usize, usize)> {
    (0..len)
        .map(|_| match gen.below(4) {
            0 | 1 => (0u8, 1 + gen.below(8) as usize, 1 + gen.below(3) as usize, 1 + gen.below(3) as usize),
            2 => (1u8, 0, 0, 0),
            _ => (2u8, 1 + gen.below(3) as usize, 0, 0),
        })
        .collect()
}

fn show_prog(p: &[(u8, usize, usize, usize)]) -> String {
    p.iter()
        .map(|(op, a, b, c)| match op {
            0 => format!("S{}.{}.{}", a, b, c),
            1 => "T".to_string(),
            _ => format!("N{}", a),
        })
        .collect::<Vec<_>>()
        .join(",")
}

fn first_diff(a: &[String], b: &[String]) -> Option<String> {
    for (i, (x, y)) in a.iter().zip(b.iter()).enumerate() {
        if x != y {
            // keep the message short: the first differing ' # ' component
            let xs: Vec<&str> = x.split(" # ").collect();
            let ys: Vec<&str> = y.split(" # ").collect();
            for (j, (p, q)) in xs.iter().zip(ys.iter()).enumerate() {
                if p != q {
                    let cut = |s: &str| s.chars().take(160).collect::<String>();
                    return Some(format!("output {} component {}: {} vs {}", i, j, cut(p), cut(q)));
                }
            }
            return Some(format!("output {} differs", i));
        }
    }
    None
}

const GAMMA: u64 = 0x9E3779B97F4A7C15;
/// number of words drawn from a SplitMix64 between two states
fn draws_between(before: u64, after: u64) -> Option<u64> {
    (0..10_000u64).find(|i| before.wrapping_add(i.wrapping_mul(GAMMA)) == after)
}

fn container_rng_state(tc: &TC) -> u64 {
    let v: serde_json::Value = serde_json::to_value(tc).unwrap();
    v["rng"]["s"].as_u64().unwrap()
}

fn main() {
    let a = args();
    quiet_panics();
    let mut gen = SplitMix64::new(a.seed ^ 0xC13);
    let (ncfg, t, ks) = if a.thorough { (60usize, 60usize, 12usize) } else { (20, 25, 5) };

    // ---------------- twin runs and clones of the three sampler kinds ----------------
    for i in 0..ncfg {
        let cfg = gen_cfg(&mut gen, i, a.thorough);
        let loops = i % 2 == 0;
        let beta = cfg.beta;
        let verdict = |r: Result<Result<bool, String>, String>| -> (bool, Result<(), String>) {
            match r {
                Ok(Ok(nt)) => (nt, Ok(())),
                Ok(Err(e)) => (true, Err(e)),
                Err(p) => (true, Err(format!("panic: {}", p))),
            }
        };
        let out = |v: &Result<(), String>| if v.is_ok() { "same" } else { "diff" };

        let c1 = cfg.clone();
        let (nt, v) = verdict(catch(|| twin(move || c1.build(), beta, t)));
        emit(nt, &format!("twin-ising {} t={}", cfg.show(), t), out(&v), Some(v));
        let c1 = cfg.clone();
        let (nt, v) = verdict(catch(|| twin(move || c1.build_generic(loops), beta, t)));
        emit(nt, &format!("twin-generic loops={} {} t={}", loops as u8, cfg.show(), t), out(&v), Some(v));
        let c1 = cfg.clone();
        let (nt, v) = verdict(catch(|| twin(move || Classical(c1.build_classical()), beta, t)));
        emit(nt, &format!("twin-classical {} t={}", cfg.show(), t), out(&v), Some(v));

        for _ in 0..ks {
            let k = gen.below(t as u64) as usize;
            let j = 1 + gen.below(12) as usize;
            let (nt, v) = verdict(catch(|| clone_at(|| cfg.build(), beta, k, j)));
            emit(nt, &format!("clone-ising {} k={} j={}", cfg.show(), k, j), out(&v), Some(v));
            let (nt, v) = verdict(catch(|| clone_at(|| cfg.build_generic(loops), beta, k, j)));
            emit(nt, &format!("clone-generic loops={} {} k={} j={}", loops as u8, cfg.show(), k, j), out(&v), Some(v));
            let (nt, v) = verdict(catch(|| clone_at(|| Classical(cfg.build_classical()), beta, k, j)));
            emit(nt, &format!("clone-classical {} k={} j={}", cfg.show(), k, j), out(&v), Some(v));
        }
    }
    // clone_from: destination with larger / smaller / equal history, other options, other model
    let ncf = if a.thorough { 24 } else { 8 };
    for i in 0..ncf {
        let mut cfg = gen_cfg(&mut gen, 8 + i, a.thorough);
        cfg.cutoff = 1 + (i % 3); // small initial cutoff: the string outgrows it while stepping
        cfg.beta = 4.0;
        let other = gen_cfg(&mut gen, i, a.thorough);
        let loops = i % 2 == 0;
        let beta = cfg.beta;
        let verdict = |r: Result<Result<bool, String>, String>| -> (bool, Result<(), String>) {
            match r {
                Ok(Ok(nt)) => (nt, Ok(())),
                Ok(Err(e)) => (true, Err(e)),
                Err(p) => (true, Err(format!("panic: {}", p))),
            }
        };
        let out = |v: &Result<(), String>| if v.is_ok() { "same" } else { "diff" };
        // (src steps, dst steps): dst further along (larger cutoff, more ops), behind, equal, fresh
        for (ks, kd) in [(3usize, 25usize), (25, 3), (10, 10), (12, 0), (0, 12)] {
            for variant in 0..3usize {
                // 0: same model other seed; 1: options toggled (rvb / heat bath); 2: a different model
                let mut dcfg = match variant {
                    0 => cfg.clone(),
                    1 => {
                        let mut d = cfg.clone();
                        d.rvb = !d.rvb;
                        d.heatbath = !d.heatbath;
                        d
                    }
                    _ => other.clone(),
                };
                dcfg.seed = dcfg.seed.wrapping_add(77);
                let (c1, d1) = (cfg.clone(), dcfg.clone());
                let (nt, v) = verdict(catch(|| clone_from_case(|| c1.build(), || d1.build(), beta, ks, kd, 8)));
                emit(nt, &format!("clonefrom-ising {} ks={} kd={} dst={} dstcfg={}", cfg.show(), ks, kd, variant, dcfg.show()), out(&v), Some(v));
                let (c1, d1) = (cfg.clone(), dcfg.clone());
                let (nt, v) = verdict(catch(|| clone_from_case(|| c1.build_generic(loops), || d1.build_generic(!loops || variant == 0), beta, ks, kd, 8)));
                emit(nt, &format!("clonefrom-generic loops={} {} ks={} kd={} dst={} dstcfg={}", loops as u8, cfg.show(), ks, kd, variant, dcfg.show()), out(&v), Some(v));
                if variant == 0 {
                    let (c1, d1) = (cfg.clone(), dcfg.clone());
                    let (nt, v) = verdict(catch(|| clone_from_case(|| Classical(c1.build_classical()), || Classical(d1.build_classical()), beta, ks, kd, 8)));
                    emit(nt, &format!("clonefrom-classical {} ks={} kd={}", cfg.show(), ks, kd), out(&v), Some(v));
                }
            }
        }
    }
    stat("clonefrom.configs", ncf);
    stat("samplers.configs", ncfg);

    // ---------------- tempering containers: twins, clones, serial vs rayon pools ----------------
    let ntc = if a.thorough { 40 } else { 12 };
    let pools: Vec<usize> = if a.thorough { (1..=16).collect() } else { vec![1, 2, 3, 4, 7, 16] };
    let reps = if a.thorough { 4 } else { 2 };
    let mut pool_runs = 0u64;
    let mut max_swaps = 0u64;
    for i in 0..ntc {
        let cfg = gen_tcfg(&mut gen, i, a.thorough, None);
        let prog = gen_prog(&mut gen, if a.thorough { 10 } else { 6 });
        let ps = show_prog(&prog);

        // serial reference
        let reference = catch(|| {
            let mut tc = cfg.build();
            let r = program(&mut tc, false, &prog);
            (r, tc.get_total_swaps(), tc.graph_ref().iter().any(|(g, _)| g.get_n() > 0))
        });
        let (refout, swaps, nt) = match reference {
            Ok(x) => x,
            Err(p) => {
                emit(true, &format!("twin-temper {} prog={}", cfg.show(), ps), "diff", Some(Err(format!("panic: {}", p))));
                continue;
            }
        };
        max_swaps = max_swaps.max(swaps);

        // twin (second serial run, on another thread)
        let c2 = cfg.clone();
        let p2 = prog.clone();
        let twin_out = std::thread::spawn(move || {
            let mut tc = c2.build();
            program(&mut tc, false, &p2)
        })
        .join();
        let v = match twin_out {
            Ok(o) => match first_diff(&refout, &o) {
                None => Ok(()),
                Some(d) => Err(d),
            },
            Err(_) => Err("twin thread panicked".to_string()),
        };
        emit(nt, &format!("twin-temper {} prog={}", cfg.show(), ps), if v.is_ok() { "same" } else { "diff" }, Some(v));

        // clone of the container after a prefix of the program
        let cut = 1 + gen.below(prog.len() as u64 - 1) as usize;
        let v = catch(|| {
            let mut tc = cfg.build();
            let _ = program(&mut tc, false, &prog[..cut]);
            let before = obs_tc(&tc);
            let mut c = tc.clone();
            if obs_tc(&c) != before {
                return Err("container clone differs from the original".to_string());
            }
            let co = program(&mut c, false, &prog[cut..]);
            if obs_tc(&tc) != before {
                return Err("running the cloned container changed the original".to_string());
            }
            let oo = program(&mut tc, false, &prog[cut..]);
            if let Some(d) = first_diff(&oo, &co) {
                return Err(format!("clone vs original: {}", d));
            }
            if let Some(d) = first_diff(&oo, &refout[refout.len() - oo.len()..]) {
                return Err(format!("cloned original vs uninterrupted run: {}", d));
            }
            Ok(())
        })
        .unwrap_or_else(|p| Err(format!("panic: {}", p)));
        emit(nt, &format!("clone-temper {} prog={} cut={}", cfg.show(), ps, cut), if v.is_ok() { "same" } else { "diff" }, Some(v));

        // serial vs rayon, every pool size, repeated
        for &threads in &pools {
            for rep in 0..reps {
                let v = catch(|| {
                    let pool = rayon::ThreadPoolBuilder::new().num_threads(threads).build().unwrap();
                    let mut tc = cfg.build();
                    let o = pool.install(|| program(&mut tc, true, &prog));
                    match first_diff(&refout, &o) {
                        None => Ok(()),
                        Some(d) => Err(d),
                    }
                })
                .unwrap_or_else(|p| Err(format!("panic: {}", p)));
                pool_runs += 1;
                emit(
                    nt,
                    &format!("pool threads={} rep={} {} prog={}", threads, rep, cfg.show(), ps),
                    if v.is_ok() { "same" } else { "diff" },
                    Some(v),
                );
            }
        }
    }
    // container clone_from (TemperingContainer derives Clone; clone_from = the default through clone)
    for i in 0..(if a.thorough { 8 } else { 3 }) {
        let cfg = gen_tcfg(&mut gen, i, a.thorough, None);
        let mut dcfg = gen_tcfg(&mut gen, i + 1, a.thorough, None);
        dcfg.base = cfg.base.clone();
        let prog = gen_prog(&mut gen, 4);
        let v = catch(|| {
            let mut src = cfg.build();
            let _ = program(&mut src, false, &prog[..2]);
            let mut dst = dcfg.build();
            let _ = program(&mut dst, false, &prog);
            let before = obs_tc(&src);
            dst.clone_from(&src);
            let mut reference = src.clone();
            if obs_tc(&src) != before {
                return Err("container clone_from changed its source".to_string());
            }
            if obs_tc(&dst) != obs_tc(&reference) {
                return Err("container after clone_from differs from src.clone()".to_string());
            }
            let a = program(&mut dst, false, &prog[2..]);
            let b = program(&mut reference, false, &prog[2..]);
            match first_diff(&a, &b) {
                None => Ok(()),
                Some(d) => Err(format!("container clone_from copy vs src.clone(): {}", d)),
            }
        })
        .unwrap_or_else(|p| Err(format!("panic: {}", p)));
        emit(true, &format!("clonefrom-temper {} prog={}", cfg.show(), show_prog(&prog)), if v.is_ok() { "same" } else { "diff" }, Some(v));
    }

    // long ladders: 70 and 130 replicas of a tiny system, several tempering steps, serial vs rayon
    for (li, nrep) in [70usize, 130, 67].iter().enumerate() {
        let mut cfg = gen_tcfg(&mut gen, 8 + li, false, Some(*nrep));
        cfg.base.edges = vec![((0, 1), 1.0), ((1, 2), -0.5)];
        cfg.base.rvb = false;
        cfg.base.heatbath = li == 1;
        cfg.base.longitudinal = 0.0;
        // a smooth ladder so that neighbouring pairs all over the ladder do exchange
        cfg.replicas = (0..*nrep).map(|i| (0.5 + (i as f64) / 16.0, 1.0, 1.0)).collect();
        let prog: Vec<(u8, usize, usize, usize)> = vec![(2, 2, 0, 0), (1, 0, 0, 0), (1, 0, 0, 0), (0, 4, 1, 2), (1, 0, 0, 0), (0, 3, 1, 1)];
        let ps = show_prog(&prog);
        let reference = catch(|| {
            let mut tc = cfg.build();
            let r = program(&mut tc, false, &prog);
            (r, tc.get_total_swaps())
        });
        match reference {
            Err(p) => emit(true, &format!("ladder replicas={} prog={}", nrep, ps), "diff", Some(Err(format!("panic: {}", p)))),
            Ok((refout, swaps)) => {
                stat(&format!("ladder.{}.total_swaps", nrep), swaps);
                for threads in [1usize, 4, 9] {
                    let v = catch(|| {
                        let pool = rayon::ThreadPoolBuilder::new().num_threads(threads).build().unwrap();
                        let mut tc = cfg.build();
                        let o = pool.install(|| program(&mut tc, true, &prog));
                        match first_diff(&refout, &o) {
                            None => Ok(()),
                            Some(d) => Err(d),
                        }
                    })
                    .unwrap_or_else(|p| Err(format!("panic: {}", p)));
                    emit(true, &format!("ladder replicas={} threads={} cseed={} prog={}", nrep, threads, cfg.seed, ps), if v.is_ok() { "same" } else { "diff" }, Some(v));
                }
            }
        }
    }
    stat("temper.configs", ntc);
    stat("temper.pool_runs", pool_runs);
    stat("temper.max_total_swaps", max_swaps);

    // ---------------- container-RNG draw counts of one tempering step (model: Appendix A row) ----------------
    for nrep in 1..=(if a.thorough { 9 } else { 6 }) {
        let cfg = gen_tcfg(&mut gen, 0, a.thorough, Some(nrep));
        let mut s = cfg.build();
        let mut p = cfg.build();
        s.timesteps(3);
        p.timesteps(3);
        let (s0, p0) = (container_rng_state(&s), container_rng_state(&p));
        s.tempering_step();
        let pool = rayon::ThreadPoolBuilder::new().num_threads(3).build().unwrap();
        pool.install(|| p.parallel_tempering_step());
        let ds = draws_between(s0, container_rng_state(&s));
        let dp = draws_between(p0, container_rng_state(&p));
        let show = |d: Option<u64>| d.map(|x| x.to_string()).unwrap_or_else(|| "?".into());
        // oracle: replicas and swap count agree between serial and parallel; complete state (container RNG, caches,
        // slot-array padding) agrees iff >= 2 replicas.  With ONE replica the serial step returns at once while the
        // parallel one fills the (empty) caches, calls set_op_cutoff(own cutoff) — which may pad the manager's slot
        // array up to the sampler's cutoff, unobservable — and draws one word: compare what the API can observe.
        let loose = |tc: &TC| -> String {
            tc.graph_ref()
                .iter()
                .map(|(g, beta)| {
                    let slots = show_slots(g.get_manager_ref());
                    let ops = slots.splitn(2, ':').nth(1).unwrap_or("").to_string();
                    format!("{} {} n={} c={} beta={} ok={}", bits(g.state_ref()), ops, g.get_n(), g.get_cutoff(), rat(*beta), g.verify())
                })
                .collect::<Vec<_>>()
                .join(" # ")
                + &format!(" swaps={}", tc.get_total_swaps())
        };
        let verdict = if loose(&s) != loose(&p) {
            Err("replicas / swap count differ between serial and parallel tempering step".to_string())
        } else if obs_tc(&s) != obs_tc(&p) {
            // every number of replicas, ONE included: since fix f20b8b5 (finding F30) the rayon step returns early for
            // <= 1 replica like the serial one; before, it drew the phase-order word with one replica, and a container
            // that later received a second replica made different swap decisions under the two drivers
            Err("container state (RNG / caches) differs between serial and parallel tempering step".to_string())
        } else {
            // and the next sampling run returns the same from both
            let rs = enc_ret(&s.timesteps_sample(4, 2, 1));
            let rp = enc_ret(&pool.install(|| p.parallel_timesteps_sample(4, 2, 1)));
            if rs != rp {
                Err(format!("timesteps_sample returns differ afterwards: {} vs {}", rs, rp))
            } else {
                Ok(())
            }
        };
        emit(nrep >= 2, &format!("draws {}", nrep), &format!("{} {}", show(ds), show(dp)), Some(verdict));
    }
}
