//! C05 — parallel tempering keeps every replica at its own thermal distribution.
//!
//! The Lean side proves that the product law is invariant under the exchange kernel with the
//! acceptance `min(1, W_a(C_b) W_b(C_a) / (W_a(C_a) W_b(C_b)))`, under the even/odd phases, their
//! ½-mixture, and any interleaving with per-replica kernels. This harness ties those kernels to the
//! real drivers:
//!  * histories: the real `timesteps_sample` (serial) and `parallel_timesteps_sample` (rayon) on
//!    clones, versus a manual interleaving `timesteps(t)` / `tempering_step()` at the C17 cadence;
//!    all three must end in the same state with the same returned samples/energies and the same
//!    container-RNG consumption → the drivers *are* interleavings of the replicas' own steps and
//!    tempering steps;
//!  * every tempering step inside the manual history is a C10 case (`sw` / `psw`): the exchange
//!    decisions, measured probabilities (bisected on a subset of the steps), after-states and counters
//!    are compared with the model, on ladders of 2..8 replicas with β / Hamiltonian / mixed ladders,
//!    RVB, heat-bath and longitudinal fields.
//!  * parladder: mixed ladders of 2..11 replicas, serial driver vs rayon driver inside explicit k-worker pools; every exchange
//!    decision of both drivers is judged against the exact ratio recomputed from the two operator strings and the pair's own uniform.
//! Oracle: model-independent (real code vs real code, and the f64 Metropolis ratio from `get_pth`).

#[path = "c10.rs"]
#[allow(dead_code)]
mod c10;
use c10::*;
use qmc::sse::parallel_tempering::*;
use qmc::sse::*;
use vh::*;

fn final_digest<Q: Rep>(tc: &TC<Q>) -> String {
    let s = snaps(tc);
    s.iter()
        .map(|x| format!("{}/{}/{}/{}/{}", x.sampler_cutoff, x.mgr_cutoff, bits(&x.state), x.slots, x.tag))
        .collect::<Vec<_>>()
        .join("|")
}

/// One history on `tc` (consumed): manual interleaving with C10 cases at every tempering step,
/// then the two real drivers on clones of the initial container with the same container words.
fn history<Q: Rep>(tc0: TC<Q>, g: &mut SplitMix64, t_total: usize, sf: usize, mf: usize, bisect_every: usize) {
    let n = tc0.num_graphs();
    let kind = Q::KIND;
    let input = format!("hist {} {} {} {} {}", kind, n, t_total, sf, mf);
    // ---- manual interleaving (B) ----
    let mut b = tc0.clone();
    let blog = new_log();
    set_log(&mut b, &blog);
    let mut words_all: Vec<u64> = vec![];
    let mut samples_b: Vec<Vec<Vec<bool>>> = vec![vec![]; n];
    let mut energy_b = vec![0.0f64; n];
    let (mut remaining, mut tsw, mut tsa) = (t_total, sf, mf);
    let mut nsw = 0usize;
    let mut hist = hist_of(n);
    let mut failed: Option<String> = None;
    while remaining > 0 {
        let t = tsa.min(tsw).min(remaining);
        // `timesteps_sample` accumulates te * t per replica
        let r = catch(|| {
            b.graph_mut()
                .iter_mut()
                .map(|(q, beta)| q.timesteps(t, *beta))
                .collect::<Vec<f64>>()
        });
        match r {
            Ok(es) => {
                for (e, acc) in es.iter().zip(energy_b.iter_mut()) {
                    *acc += e * t as f64;
                }
            }
            Err(e) => {
                failed = Some(format!("time steps panicked: {}", e));
                break;
            }
        }
        tsa -= t;
        tsw -= t;
        remaining -= t;
        if tsw == 0 {
            let bis = bisect_every > 0 && nsw % bisect_every == 0;
            match step_case(&b, g.next(), bis, &mut hist) {
                Ok((next, words)) => {
                    b = next;
                    let l2 = new_log();
                    set_log(&mut b, &l2);
                    words_all.extend(words);
                }
                Err(e) => {
                    failed = Some(format!("tempering step panicked: {}", e));
                    break;
                }
            }
            nsw += 1;
            tsw = sf;
        }
        if tsa == 0 {
            for (s, (q, _)) in samples_b.iter_mut().zip(b.graph_ref().iter()) {
                s.push(q.state_ref().to_vec());
            }
            tsa = mf;
        }
    }
    if let Some(m) = failed {
        // a panic inside the replicas' own updates is not this property's subject; report it as a stat,
        // a panic inside the tempering step is a failure
        if m.starts_with("tempering") {
            emit(true, &input, "panic", Some(Err(m)));
        } else {
            stat("hist.replica_update_panicked", 1);
        }
        return;
    }
    let energy_b: Vec<f64> = energy_b.iter().map(|e| e / t_total as f64).collect();
    // ---- the real serial driver (A) and the rayon driver (C) with the same container words ----
    let mut oracle: Result<(), String> = Ok(());
    let run = |par: bool| -> Result<(TC<Q>, Vec<(Vec<Vec<bool>>, f64)>, Vec<u64>), String> {
        let mut a = tc0.clone();
        let l = new_log();
        set_log(&mut a, &l);
        *a.rng_mut() = RecRng::scripted(words_all.clone(), 0xdead);
        let r = catch(|| {
            if par {
                a.parallel_timesteps_sample(t_total, sf, mf)
            } else {
                a.timesteps_sample(t_total, sf, mf)
            }
        })?;
        let w = a.rng_mut().take_log();
        Ok((a, r, w))
    };
    let want_digest = final_digest(&b);
    for par in [false, true] {
        let name = if par { "parallel_timesteps_sample" } else { "timesteps_sample" };
        match run(par) {
            Err(e) => {
                if oracle.is_ok() {
                    oracle = Err(format!("{} panicked: {}", name, e));
                }
            }
            Ok((a, ret, w)) => {
                let mut why = vec![];
                if n >= 2 && w != words_all {
                    why.push(format!("consumed {} container words, the interleaving consumed {}", w.len(), words_all.len()));
                }
                if final_digest(&a) != want_digest {
                    why.push("final ladder differs from the manual interleaving of time steps and tempering steps".to_string());
                }
                if a.get_total_swaps() != b.get_total_swaps() {
                    why.push(format!("total_swaps {} vs {}", a.get_total_swaps(), b.get_total_swaps()));
                }
                let st: Vec<&Vec<Vec<bool>>> = ret.iter().map(|(s, _)| s).collect();
                if st.len() != n || st.iter().zip(samples_b.iter()).any(|(x, y)| *x != y) {
                    why.push("returned samples differ".to_string());
                }
                if ret.iter().zip(energy_b.iter()).any(|((_, e), f)| (e - f).abs() > 1e-9 * f.abs().max(1.0)) {
                    why.push("returned energies differ".to_string());
                }
                if !why.is_empty() && oracle.is_ok() {
                    oracle = Err(format!("{}: {}", name, why.join("; ")));
                }
            }
        }
    }
    // ---- snapshot / restore of the ladder reached by the history, then lock-step with an in-memory twin ----
    {
        let reps: Vec<(Q, f64)> = b.graph_ref().iter().map(|(q, beta)| (q.q.clone(), *beta)).collect();
        let (t2, sf2, mf2) = (4 + g.below(6) as usize, 1 + g.below(3) as usize, 1 + g.below(3) as usize);
        if let Some(r) = Q::ladder_snapshot_lockstep(&reps, g.next(), t2, sf2, mf2) {
            let heat = reps.iter().filter(|(q, _)| q.json().get("bond_weights").map(|b| !b.is_null()).unwrap_or(false)).count();
            stat("snap.ladders", 1);
            stat("snap.heatbath_replicas", heat as u64);
            let sin = format!("hist snap-{} {} {} {} {}", kind, n, t2, sf2, mf2);
            match r {
                Ok((nsw2, ns2)) => emit(true, &sin, &format!("{} {}", nsw2, ns2), Some(Ok(()))),
                Err(m) => emit(true, &sin, &format!("{} {}", t2 / sf2, t2 / mf2), Some(Err(m))),
            }
        }
    }
    let nsamples = samples_b.first().map(|s| s.len()).unwrap_or(t_total / mf);
    stat(&format!("hist.{}.replicas_{}", kind, n), 1);
    stat("hist.tempering_steps", nsw);
    stat("hist.total_swaps", b.get_total_swaps());
    emit(nsw > 0, &input, &format!("{} {}", nsw, nsamples), Some(oracle));
}

fn mode_histories(seed: u64, thorough: bool) {
    let mut g = SplitMix64::new(seed ^ 0xc05);
    let ladders = if thorough { 700 } else { 126 };
    for l in 0..ladders {
        let n = 2 + (l % 7) as usize;
        let kind = g.below(8); // incl. opposite-sign twin edges + RVB (6) and h = 0 / h > 0 mixes (7); no small units: the real drivers go through `timestep`
        let specs = ising_ladder(&mut g, n, kind, true);
        let log = new_log();
        let mut tc = match build_ising(&mut g, &specs, &log) {
            Ok(t) => t,
            Err(_) => {
                stat("hist.ladder_rejected", 1);
                continue;
            }
        };
        stat(&format!("hist.ladder_kind_{}", kind), 1);
        if specs.iter().any(|s| s.rvb) {
            stat("hist.with_rvb", 1);
        }
        if specs.iter().any(|s| s.heatbath) {
            stat("hist.with_heatbath", 1);
        }
        if specs.iter().any(|s| s.h != 0.0) {
            stat("hist.with_longitudinal", 1);
        }
        if equilibrate(&mut tc, &mut g).is_err() {
            stat("hist.equilibration_panicked", 1);
            continue;
        }
        if g.chance(1, 4) {
            grow_managers_by_hand(&mut tc, &mut g);
        }
        let t_total = 4 + g.below(if thorough { 24 } else { 12 }) as usize;
        let sf = 1 + g.below(5) as usize;
        let mf = 1 + g.below(5) as usize;
        history(tc, &mut g, t_total, sf, mf, 2);
    }
    // generic replicas (beta ladders; the container refuses anything else)
    let gl = if thorough { 140 } else { 28 };
    for l in 0..gl {
        let n = 2 + (l % 7) as usize;
        let nvars = 2 + g.below(2) as usize;
        let ham = random_gen_ham(&mut g, nvars);
        let loops = g.coin();
        let heat = g.chance(1, 3);
        let reps: Result<Vec<(GenQ, f64)>, String> = (0..n)
            .map(|_| {
                let s = GenSpec { nvars, inters: ham.clone(), beta: g.range(1, 10) as f64 / 4.0, loops, heatbath: heat };
                make_gen(&s, g.next()).map(|q| (q, s.beta))
            })
            .collect();
        let reps = match reps {
            Ok(r) => r,
            Err(_) => continue,
        };
        let log = new_log();
        let mut tc = match build(reps, &log) {
            Ok(t) => t,
            Err(_) => continue,
        };
        if equilibrate(&mut tc, &mut g).is_err() {
            continue;
        }
        let t_total = 4 + g.below(10) as usize;
        let sf = 1 + g.below(4) as usize;
        let mf = 1 + g.below(4) as usize;
        history(tc, &mut g, t_total, sf, mf, 3);
    }
}


// ------------------------------------------------------------------------------------------
// Generic replicas with loop updates: XXZ ring with Ising anisotropy (non-zero bounce weight)
// ------------------------------------------------------------------------------------------
use rand::{Error, RngCore};
use std::cell::RefCell;
use std::rc::Rc;

/// sampler RNG whose words stay readable from outside (the sampler owns its RNG)
struct SRng(Rc<RefCell<RecRng>>);
impl RngCore for SRng {
    fn next_u32(&mut self) -> u32 {
        self.0.borrow_mut().next_u32()
    }
    fn next_u64(&mut self) -> u64 {
        self.0.borrow_mut().next_u64()
    }
    fn fill_bytes(&mut self, dest: &mut [u8]) {
        self.0.borrow_mut().fill_bytes(dest)
    }
    fn try_fill_bytes(&mut self, dest: &mut [u8]) -> Result<(), Error> {
        self.0.borrow_mut().try_fill_bytes(dest)
    }
}

/// two-site XXZ matrix indexed by (outs ++ ins): aligned diagonal `al`, anti-aligned diagonal `an`, exchange `ex`
fn xxz_matrix(al: f64, an: f64, ex: f64) -> Vec<f64> {
    let mut m = vec![0.0; 16];
    m[0b0000] = al;
    m[0b1111] = al;
    m[0b0101] = an;
    m[0b1010] = an;
    m[0b0110] = ex;
    m[0b1001] = ex;
    m
}

fn xxz_calls(g: &mut SplitMix64, nsites: usize) -> Vec<(Vec<f64>, Vec<usize>)> {
    // Ising anisotropy: the anti-aligned diagonal weight exceeds the exchange
    let al = g.range(1, 2) as f64 / 4.0;
    let an = g.range(4, 7) as f64 / 4.0;
    let ex = g.range(1, 3) as f64 / 4.0;
    (0..nsites).map(|i| (xxz_matrix(al, an, ex), vec![i, (i + 1) % nsites])).filter(|(_, v)| v[0] != v[1]).collect()
}

fn calls_token(calls: &[(Vec<f64>, Vec<usize>)]) -> String {
    calls.iter().map(|(m, v)| format!("new:{}:{}", rats(m), list(v))).collect::<Vec<_>>().join("!")
}

/// Long directed loops, one at a time, on the real sampler with a recording RNG: every loop update of a cold
/// XXZ chain is checked for closed world lines; loops with many vertex visits (beyond any budget of the form
/// c * (op, variable) pairs + const for small c) are replayed exactly by the Lean loop model (driver drv_c04,
/// protocol line `loop <calls> <state> <slots> <words>`).
fn mode_loops(seed: u64, thorough: bool) {
    let mut g = SplitMix64::new(seed ^ 0x100b);
    let chains = if thorough { 12 } else { 4 };
    let sweeps = if thorough { 6000 } else { 2500 };
    for c in 0..chains {
        let nsites = 4 + (c % 2) as usize * 2;
        let calls = xxz_calls(&mut g, nsites);
        let tok = calls_token(&calls);
        let h = Rc::new(RefCell::new(RecRng::new(g.next())));
        let state: Vec<bool> = (0..nsites).map(|i| i % 2 == 0).collect();
        let mut q: Qmc<SRng, qmc::sse::fast_ops::FastOps> = Qmc::new_with_state(nsites, SRng(h.clone()), state, true);
        let mut bad = false;
        for (m, v) in &calls {
            if q.make_interaction(m.clone(), v.clone()).is_err() {
                bad = true;
            }
        }
        if bad {
            continue;
        }
        let beta = [1.5, 2.0, 3.0, 4.0][(c % 4) as usize];
        let mut emitted_long = 0;
        let mut max_visits = 0usize;
        let mut over_budget = 0u64;
        for sweep in 0..sweeps {
            if catch(|| {
                q.diagonal_update(beta);
                q.flip_free_bits();
            })
            .is_err()
            {
                stat("loops.diagonal_update_panicked", 1);
                break;
            }
            let before_state = q.state_ref().to_vec();
            let before_slots = show_slots(q.get_manager_ref());
            let pairs: usize = {
                let m = q.get_manager_ref();
                (0..m.get_cutoff()).filter_map(|p| m.get_pth(p).map(|o| o.get_vars().len())).sum()
            };
            h.borrow_mut().take_log();
            let r = catch(|| q.loop_update());
            let log = h.borrow_mut().take_log();
            let visits = log.len().saturating_sub(3);
            max_visits = max_visits.max(visits);
            let budget = 4 * pairs + 16;
            if visits > budget {
                over_budget += 1;
            }
            let after_state = q.state_ref().to_vec();
            let after_slots = show_slots(q.get_manager_ref());
            let cons = r.is_ok() && propagate_check(q.get_manager_ref(), &after_state).map(|f| f == after_state).unwrap_or(false);
            let long = visits > 3 * pairs + 8 && emitted_long < 25;
            if !cons || long || sweep % 500 == 499 {
                let input = format!("loop {} {} {} {}", tok, bits(&before_state), before_slots, list(&log));
                let oracle = if let Err(p) = &r {
                    Err(format!("loop_update panicked: {}", p))
                } else if !cons {
                    Err(format!(
                        "after a loop update of {} vertex visits on a string with {} (op, variable) pairs the world lines no longer close (sweep {}, beta {})",
                        visits, pairs, sweep, beta
                    ))
                } else {
                    Ok(())
                };
                emit(true, &input, &format!("{} {} ok c={} hyp=1", bits(&after_state), after_slots, cons as u8), Some(oracle));
                if long {
                    emitted_long += 1;
                }
            }
            if !cons {
                break;
            }
        }
        stat("loops.chains", 1);
        stat("loops.loops_beyond_4pairs_plus_16_visits", over_budget);
        stat(&format!("loops.max_visits_chain_{}", c), max_visits as u64);
    }
}

/// A beta ladder of XXZ replicas with loop updates on, many rounds of time step + tempering step; after EVERY
/// round every replica must have closed world lines and a legal string, so that no broken configuration can
/// travel through the ladder. Model: the final configurations are checked with the model's `Consistent`.
fn mode_xxz_ladder(seed: u64, thorough: bool) {
    let mut g = SplitMix64::new(seed ^ 0x1add);
    let ladders = if thorough { 6 } else { 2 };
    let rounds = if thorough { 30000 } else { 9000 };
    for l in 0..ladders {
        let nsites = 4 + 2 * (l % 2) as usize;
        let calls = xxz_calls(&mut g, nsites);
        let betas: Vec<f64> = if l % 2 == 0 { vec![0.5, 1.5, 4.0, 6.0] } else { vec![0.75, 1.5, 2.5, 4.0] };
        let inters: Vec<(bool, Vec<f64>, Vec<usize>)> = calls.iter().map(|(m, v)| (false, m.clone(), v.clone())).collect();
        let reps: Result<Vec<(GenQ, f64)>, String> = betas
            .iter()
            .map(|b| {
                let s = GenSpec { nvars: nsites, inters: inters.clone(), beta: *b, loops: true, heatbath: false };
                make_gen(&s, g.next()).map(|q| (q, *b))
            })
            .collect();
        let reps = match reps {
            Ok(r) => r,
            Err(_) => continue,
        };
        let log = new_log();
        let mut tc = match build(reps, &log) {
            Ok(t) => t,
            Err(_) => continue,
        };
        *tc.rng_mut() = RecRng::new(g.next());
        let check = |tc: &TC<GenQ>| -> Option<(usize, String)> {
            for (i, (q, _)) in tc.graph_ref().iter().enumerate() {
                let st = q.q.state_ref().to_vec();
                let closed = propagate_check(q.q.get_manager_ref(), &st).map(|f| f == st).unwrap_or(false);
                if !closed {
                    return Some((i, "world lines do not close".to_string()));
                }
                if let Err(m) = replica_sound(&q.q) {
                    return Some((i, m));
                }
            }
            None
        };
        let mut oracle: Result<(), String> = Ok(());
        for round in 0..rounds {
            if let Err(p) = catch(|| tc.timesteps(1)) {
                oracle = Err(format!("round {}: time step panicked: {}", round, p));
                break;
            }
            if let Some((i, why)) = check(&tc) {
                oracle = Err(format!("round {}: after the time steps, position {} (beta {}): {}", round, i, betas[i], why));
                break;
            }
            if round % 2 == 1 {
                if let Err(p) = catch(|| tc.tempering_step()) {
                    oracle = Err(format!("round {}: tempering step panicked: {}", round, p));
                    break;
                }
                if let Some((i, why)) = check(&tc) {
                    oracle = Err(format!("round {}: after the tempering step, position {}: {}", round, i, why));
                    break;
                }
            }
        }
        let finals: Vec<String> = tc.graph_ref().iter().map(|(q, _)| format!("{} {}", bits(q.q.state_ref()), q.q.slots())).collect();
        let closed: String = tc
            .graph_ref()
            .iter()
            .map(|(q, _)| {
                let st = q.q.state_ref().to_vec();
                if propagate_check(q.q.get_manager_ref(), &st).map(|f| f == st).unwrap_or(false) { '1' } else { '0' }
            })
            .collect();
        stat("xxz.ladders", 1);
        stat("xxz.total_swaps", tc.get_total_swaps());
        stat("xxz.max_n", tc.graph_ref().iter().map(|(q, _)| q.q.get_n()).max().unwrap_or(0) as u64);
        emit(true, &format!("cons {}", finals.join(" ")), &closed, Some(oracle));
    }
}

// ------------------------------------------------------------------------------------------
// parladder: mixed ladders, the serial driver versus the rayon driver inside explicit k-worker pools
// ------------------------------------------------------------------------------------------

/// the f64 `gen_range(0. ..1.0)` makes of one 64-bit word (rand 0.8: 52 mantissa bits)
fn uniform_of(w: u64) -> f64 {
    (w >> 12) as f64 / (1u64 << 52) as f64
}

/// Hamiltonian (edges, transverse, longitudinal, nvars) and beta of every position
fn ladder_params<Q: Rep>(tc: &TC<Q>) -> Vec<String> {
    tc.graph_ref().iter().map(|(s, b)| format!("{} beta={}", s.q.describe(), rat(*b))).collect()
}

fn first_digest_diff<Q: Rep>(a: &TC<Q>, b: &TC<Q>) -> Option<String> {
    let (sa, sb) = (snaps(a), snaps(b));
    if sa.len() != sb.len() {
        return Some(format!("{} vs {} replicas", sa.len(), sb.len()));
    }
    for (i, (x, y)) in sa.iter().zip(sb.iter()).enumerate() {
        let (nx, ny) = (a.graph_ref()[i].0.q.ops().len(), b.graph_ref()[i].0.q.ops().len());
        if x.state != y.state {
            return Some(format!("position {}: spin state {} vs {} (n = {} vs {})", i, bits(&x.state), bits(&y.state), nx, ny));
        }
        if nx != ny {
            return Some(format!("position {}: n = {} vs {}", i, nx, ny));
        }
        if x.sampler_cutoff != y.sampler_cutoff || x.mgr_cutoff != y.mgr_cutoff {
            return Some(format!("position {}: cutoff {}/{} vs {}/{}", i, x.sampler_cutoff, x.mgr_cutoff, y.sampler_cutoff, y.mgr_cutoff));
        }
        if x.slots != y.slots {
            return Some(format!("position {}: operator string {} vs {}", i, x.slots, y.slots));
        }
        if x.tag != y.tag {
            return Some(format!("position {}: non-moving fields differ", i));
        }
    }
    None
}

#[derive(Default)]
struct ParStats {
    accepted: u64,
    accepted_ham_diff: u64,
    rejected_ham_diff: u64,
    ties: u64,
}

/// The exact recomputation: one tempering step that took the ladder from `pre` to `post`, drew `words` from the
/// container RNG (order word, then one uniform per pair of the first phase, then of the second) and logged `evs`.
/// The harness replays the step pair by pair on its own copies of the replicas: the exchange probability of a
/// pair is the exact Metropolis ratio `oracle_ratio` computed from the two operator strings under the two
/// Hamiltonians / betas (model-independent, c10.rs); the decision the code took (its `swap_graphs` events) must be
/// `ratio > u` for the pair's own uniform `u` (knife-edge decisions are skipped and counted), and the ladder the
/// replay ends in must be `post`.
fn exact_recheck<Q: Rep>(pre: &TC<Q>, post: &TC<Q>, words: &[u64], evs: &[Ev], st: &mut ParStats) -> Result<(), String> {
    let n = pre.num_graphs();
    if n < 2 {
        return Ok(());
    }
    if words.len() != n {
        return Err(format!("the step consumed {} container words, a step of {} replicas draws {} (order + one per pair)", words.len(), n, n));
    }
    let mut x: Vec<(Q, f64)> = pre.graph_ref().iter().map(|(s, b)| (s.q.clone(), *b)).collect();
    let maxc = x.iter().map(|(q, _)| q.get_op_cutoff()).max().unwrap();
    for (q, _) in x.iter_mut() {
        q.set_op_cutoff(maxc);
    }
    let a_first = words[0] < (1u64 << 63);
    let pairs_a: Vec<usize> = (0..n / 2).map(|j| 2 * j).collect();
    let pairs_b: Vec<usize> = (0..(n - 1) / 2).map(|j| 2 * j + 1).collect();
    let order: Vec<usize> = if a_first { pairs_a.iter().chain(pairs_b.iter()).cloned().collect() } else { pairs_b.iter().chain(pairs_a.iter()).cloned().collect() };
    let swapped = |l: usize| evs.iter().any(|e| matches!(e, Ev::Swap(p, q) if (*p).min(*q) == l && (*p).max(*q) == l + 1));
    let mut tie = false;
    for (j, &l) in order.iter().enumerate() {
        let u = uniform_of(words[1 + j]);
        let (lo, hi) = x.split_at_mut(l + 1);
        let (ga, ba) = &mut lo[l];
        let (gb, bb) = &mut hi[0];
        let r = oracle_ratio(&*ga, *ba, &*gb, *bb);
        let ham_diff = ga.describe() != gb.describe();
        let did = swapped(l);
        if (r - u).abs() <= 1e-9 * r.abs().max(u) {
            tie = true;
        } else if did != (r > u) {
            return Err(format!(
                "pair ({},{}) [{}] was {} with its uniform u = {} but the exact Metropolis ratio recomputed from the two operator strings (n = {} / {}, beta = {} / {}) is {}",
                l,
                l + 1,
                if ham_diff { "different Hamiltonians" } else { "same Hamiltonian" },
                if did { "EXCHANGED" } else { "not exchanged" },
                u,
                ga.ops().len(),
                gb.ops().len(),
                ba,
                bb,
                r
            ));
        }
        if did {
            st.accepted += 1;
            if ham_diff {
                st.accepted_ham_diff += 1;
            }
            ga.swap_graphs(gb);
        } else if ham_diff {
            st.rejected_ham_diff += 1;
        }
    }
    if tie {
        st.ties += 1;
    }
    for (i, ((q, _), (p, _))) in x.iter().zip(post.graph_ref().iter()).enumerate() {
        if snap(q) != snap(&p.q) {
            return Err(format!("position {}: the ladder after the step is not the pre-step ladder with the logged exchanges applied", i));
        }
    }
    Ok(())
}

/// One mixed ladder, the serial twin and one rayon twin in a `k`-worker pool, `rounds` rounds of one time step + one
/// tempering step (lock-step), then the sampling drivers on fresh clones.
fn par_case(tc0: &TC<IsingQ>, pool: &rayon::ThreadPool, k: usize, tag: &str, g: &mut SplitMix64, rounds: usize) {
    let n = tc0.num_graphs();
    let params0 = ladder_params(tc0);
    let mut st = ParStats::default();
    let mut oracle: Result<(), String> = Ok(());
    let mut s = tc0.clone();
    let mut p = tc0.clone();
    let mut steps_done = 0usize;
    for round in 0..rounds {
        let t = 1 + g.below(2) as usize;
        let rs = catch(|| s.timesteps(t));
        let rp = catch(|| pool.install(|| p.parallel_timesteps(t)));
        if rs.is_err() || rp.is_err() {
            if rs.is_err() != rp.is_err() {
                oracle = Err(format!("round {}: time steps panicked in one driver only (serial: {:?}, rayon: {:?})", round, rs.err(), rp.err()));
            } else {
                stat("parladder.replica_update_panicked", 1);
            }
            break;
        }
        if let Some(d) = first_digest_diff(&s, &p) {
            oracle = Err(format!("round {}: after timesteps({}) / parallel_timesteps({}): {}", round, t, t, d));
            break;
        }
        let wseed = g.next();
        let (ls, lp) = (new_log(), new_log());
        set_log(&mut s, &ls);
        set_log(&mut p, &lp);
        *s.rng_mut() = RecRng::new(wseed);
        *p.rng_mut() = RecRng::new(wseed);
        let (pre_s, pre_p) = (s.clone(), p.clone());
        let (sw_s, sw_p) = (s.get_total_swaps(), p.get_total_swaps());
        if let Err(e) = catch(|| s.tempering_step()) {
            oracle = Err(format!("round {}: tempering_step panicked: {}", round, e));
            break;
        }
        if let Err(e) = catch(|| pool.install(|| p.parallel_tempering_step())) {
            oracle = Err(format!("round {}: parallel_tempering_step panicked on {} workers: {}", round, k, e));
            break;
        }
        steps_done += 1;
        let (ws, wp) = (s.rng_mut().take_log(), p.rng_mut().take_log());
        let (es, ep) = (ls.lock().unwrap().clone(), lp.lock().unwrap().clone());
        let mut why: Vec<String> = vec![];
        // (1) the C05-specific part: every exchange decision against the exact ratio, in both drivers
        let mut dummy = ParStats::default();
        if let Err(m) = exact_recheck(&pre_p, &p, &wp, &ep, &mut st) {
            why.push(format!("parallel_tempering_step on {} workers: {}", k, m));
        }
        if let Err(m) = exact_recheck(&pre_s, &s, &ws, &es, &mut dummy) {
            why.push(format!("tempering_step: {}", m));
        }
        // (2) the two drivers took the same decisions and reached the same ladder
        let (ds, dp) = (s.get_total_swaps() - sw_s, p.get_total_swaps() - sw_p);
        if ds != dp {
            why.push(format!("tempering_step accepted {} exchanges, parallel_tempering_step on {} workers {}", ds, k, dp));
        }
        if ws != wp {
            why.push(format!("container words consumed: serial {}, rayon {}", ws.len(), wp.len()));
        }
        if let Some(d) = first_digest_diff(&s, &p) {
            why.push(format!("serial vs rayon ladder after the step: {}", d));
        }
        // (3) every position keeps its Hamiltonian and its beta
        for (name, tc) in [("serial", &s), ("rayon", &p)] {
            let now = ladder_params(tc);
            if let Some(i) = (0..n).find(|&i| now[i] != params0[i]) {
                why.push(format!("{}: position {} no longer has its own Hamiltonian / beta: {} (was {})", name, i, now[i], params0[i]));
            }
            for (i, (q, _)) in tc.graph_ref().iter().enumerate() {
                if let Err(m) = replica_sound(&q.q) {
                    why.push(format!("{}: position {} after the step: {}", name, i, m));
                    break;
                }
            }
        }
        if !why.is_empty() {
            oracle = Err(format!("round {}: {}", round, why.join("; ")));
            break;
        }
    }
    stat(&format!("parladder.replicas_{}", n), 1);
    stat(&format!("parladder.workers_{}", k), 1);
    stat("parladder.steps", steps_done as u64);
    stat("parladder.exchanges_accepted", st.accepted);
    stat("parladder.exchanges_accepted_different_hamiltonians", st.accepted_ham_diff);
    stat("parladder.exchanges_rejected_different_hamiltonians", st.rejected_ham_diff);
    stat("parladder.steps_with_knife_edge_decision", st.ties);
    emit(st.accepted > 0, &format!("hist parstep.{}.w{} {} {} 1 1", tag, k, n, steps_done), &format!("{} {}", steps_done, steps_done), Some(oracle));

    // ---- the sampling drivers on fresh clones with the same container words ----
    let t_total = 6 + g.below(14) as usize;
    let sf = 1 + g.below(3) as usize;
    let mf = 1 + g.below(4) as usize;
    let wseed = g.next();
    let mut a = tc0.clone();
    let mut b = tc0.clone();
    *a.rng_mut() = RecRng::new(wseed);
    *b.rng_mut() = RecRng::new(wseed);
    let ra = catch(|| a.timesteps_sample(t_total, sf, mf));
    let rb = catch(|| pool.install(|| b.parallel_timesteps_sample(t_total, sf, mf)));
    let input = format!("hist pardrv.{}.w{} {} {} {} {}", tag, k, n, t_total, sf, mf);
    match (ra, rb) {
        (Ok(xa), Ok(xb)) => {
            let (wa, wb) = (a.rng_mut().take_log(), b.rng_mut().take_log());
            let mut why: Vec<String> = vec![];
            if a.get_total_swaps() != b.get_total_swaps() {
                why.push(format!("total_swaps: timesteps_sample {}, parallel_timesteps_sample on {} workers {}", a.get_total_swaps(), k, b.get_total_swaps()));
            }
            if wa != wb {
                why.push(format!("container words consumed: {} vs {}", wa.len(), wb.len()));
            }
            if let Some(d) = first_digest_diff(&a, &b) {
                why.push(format!("final ladder: {}", d));
            }
            if xa.len() != xb.len() || xa.iter().zip(xb.iter()).any(|(x, y)| x.0 != y.0) {
                let i = xa.iter().zip(xb.iter()).position(|(x, y)| x.0 != y.0).unwrap_or(0);
                why.push(format!("returned samples of position {} differ", i));
            }
            if xa.iter().zip(xb.iter()).any(|(x, y)| (x.1 - y.1).abs() > 1e-9 * x.1.abs().max(1.0)) {
                why.push("returned energies differ".to_string());
            }
            for (name, tc) in [("timesteps_sample", &a), ("parallel_timesteps_sample", &b)] {
                let now = ladder_params(tc);
                if let Some(i) = (0..n).find(|&i| now[i] != params0[i]) {
                    why.push(format!("{}: position {} no longer has its own Hamiltonian / beta", name, i));
                }
            }
            let nsw = if n >= 2 { wb.len() / n } else { t_total / sf };
            let ns = xb.first().map(|x| x.0.len()).unwrap_or(t_total / mf);
            stat("parladder.driver_total_swaps", b.get_total_swaps());
            let o = if why.is_empty() { Ok(()) } else { Err(format!("{} workers: {}", k, why.join("; "))) };
            emit(b.get_total_swaps() > 0 || a.get_total_swaps() > 0, &input, &format!("{} {}", nsw, ns), Some(o));
        }
        (Err(_), Err(_)) => stat("parladder.driver_replica_update_panicked", 1),
        (ra, rb) => emit(
            true,
            &input,
            "panic",
            Some(Err(format!("one driver panicked, the other did not (serial: {:?}, rayon on {} workers: {:?})", ra.err(), k, rb.err()))),
        ),
    }
}

fn mode_parladder(seed: u64, thorough: bool) {
    let mut g = SplitMix64::new(seed ^ 0x9a71);
    let workers: Vec<usize> = if thorough { (1..=8).collect() } else { vec![1, 2, 3, 4] };
    let pools: Vec<(usize, rayon::ThreadPool)> = workers
        .iter()
        .map(|&k| (k, rayon::ThreadPoolBuilder::new().num_threads(k).build().expect("rayon pool")))
        .collect();
    let ladders = if thorough { 100 } else { 40 };
    let rounds = if thorough { 24 } else { 12 };
    for l in 0..ladders {
        let n = 2 + (l % 10) as usize;
        // mixed ladders: every replica its own |J| / Gamma / h and beta (4), the same with runs of repeated
        // Hamiltonians (5: some neighbouring pairs share a Hamiltonian and differ in beta only, others do not)
        let kind = if l % 3 == 0 { 4 } else { 5 };
        let mut specs = ising_ladder(&mut g, n, kind, false);
        for s in specs.iter_mut() {
            // neighbouring betas close enough for exchanges to happen
            s.beta = (3 + g.below(6)) as f64 / 4.0;
        }
        let log = new_log();
        let mut tc = match build_ising(&mut g, &specs, &log) {
            Ok(t) => t,
            Err(_) => {
                stat("parladder.ladder_rejected", 1);
                continue;
            }
        };
        if equilibrate(&mut tc, &mut g).is_err() {
            stat("parladder.equilibration_panicked", 1);
            continue;
        }
        let ham_pairs_diff = (0..n - 1).filter(|&i| tc.graph_ref()[i].0.q.describe() != tc.graph_ref()[i + 1].0.q.describe()).count();
        stat("parladder.ladders", 1);
        stat("parladder.neighbour_pairs_different_hamiltonians", ham_pairs_diff as u64);
        stat("parladder.neighbour_pairs_same_hamiltonian", (n - 1 - ham_pairs_diff) as u64);
        for (k, pool) in &pools {
            let mut gk = SplitMix64::new(g.next());
            par_case(&tc, pool, *k, &format!("k{}.l{}", kind, l), &mut gk, rounds);
        }
    }
}

fn main() {
    quiet_panics();
    let a = args();
    let r = catch(|| {
        if a.mode == "parladder" {
            mode_parladder(a.seed, a.thorough)
        } else if a.mode == "grow" {
            mode_grow(a.seed ^ 0x505, a.thorough)
        } else if a.mode == "loops" {
            mode_loops(a.seed, a.thorough)
        } else if a.mode == "xxz" {
            mode_xxz_ladder(a.seed, a.thorough)
        } else if a.mode == "gmixed" {
            mode_generic_mixed(a.seed ^ 0x505, a.thorough)
        } else {
            mode_histories(a.seed, a.thorough)
        }
    });
    if let Err(e) = r {
        emit(true, "crash histories", "x", Some(Err(format!("harness or library panicked outside a guarded call: {}", e))));
    }
}
