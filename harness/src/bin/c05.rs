//! C05 — parallel tempering keeps every replica at its own thermal distribution.
//!
//! The Lean side proves that the product law is invariant under the exchange kernel with the
//! acceptance `min(1, W_a(C_b) W_b(C_a) / (W_a(C_a) W_b(C_b)))`, under the even/odd phases, their
//! ½-mixture, and any interleaving with per-replica kernels. This harness ties those kernels to the
//! real drivers:
//!  * histories: the real `timesteps_sample` (serial) and `parallel_timesteps_sample` (rayon) on
//!    clones, versus a manual interleaving `timesteps(t)` / `tempering_step()` at the C17 cadence;
//!    all three must end in the same state with the same returned samples/energies and the same
//!    container-RNG consumption → the drivers *are* interleavings of the replicas' own steps and
//!    tempering steps;
//!  * every tempering step inside the manual history is a C10 case (`sw` / `psw`): the exchange
//!    decisions, measured probabilities (bisected on a subset of the steps), after-states and counters
//!    are compared with the model, on ladders of 2..8 replicas with β / Hamiltonian / mixed ladders,
//!    RVB, heat-bath and longitudinal fields.
//! Oracle: model-independent (real code vs real code, and the f64 Metropolis ratio from `get_pth`).

#[path = "c10.rs"]
#[allow(dead_code)]
mod c10;
use c10::*;
use qmc::sse::parallel_tempering::*;
use qmc::sse::*;
use vh::*;

fn final_digest<Q: Rep>(tc: &TC<Q>) -> String {
    let s = snaps(tc);
    s.iter()
        .map(|x| format!("{}/{}/{}/{}/{}", x.sampler_cutoff, x.mgr_cutoff, bits(&x.state), x.slots, x.tag))
        .collect::<Vec<_>>()
        .join("|")
}

/// One history on `tc` (consumed): manual interleaving with C10 cases at every tempering step,
/// then the two real drivers on clones of the initial container with the same container words.
fn history<Q: Rep>(tc0: TC<Q>, g: &mut SplitMix64, t_total: usize, sf: usize, mf: usize, bisect_every: usize) {
    let n = tc0.num_graphs();
    let kind = Q::KIND;
    let input = format!("hist {} {} {} {} {}", kind, n, t_total, sf, mf);
    // ---- manual interleaving (B) ----
    let mut b = tc0.clone();
    let blog = new_log();
    set_log(&mut b, &blog);
    let mut words_all: Vec<u64> = vec![];
    let mut samples_b: Vec<Vec<Vec<bool>>> = vec![vec![]; n];
    let mut energy_b = vec![0.0f64; n];
    let (mut remaining, mut tsw, mut tsa) = (t_total, sf, mf);
    let mut nsw = 0usize;
    let mut hist = hist_of(n);
    let mut failed: Option<String> = None;
    while remaining > 0 {
        let t = tsa.min(tsw).min(remaining);
        // `timesteps_sample` accumulates te * t per replica
        let r = catch(|| {
            b.graph_mut()
                .iter_mut()
                .map(|(q, beta)| q.timesteps(t, *beta))
                .collect::<Vec<f64>>()
        });
        match r {
            Ok(es) => {
                for (e, acc) in es.iter().zip(energy_b.iter_mut()) {
                    *acc += e * t as f64;
                }
            }
            Err(e) => {
                failed = Some(format!("time steps panicked: {}", e));
                break;
            }
        }
        tsa -= t;
        tsw -= t;
        remaining -= t;
        if tsw == 0 {
            let bis = bisect_every > 0 && nsw % bisect_every == 0;
            match step_case(&b, g.next(), bis, &mut hist) {
                Ok((next, words)) => {
                    b = next;
                    let l2 = new_log();
                    set_log(&mut b, &l2);
                    words_all.extend(words);
                }
                Err(e) => {
                    failed = Some(format!("tempering step panicked: {}", e));
                    break;
                }
            }
            nsw += 1;
            tsw = sf;
        }
        if tsa == 0 {
            for (s, (q, _)) in samples_b.iter_mut().zip(b.graph_ref().iter()) {
                s.push(q.state_ref().to_vec());
            }
            tsa = mf;
        }
    }
    if let Some(m) = failed {
        // a panic inside the replicas' own updates is not this property's subject; report it as a stat,
        // a panic inside the tempering step is a failure
        if m.starts_with("tempering") {
            emit(true, &input, "panic", Some(Err(m)));
        } else {
            stat("hist.replica_update_panicked", 1);
        }
        return;
    }
    let energy_b: Vec<f64> = energy_b.iter().map(|e| e / t_total as f64).collect();
    // ---- the real serial driver (A) and the rayon driver (C) with the same container words ----
    let mut oracle: Result<(), String> = Ok(());
    let run = |par: bool| -> Result<(TC<Q>, Vec<(Vec<Vec<bool>>, f64)>, Vec<u64>), String> {
        let mut a = tc0.clone();
        let l = new_log();
        set_log(&mut a, &l);
        *a.rng_mut() = RecRng::scripted(words_all.clone(), 0xdead);
        let r = catch(|| {
            if par {
                a.parallel_timesteps_sample(t_total, sf, mf)
            } else {
                a.timesteps_sample(t_total, sf, mf)
            }
        })?;
        let w = a.rng_mut().take_log();
        Ok((a, r, w))
    };
    let want_digest = final_digest(&b);
    for par in [false, true] {
        let name = if par { "parallel_timesteps_sample" } else { "timesteps_sample" };
        match run(par) {
            Err(e) => {
                if oracle.is_ok() {
                    oracle = Err(format!("{} panicked: {}", name, e));
                }
            }
            Ok((a, ret, w)) => {
                let mut why = vec![];
                if n >= 2 && w != words_all {
                    why.push(format!("consumed {} container words, the interleaving consumed {}", w.len(), words_all.len()));
                }
                if final_digest(&a) != want_digest {
                    why.push("final ladder differs from the manual interleaving of time steps and tempering steps".to_string());
                }
                if a.get_total_swaps() != b.get_total_swaps() {
                    why.push(format!("total_swaps {} vs {}", a.get_total_swaps(), b.get_total_swaps()));
                }
                let st: Vec<&Vec<Vec<bool>>> = ret.iter().map(|(s, _)| s).collect();
                if st.len() != n || st.iter().zip(samples_b.iter()).any(|(x, y)| *x != y) {
                    why.push("returned samples differ".to_string());
                }
                if ret.iter().zip(energy_b.iter()).any(|((_, e), f)| (e - f).abs() > 1e-9 * f.abs().max(1.0)) {
                    why.push("returned energies differ".to_string());
                }
                if !why.is_empty() && oracle.is_ok() {
                    oracle = Err(format!("{}: {}", name, why.join("; ")));
                }
            }
        }
    }
    // ---- snapshot / restore of the ladder reached by the history, then lock-step with an in-memory twin ----
    {
        let reps: Vec<(Q, f64)> = b.graph_ref().iter().map(|(q, beta)| (q.q.clone(), *beta)).collect();
        let (t2, sf2, mf2) = (4 + g.below(6) as usize, 1 + g.below(3) as usize, 1 + g.below(3) as usize);
        if let Some(r) = Q::ladder_snapshot_lockstep(&reps, g.next(), t2, sf2, mf2) {
            let heat = reps.iter().filter(|(q, _)| q.json().get("bond_weights").map(|b| !b.is_null()).unwrap_or(false)).count();
            stat("snap.ladders", 1);
            stat("snap.heatbath_replicas", heat as u64);
            let sin = format!("hist snap-{} {} {} {} {}", kind, n, t2, sf2, mf2);
            match r {
                Ok((nsw2, ns2)) => emit(true, &sin, &format!("{} {}", nsw2, ns2), Some(Ok(()))),
                Err(m) => emit(true, &sin, &format!("{} {}", t2 / sf2, t2 / mf2), Some(Err(m))),
            }
        }
    }
    let nsamples = samples_b.first().map(|s| s.len()).unwrap_or(t_total / mf);
    stat(&format!("hist.{}.replicas_{}", kind, n), 1);
    stat("hist.tempering_steps", nsw);
    stat("hist.total_swaps", b.get_total_swaps());
    emit(nsw > 0, &input, &format!("{} {}", nsw, nsamples), Some(oracle));
}

fn mode_histories(seed: u64, thorough: bool) {
    let mut g = SplitMix64::new(seed ^ 0xc05);
    let ladders = if thorough { 700 } else { 126 };
    for l in 0..ladders {
        let n = 2 + (l % 7) as usize;
        let kind = g.below(8); // incl. opposite-sign twin edges + RVB (6) and h = 0 / h > 0 mixes (7); no small units: the real drivers go through `timestep`
        let specs = ising_ladder(&mut g, n, kind, true);
        let log = new_log();
        let mut tc = match build_ising(&mut g, &specs, &log) {
            Ok(t) => t,
            Err(_) => {
                stat("hist.ladder_rejected", 1);
                continue;
            }
        };
        stat(&format!("hist.ladder_kind_{}", kind), 1);
        if specs.iter().any(|s| s.rvb) {
            stat("hist.with_rvb", 1);
        }
        if specs.iter().any(|s| s.heatbath) {
            stat("hist.with_heatbath", 1);
        }
        if specs.iter().any(|s| s.h != 0.0) {
            stat("hist.with_longitudinal", 1);
        }
        if equilibrate(&mut tc, &mut g).is_err() {
            stat("hist.equilibration_panicked", 1);
            continue;
        }
        if g.chance(1, 4) {
            grow_managers_by_hand(&mut tc, &mut g);
        }
        let t_total = 4 + g.below(if thorough { 24 } else { 12 }) as usize;
        let sf = 1 + g.below(5) as usize;
        let mf = 1 + g.below(5) as usize;
        history(tc, &mut g, t_total, sf, mf, 2);
    }
    // generic replicas (beta ladders; the container refuses anything else)
    let gl = if thorough { 140 } else { 28 };
    for l in 0..gl {
        let n = 2 + (l % 7) as usize;
        let nvars = 2 + g.below(2) as usize;
        let ham = random_gen_ham(&mut g, nvars);
        let loops = g.coin();
        let heat = g.chance(1, 3);
        let reps: Result<Vec<(GenQ, f64)>, String> = (0..n)
            .map(|_| {
                let s = GenSpec { nvars, inters: ham.clone(), beta: g.range(1, 10) as f64 / 4.0, loops, heatbath: heat };
                make_gen(&s, g.next()).map(|q| (q, s.beta))
            })
            .collect();
        let reps = match reps {
            Ok(r) => r,
            Err(_) => continue,
        };
        let log = new_log();
        let mut tc = match build(reps, &log) {
            Ok(t) => t,
            Err(_) => continue,
        };
        if equilibrate(&mut tc, &mut g).is_err() {
            continue;
        }
        let t_total = 4 + g.below(10) as usize;
        let sf = 1 + g.below(4) as usize;
        let mf = 1 + g.below(4) as usize;
        history(tc, &mut g, t_total, sf, mf, 3);
    }
}


// ------------------------------------------------------------------------------------------
// Generic replicas with loop updates: XXZ ring with Ising anisotropy (non-zero bounce weight)
// ------------------------------------------------------------------------------------------
use rand::{Error, RngCore};
use std::cell::RefCell;
use std::rc::Rc;

/// sampler RNG whose words stay readable from outside (the sampler owns its RNG)
struct SRng(Rc<RefCell<RecRng>>);
impl RngCore for SRng {
    fn next_u32(&mut self) -> u32 {
        self.0.borrow_mut().next_u32()
    }
    fn next_u64(&mut self) -> u64 {
        self.0.borrow_mut().next_u64()
    }
    fn fill_bytes(&mut self, dest: &mut [u8]) {
        self.0.borrow_mut().fill_bytes(dest)
    }
    fn try_fill_bytes(&mut self, dest: &mut [u8]) -> Result<(), Error> {
        self.0.borrow_mut().try_fill_bytes(dest)
    }
}

/// two-site XXZ matrix indexed by (outs ++ ins): aligned diagonal `al`, anti-aligned diagonal `an`, exchange `ex`
fn xxz_matrix(al: f64, an: f64, ex: f64) -> Vec<f64> {
    let mut m = vec![0.0; 16];
    m[0b0000] = al;
    m[0b1111] = al;
    m[0b0101] = an;
    m[0b1010] = an;
    m[0b0110] = ex;
    m[0b1001] = ex;
    m
}

fn xxz_calls(g: &mut SplitMix64, nsites: usize) -> Vec<(Vec<f64>, Vec<usize>)> {
    // Ising anisotropy: the anti-aligned diagonal weight exceeds the exchange
    let al = g.range(1, 2) as f64 / 4.0;
    let an = g.range(4, 7) as f64 / 4.0;
    let ex = g.range(1, 3) as f64 / 4.0;
    (0..nsites).map(|i| (xxz_matrix(al, an, ex), vec![i, (i + 1) % nsites])).filter(|(_, v)| v[0] != v[1]).collect()
}

fn calls_token(calls: &[(Vec<f64>, Vec<usize>)]) -> String {
    calls.iter().map(|(m, v)| format!("new:{}:{}", rats(m), list(v))).collect::<Vec<_>>().join("!")
}

/// Long directed loops, one at a time, on the real sampler with a recording RNG: every loop update of a cold
/// XXZ chain is checked for closed world lines; loops with many vertex visits (beyond any budget of the form
/// c * (op, variable) pairs + const for small c) are replayed exactly by the Lean loop model (driver drv_c04,
/// protocol line `loop <calls> <state> <slots> <words>`).
fn mode_loops(seed: u64, thorough: bool) {
    let mut g = SplitMix64::new(seed ^ 0x100b);
    let chains = if thorough { 12 } else { 4 };
    let sweeps = if thorough { 6000 } else { 2500 };
    for c in 0..chains {
        let nsites = 4 + (c % 2) as usize * 2;
        let calls = xxz_calls(&mut g, nsites);
        let tok = calls_token(&calls);
        let h = Rc::new(RefCell::new(RecRng::new(g.next())));
        let state: Vec<bool> = (0..nsites).map(|i| i % 2 == 0).collect();
        let mut q: Qmc<SRng, qmc::sse::fast_ops::FastOps> = Qmc::new_with_state(nsites, SRng(h.clone()), state, true);
        let mut bad = false;
        for (m, v) in &calls {
            if q.make_interaction(m.clone(), v.clone()).is_err() {
                bad = true;
            }
        }
        if bad {
            continue;
        }
        let beta = [1.5, 2.0, 3.0, 4.0][(c % 4) as usize];
        let mut emitted_long = 0;
        let mut max_visits = 0usize;
        let mut over_budget = 0u64;
        for sweep in 0..sweeps {
            if catch(|| {
                q.diagonal_update(beta);
                q.flip_free_bits();
            })
            .is_err()
            {
                stat("loops.diagonal_update_panicked", 1);
                break;
            }
            let before_state = q.state_ref().to_vec();
            let before_slots = show_slots(q.get_manager_ref());
            let pairs: usize = {
                let m = q.get_manager_ref();
                (0..m.get_cutoff()).filter_map(|p| m.get_pth(p).map(|o| o.get_vars().len())).sum()
            };
            h.borrow_mut().take_log();
            let r = catch(|| q.loop_update());
            let log = h.borrow_mut().take_log();
            let visits = log.len().saturating_sub(3);
            max_visits = max_visits.max(visits);
            let budget = 4 * pairs + 16;
            if visits > budget {
                over_budget += 1;
            }
            let after_state = q.state_ref().to_vec();
            let after_slots = show_slots(q.get_manager_ref());
            let cons = r.is_ok() && propagate_check(q.get_manager_ref(), &after_state).map(|f| f == after_state).unwrap_or(false);
            let long = visits > 3 * pairs + 8 && emitted_long < 25;
            if !cons || long || sweep % 500 == 499 {
                let input = format!("loop {} {} {} {}", tok, bits(&before_state), before_slots, list(&log));
                let oracle = if let Err(p) = &r {
                    Err(format!("loop_update panicked: {}", p))
                } else if !cons {
                    Err(format!(
                        "after a loop update of {} vertex visits on a string with {} (op, variable) pairs the world lines no longer close (sweep {}, beta {})",
                        visits, pairs, sweep, beta
                    ))
                } else {
                    Ok(())
                };
                emit(true, &input, &format!("{} {} ok c={} hyp=1", bits(&after_state), after_slots, cons as u8), Some(oracle));
                if long {
                    emitted_long += 1;
                }
            }
            if !cons {
                break;
            }
        }
        stat("loops.chains", 1);
        stat("loops.loops_beyond_4pairs_plus_16_visits", over_budget);
        stat(&format!("loops.max_visits_chain_{}", c), max_visits as u64);
    }
}

/// A beta ladder of XXZ replicas with loop updates on, many rounds of time step + tempering step; after EVERY
/// round every replica must have closed world lines and a legal string, so that no broken configuration can
/// travel through the ladder. Model: the final configurations are checked with the model's `Consistent`.
fn mode_xxz_ladder(seed: u64, thorough: bool) {
    let mut g = SplitMix64::new(seed ^ 0x1add);
    let ladders = if thorough { 6 } else { 2 };
    let rounds = if thorough { 30000 } else { 9000 };
    for l in 0..ladders {
        let nsites = 4 + 2 * (l % 2) as usize;
        let calls = xxz_calls(&mut g, nsites);
        let betas: Vec<f64> = if l % 2 == 0 { vec![0.5, 1.5, 4.0, 6.0] } else { vec![0.75, 1.5, 2.5, 4.0] };
        let inters: Vec<(bool, Vec<f64>, Vec<usize>)> = calls.iter().map(|(m, v)| (false, m.clone(), v.clone())).collect();
        let reps: Result<Vec<(GenQ, f64)>, String> = betas
            .iter()
            .map(|b| {
                let s = GenSpec { nvars: nsites, inters: inters.clone(), beta: *b, loops: true, heatbath: false };
                make_gen(&s, g.next()).map(|q| (q, *b))
            })
            .collect();
        let reps = match reps {
            Ok(r) => r,
            Err(_) => continue,
        };
        let log = new_log();
        let mut tc = match build(reps, &log) {
            Ok(t) => t,
            Err(_) => continue,
        };
        *tc.rng_mut() = RecRng::new(g.next());
        let check = |tc: &TC<GenQ>| -> Option<(usize, String)> {
            for (i, (q, _)) in tc.graph_ref().iter().enumerate() {
                let st = q.q.state_ref().to_vec();
                let closed = propagate_check(q.q.get_manager_ref(), &st).map(|f| f == st).unwrap_or(false);
                if !closed {
                    return Some((i, "world lines do not close".to_string()));
                }
                if let Err(m) = replica_sound(&q.q) {
                    return Some((i, m));
                }
            }
            None
        };
        let mut oracle: Result<(), String> = Ok(());
        for round in 0..rounds {
            if let Err(p) = catch(|| tc.timesteps(1)) {
                oracle = Err(format!("round {}: time step panicked: {}", round, p));
                break;
            }
            if let Some((i, why)) = check(&tc) {
                oracle = Err(format!("round {}: after the time steps, position {} (beta {}): {}", round, i, betas[i], why));
                break;
            }
            if round % 2 == 1 {
                if let Err(p) = catch(|| tc.tempering_step()) {
                    oracle = Err(format!("round {}: tempering step panicked: {}", round, p));
                    break;
                }
                if let Some((i, why)) = check(&tc) {
                    oracle = Err(format!("round {}: after the tempering step, position {}: {}", round, i, why));
                    break;
                }
            }
        }
        let finals: Vec<String> = tc.graph_ref().iter().map(|(q, _)| format!("{} {}", bits(q.q.state_ref()), q.q.slots())).collect();
        let closed: String = tc
            .graph_ref()
            .iter()
            .map(|(q, _)| {
                let st = q.q.state_ref().to_vec();
                if propagate_check(q.q.get_manager_ref(), &st).map(|f| f == st).unwrap_or(false) { '1' } else { '0' }
            })
            .collect();
        stat("xxz.ladders", 1);
        stat("xxz.total_swaps", tc.get_total_swaps());
        stat("xxz.max_n", tc.graph_ref().iter().map(|(q, _)| q.q.get_n()).max().unwrap_or(0) as u64);
        emit(true, &format!("cons {}", finals.join(" ")), &closed, Some(oracle));
    }
}

fn main() {
    quiet_panics();
    let a = args();
    let r = catch(|| {
        if a.mode == "grow" {
            mode_grow(a.seed ^ 0x505, a.thorough)
        } else if a.mode == "loops" {
            mode_loops(a.seed, a.thorough)
        } else if a.mode == "xxz" {
            mode_xxz_ladder(a.seed, a.thorough)
        } else if a.mode == "gmixed" {
            mode_generic_mixed(a.seed ^ 0x505, a.thorough)
        } else {
            mode_histories(a.seed, a.thorough)
        }
    });
    if let Err(e) = r {
        emit(true, "crash histories", "x", Some(Err(format!("harness or library panicked outside a guarded call: {}", e))));
    }
}
