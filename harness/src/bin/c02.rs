//! C02 — heat-bath diagonal update through the public samplers.
//!   tables : bond-weight table after every public operation (serde snapshot of the sampler) for random
//!            operation sequences on `Qmc` (add interaction / set_do_heatbath / diagonal_update) and on
//!            `QmcIsingGraph` (set_enable_heatbath / steps); the Ising Hamiltonian itself (`isingham`).
//!   sweeps : exact trajectory of `single_diagonal_step` / `diagonal_update` on warmed-up samplers (RVB and
//!            h != 0 on for part of them), heat-bath on and off, replayed by the model.
//!   prob   : threshold bisection of the heat-bath draws of a slot inside `single_diagonal_step` /
//!            `diagonal_update`, and of the removal of the inserted operator in the next sweep; oracle:
//!            p_insert/p_remove = beta*w/(L-n) on measured numbers only.

#[path = "c08_shared/mod.rs"]
mod shared;

use qmc::sse::*;
use shared::samplers::*;
use shared::*;
use vh::*;

// ------------------------------------------------------------------------------------------------
// mode tables
// ------------------------------------------------------------------------------------------------

fn tables(g: &mut SplitMix64, ncases: usize) {
    for _ in 0..ncases {
        // ---- generic sampler: random operation sequence
        let rng = SharedRng::new(g.next());
        let nvars = g.range(1, 4) as usize;
        let mut q = GenQ::new_with_state(nvars, rng.clone(), vec![false; nvars], false);
        let mut vars_list: Vec<RegBond> = vec![];
        let nops = g.range(2, 12) as usize;
        let mut toks = vec![];
        let mut outs = vec![];
        let mut oracle = Ok(());
        let mut hb = false;
        let mut rebuilt_after_add = false;
        let mut had_table = false;
        for _ in 0..nops {
            let r = g.range(0, 9);
            let mut must = false;
            if r < 4 || vars_list.is_empty() {
                let (mat, vars, d) = gen_interaction(g, nvars);
                add_interaction(&mut q, &mat, &vars, d).unwrap();
                toks.push(format!("A!{}:0:{}", list(&vars), rats(&mat)));
                vars_list.push(reg(vars, mat));
                if had_table {
                    rebuilt_after_add = true;
                }
            } else if r < 6 {
                hb = g.chance(3, 4);
                q.set_do_heatbath(hb);
                toks.push(format!("H{}", hb as u8));
            } else {
                let beta = *g.pick(&[0.25, 0.5, 1.0, 2.0]);
                if let Err(p) = catch(|| q.diagonal_update(beta)) {
                    oracle = Err(format!("diagonal_update panicked: {}", p));
                    break;
                }
                toks.push("D".into());
                must = hb;
            }
            let smp = Smp::Gen(q.clone(), vars_list.clone());
            let t = smp.table();
            had_table |= t.is_some();
            if oracle.is_ok() {
                oracle = check_registered(&smp).and_then(|_| check_table(&t, &smp.bonds(), must));
            }
            outs.push(show_table(&t));
            q = match smp {
                Smp::Gen(q, _) => q,
                _ => unreachable!(),
            };
        }
        if rebuilt_after_add {
            stat("tables_generic_add_after_table_built", 1);
        }
        emit(true, &format!("gentable {}", toks.join("+")), &outs.join(" "), Some(oracle));

        // ---- Ising sampler
        let rng = SharedRng::new(g.next());
        let (mut smp, desc) = gen_ising(g, &rng);
        if g.coin() {
            if let Smp::Ising(q, _) = &mut smp {
                q.set_run_rvb(true);
            }
            stat("tables_ising_rvb", 1);
        }
        let bonds = smp.bonds();
        let exp = expected_table(&bonds);
        if exp.iter().any(|w| *w != exp[0]) {
            stat("tables_ising_unequal_maxima", 1);
        }
        emit(true, &format!("isingham {}", desc), &format!("{} {}", show_table_ham(&bonds), rats(&exp)), Some(check_table(&Some((real_columns(&bonds).0, real_columns(&bonds).1)), &bonds, true)));
        let nops = g.range(2, 10) as usize;
        let mut toks = vec![];
        let mut outs = vec![];
        let mut oracle = Ok(());
        let mut on = false;
        for _ in 0..nops {
            let r = g.range(0, 9);
            if r < 4 {
                on = g.chance(2, 3);
                enable_heatbath(&mut smp, on);
                toks.push(format!("E{}", on as u8));
            } else {
                let beta = *g.pick(&[0.25, 0.5, 1.0, 2.0]);
                let full = g.coin();
                if let Err(p) = catch(|| if full { smp.timestep(beta) } else { smp.sweep(beta) }) {
                    // a panic inside RVB / cluster code is not this property's business; stop the sequence
                    stat("tables_ising_step_panicked", 1);
                    let _ = p;
                    break;
                }
                toks.push("D".into());
            }
            let t = smp.table();
            if oracle.is_ok() {
                oracle = check_table(&t, &bonds, on);
                if !on && t.is_some() {
                    oracle = Err("table stored although heat-bath is disabled".into());
                }
            }
            outs.push(show_table(&t));
        }
        if !toks.is_empty() {
            emit(true, &format!("isingtable {} {}", desc, toks.join("+")), &outs.join(" "), Some(oracle));
        }
    }
}

/// Pairs of samplers exchanging their operator strings: every sampler's stored table must stay the table of
/// its OWN Hamiltonian (after every public call).
fn pair_tables(g: &mut SplitMix64, ncases: usize) {
    for _ in 0..ncases {
        // ---- two Ising samplers in a tempering container
        let (ra, rb) = (SharedRng::new(g.next()), SharedRng::new(g.next()));
        let sa = gen_ising_spec(g);
        let sb = gen_partner_spec(g, &sa);
        let mut tc: TemperingContainer<RecRng, IsingQ> = TemperingContainer::new(RecRng::scripted(vec![0u64; 4096], g.next()));
        if tc.add_qmc_stepper(sa.build(&ra), 1.0).is_err() || tc.add_qmc_stepper(sb.build(&rb), 1.0).is_err() {
            emit(true, &format!("pair-rejected {} {}", sa.desc(), sb.desc()), "REJECTED", Some(Err("can_swap_managers rejected a same-sign pair".into())));
            continue;
        }
        let bonds = [Smp::Ising(tc.graph_ref()[0].0.clone(), sa.edges.clone()).bonds(), Smp::Ising(tc.graph_ref()[1].0.clone(), sb.edges.clone()).bonds()];
        if expected_table(&bonds[0]) != expected_table(&bonds[1]) {
            stat("pair_ising_tables_differ", 1);
        }
        let mut on = [false, false];
        let mut toks: Vec<String> = vec![];
        let mut outs: Vec<String> = vec![];
        let mut oracle = Ok(());
        let mut swaps = 0usize;
        let nops = g.range(4, 14) as usize;
        for _ in 0..nops {
            let r = g.range(0, 11);
            let side = g.below(2) as usize;
            let lr = if side == 0 { "L" } else { "R" };
            if r < 3 {
                on[side] = g.chance(4, 5);
                tc.graph_mut()[side].0.set_enable_heatbath(on[side]);
                toks.push(format!("{}E{}", lr, on[side] as u8));
            } else if r < 6 {
                let beta = *g.pick(&[0.25, 0.5, 1.0, 2.0]);
                let full = g.coin();
                let q = &mut tc.graph_mut()[side].0;
                if catch(|| if full { q.timestep(beta); } else { q.single_diagonal_step(beta) }).is_err() {
                    stat("pair_step_panicked", 1);
                    break;
                }
                toks.push(format!("{}D", lr));
                if swaps % 2 == 1 && on[side] {
                    stat("pair_ising_heatbath_step_after_odd_swaps", 1);
                }
            } else if r < 9 {
                let (l, rr) = tc.graph_mut().split_at_mut(1);
                if side == 0 {
                    l[0].0.swap_manager_and_state(&mut rr[0].0);
                } else {
                    rr[0].0.swap_manager_and_state(&mut l[0].0);
                }
                swaps += 1;
                toks.push("S".into());
                stat("pair_ising_swap_direct", 1);
            } else {
                let before = tc.get_total_swaps();
                if catch(|| tc.tempering_step()).is_err() {
                    stat("pair_step_panicked", 1);
                    break;
                }
                if tc.get_total_swaps() > before {
                    swaps += 1;
                    toks.push("S".into());
                    stat("pair_ising_swap_tempering_step", 1);
                } else {
                    toks.push("N".into());
                    stat("pair_ising_tempering_step_no_swap", 1);
                }
            }
            for i in 0..2 {
                let t = table_of_ising(&tc.graph_ref()[i].0);
                if oracle.is_ok() {
                    oracle = check_table(&t, &bonds[i], on[i]).map_err(|e| format!("sampler {} after {} swaps: {}", if i == 0 { "A" } else { "B" }, swaps, e));
                    if oracle.is_ok() && !on[i] && t.is_some() {
                        oracle = Err("table stored although heat-bath is disabled".into());
                    }
                }
                outs.push(show_table(&t));
            }
        }
        if !toks.is_empty() {
            emit(true, &format!("isingpair {} {} {} {}", sa.nvars, sa.desc(), sb.desc(), toks.join("+")), &outs.join(" "), Some(oracle));
        }

        // ---- two generic samplers with the same interaction list
        let (ra, rb) = (SharedRng::new(g.next()), SharedRng::new(g.next()));
        let nvars = g.range(1, 4) as usize;
        let mut qs = [GenQ::new_with_state(nvars, ra.clone(), vec![false; nvars], false), GenQ::new_with_state(nvars, rb.clone(), (0..nvars).map(|_| g.coin()).collect::<Vec<bool>>(), false)];
        let mut vars_list: Vec<RegBond> = vec![];
        let mut hb = [false, false];
        let mut toks: Vec<String> = vec![];
        let mut outs: Vec<String> = vec![];
        let mut oracle = Ok(());
        let nops = g.range(4, 14) as usize;
        for _ in 0..nops {
            let r = g.range(0, 11);
            let side = g.below(2) as usize;
            let lr = if side == 0 { "L" } else { "R" };
            let mut must = [false, false];
            let mut n_new = 1;
            if r < 3 || vars_list.is_empty() {
                let (mat, vars, d) = gen_interaction(g, nvars);
                for q in qs.iter_mut() {
                    add_interaction(q, &mat, &vars, d).unwrap();
                }
                toks.push(format!("LA!{}:0:{}", list(&vars), rats(&mat)));
                toks.push(format!("RA!{}:0:{}", list(&vars), rats(&mat)));
                vars_list.push(reg(vars, mat));
                n_new = 2;
            } else if r < 5 {
                hb[side] = g.chance(4, 5);
                qs[side].set_do_heatbath(hb[side]);
                toks.push(format!("{}H{}", lr, hb[side] as u8));
            } else if r < 8 {
                let beta = *g.pick(&[0.25, 0.5, 1.0, 2.0]);
                if catch(|| qs[side].diagonal_update(beta)).is_err() {
                    stat("pair_step_panicked", 1);
                    break;
                }
                toks.push(format!("{}D", lr));
                must[side] = hb[side];
            } else {
                let (l, rr) = qs.split_at_mut(1);
                if side == 0 {
                    l[0].swap_manager_and_state(&mut rr[0]);
                } else {
                    rr[0].swap_manager_and_state(&mut l[0]);
                }
                toks.push("S".into());
                stat("pair_generic_swap_direct", 1);
            }
            let mut line = vec![];
            for i in 0..2 {
                let smp = Smp::Gen(qs[i].clone(), vars_list.clone());
                let t = smp.table();
                if oracle.is_ok() {
                    oracle = check_table(&t, &smp.bonds(), must[i]);
                }
                line.push(show_table(&t));
            }
            for k in 0..n_new {
                // after the first of the two add tokens the right sampler has not got the interaction yet in the
                // model; the real code has already added both: report the table tokens of the final state for the
                // second token only, and for the first token what the state machine says (tables dropped on the left)
                if n_new == 2 && k == 0 {
                    outs.push("none".into());
                    outs.push(line_prev_right(&outs));
                } else {
                    outs.push(line[0].clone());
                    outs.push(line[1].clone());
                }
            }
        }
        emit(true, &format!("genpair {}", toks.join("+")), &outs.join(" "), Some(oracle));
    }
}

/// the right sampler's previous table token (third from the end after the left token has been pushed), or `none`
fn line_prev_right(outs: &[String]) -> String {
    // outs currently ends with the left token of this step; the previous step's right token is two before it
    if outs.len() >= 2 {
        outs[outs.len() - 2].clone()
    } else {
        "none".into()
    }
}

/// the real `make_bond_weights` on a table Hamiltonian (columns)
// ------------------------------------------------------------------------------------------------
// mode sweeps
// ------------------------------------------------------------------------------------------------

fn sweeps(g: &mut SplitMix64, nsamplers: usize) {
    for _ in 0..nsamplers {
        let rng = SharedRng::new(g.next());
        let (mut smp, kind, mut partner) = make_sampler(g, &rng);
        let heat = g.chance(3, 4);
        enable_heatbath(&mut smp, heat);
        let beta = *g.pick(&[0.25, 0.5, 1.0, 2.0]);
        if !swap_in_partner(g, &mut smp, &mut partner, heat, beta) {
            continue;
        }
        let has_h = smp.bonds().iter().any(|b| !b.constant && b.vars.len() == 1);
        for step in 0..6 {
            // a few full time steps first (cluster / RVB / loop updates create off-diagonal operators)
            if catch(|| smp.timestep(beta)).is_err() {
                stat("sweeps_warmup_panicked", 1);
                break;
            }
            let mut labels = check_registered(&smp).and_then(|_| check_labels(&smp, "after a full time step"));
            if kind.contains("rvb") {
                // explicit RVB sweeps (and a cluster step) right before the examined diagonal step; labels checked after each call
                for _ in 0..g.range(0, 3) {
                    if catch(|| smp.rvb_sweep()).is_err() {
                        break;
                    }
                    labels = labels.and_then(|_| check_labels(&smp, "after single_rvb_sweep"));
                    stat("sweeps_explicit_rvb_sweep", 1);
                }
                if g.chance(1, 4) && catch(|| smp.cluster_step()).is_ok() {
                    labels = labels.and_then(|_| check_labels(&smp, "after single_cluster_step"));
                }
            }
            // every third examined step of an Ising sampler is a drain: at beta = 1e-12 every operator with inputs == outputs has to go
            let drain = matches!(smp, Smp::Ising(..)) && g.chance(1, 3);
            let step_beta = if drain { 1e-12 } else { beta };
            if step == 3 && partner.is_none() && g.coin() {
                // toggling must leave the sampler consistent
                enable_heatbath(&mut smp, !heat);
                enable_heatbath(&mut smp, heat);
            }
            // snapshot / restore idiom: re-install the (sparse) operator string through `FastOps::new_from_ops`
            let restored = g.chance(1, 3) && restore_from_ops(&mut smp);
            let count_before = check_count(&smp, if restored { "right after new_from_ops" } else { "before the diagonal step" });
            let cfg = cfg_of(&smp, step_beta);
            let table = smp.table();
            rng.take_log();
            if let Err(p) = catch(|| smp.sweep(step_beta)) {
                emit(
                    true,
                    &format!("sweep-panic {} {} {} {} {} {}", kind, show_table_ham(&cfg.bonds), rat(step_beta), cfg.cutoff, bits(&cfg.state), show_cfg_slots(&cfg.slots)),
                    "PANIC",
                    Some(Err(format!("diagonal step panicked{}: {}", if restored { " on a string installed with new_from_ops" } else { "" }, p))),
                );
                break;
            }
            let log = rng.take_log();
            let out = RunOut { slots: smp.slots(), state: smp.state(), n: smp.get_n(), log: log.clone(), calls: vec![] };
            let after_table = smp.table();
            let mut oracle = labels.and_then(|_| count_before).and_then(|_| sweep_oracle(&cfg, &out)).and_then(|_| check_labels(&smp, "after the diagonal step"));
            if oracle.is_ok() && drain {
                if let Some((p, _)) = out.slots.iter().enumerate().find(|(_, o)| o.as_ref().map(|op| op.get_inputs() == op.get_outputs()).unwrap_or(false)) {
                    oracle = Err(format!("{} diagonal step at beta = 1e-12 left an operator with inputs == outputs at p={}", if heat { "heat-bath" } else { "default" }, p));
                }
                stat(&format!("sweeps_drain_{}", kind), 1);
            }
            if restored {
                stat("sweeps_on_string_restored_with_new_from_ops", 1);
                if cfg.slots.iter().rev().skip_while(|o| o.is_none()).any(|o| o.is_none()) {
                    stat("sweeps_restored_string_has_gaps", 1);
                }
            }
            if oracle.is_ok() {
                oracle = check_table(&after_table, &cfg.bonds, heat);
            }
            let head = match (&table, heat) {
                (_, false) => format!("msweep {}", show_table_ham(&cfg.bonds)),
                (Some((mx, _)), true) => format!("hsweep {} {}", show_table_ham(&cfg.bonds), rats(mx)),
                // generic sampler builds its table lazily inside diagonal_update: the table it used is the one stored afterwards
                (None, true) => format!("hsweep {} {}", show_table_ham(&cfg.bonds), show_table(&after_table)),
            };
            let input = format!("{} {} {} {} {} {}", head, rat(step_beta), cfg.cutoff, bits(&cfg.state), show_cfg_slots(&cfg.slots), words(&log));
            let output = format!("{} {} ok", show_cfg_slots(&out.slots), bits(&out.state));
            stat(&format!("sweeps_{}_{}", kind, if heat { "heatbath" } else { "metropolis" }), 1);
            if has_h {
                stat("sweeps_with_longitudinal_or_single_site_diag", 1);
            }
            if cfg.slots.iter().any(|o| is_offdiag(o)) {
                stat("sweeps_with_offdiagonal_ops", 1);
            }
            emit(true, &input, &output, Some(oracle));
        }
    }
}

// ------------------------------------------------------------------------------------------------
// mode energy
// ------------------------------------------------------------------------------------------------

/// The energy a heat-bath run reports: `timesteps` / `timesteps_sample` / `timesteps_measure` /
/// `timesteps_sample_iter` with sampling_freq None/1/2/3/5 must return −(Σ n over the SAMPLED steps / #sampled)/β + offset,
/// where the n are those of a manual `timestep` / `get_n` loop on a clone driven by the same RNG words.
fn energy(g: &mut SplitMix64, ncases: usize) {
    let mut done = 0;
    let mut tries = 0;
    while done < ncases && tries < ncases * 10 {
        tries += 1;
        let rng = SharedRng::new(g.next());
        let (mut smp, kind, mut partner) = make_sampler(g, &rng);
        let heat = g.chance(5, 6);
        enable_heatbath(&mut smp, heat);
        let beta = *g.pick(&[0.25, 0.5, 1.0, 2.0]);
        if !swap_in_partner(g, &mut smp, &mut partner, heat, beta) {
            continue;
        }
        if catch(|| smp.timestep(beta)).is_err() {
            continue;
        }
        let freq = *g.pick(&[None, Some(1usize), Some(2), Some(3), Some(5)]);
        let f = freq.unwrap_or(1);
        let t = g.range(f as i64, 12) as usize; // at least one sampled step
        let api = g.below(4);
        let seed = g.next();
        // --- manual loop on a clone
        let mut manual = smp.clone();
        rng.script(vec![], seed);
        let mut ns = vec![];
        let mut ok = true;
        for _ in 0..t {
            ok &= catch(|| manual.timestep(beta)).is_ok();
            ns.push(manual.get_n());
        }
        if !ok {
            continue;
        }
        let manual_log = rng.take_log();
        let sampled: Vec<usize> = (0..t).filter(|i| (i + 1) % f == 0).map(|i| ns[i]).collect();
        let total: usize = sampled.iter().sum();
        let want = -((total as f64 / sampled.len() as f64) / beta) + smp.offset();
        // --- the library's measuring loop, same RNG words
        rng.script(vec![], seed);
        let api_name;
        let got = catch(|| match (&mut smp, api) {
            (Smp::Ising(q, _), 0) | (Smp::Ising(q, _), 1) if freq.is_none() => q.timesteps(t, beta),
            (Smp::Gen(q, _), 0) | (Smp::Gen(q, _), 1) if freq.is_none() => q.timesteps(t, beta),
            (Smp::Ising(q, _), 0) => q.timesteps_sample(t, beta, freq).1,
            (Smp::Gen(q, _), 0) => q.timesteps_sample(t, beta, freq).1,
            (Smp::Ising(q, _), 1) => q.timesteps_measure(t, beta, 0usize, |a, _| a + 1, freq).1,
            (Smp::Gen(q, _), 1) => q.timesteps_measure(t, beta, 0usize, |a, _| a + 1, freq).1,
            (Smp::Ising(q, _), 2) => q.timesteps_sample_iter(t, beta, freq, |_| ()),
            (Smp::Gen(q, _), 2) => q.timesteps_sample_iter(t, beta, freq, |_| ()),
            (Smp::Ising(q, _), _) => q.timesteps_measure_with_self(t, beta, (), |_, _| (), freq).1,
            (Smp::Gen(q, _), _) => q.timesteps_measure_with_self(t, beta, (), |_, _| (), freq).1,
        });
        api_name = match (api, freq.is_none()) {
            (0, true) | (1, true) => "timesteps",
            (0, false) => "timesteps_sample",
            (1, false) => "timesteps_measure",
            (2, _) => "timesteps_sample_iter",
            _ => "timesteps_measure_with_self",
        };
        let lib_log = rng.take_log();
        let input = format!("energy {} {} {} {} {}", rat(beta), rat(smp.offset()), f, t, list(&ns));
        let mut oracle = Ok(());
        let output = match got {
            Err(p) => {
                oracle = Err(format!("{} panicked: {}", api_name, p));
                "PANIC".to_string()
            }
            Ok(e) => {
                if lib_log != manual_log {
                    oracle = Err(format!("{} drew other RNG words than {} manual time steps", api_name, t));
                } else if smp.get_n() != *ns.last().unwrap() || smp.slots() != manual.slots() {
                    oracle = Err(format!("{} did not end in the state of {} manual time steps", api_name, t));
                } else if !((e - want).abs() <= 1e-12 * want.abs().max(1.0)) {
                    oracle = Err(format!(
                        "{}(t={}, beta={}, sampling_freq={:?}) returned {} but -(sum n over sampled steps {:?} / {})/beta + offset {} = {}",
                        api_name, t, beta, freq, e, sampled, sampled.len(), smp.offset(), want
                    ));
                }
                approx(e)
            }
        };
        stat(&format!("energy_{}_{}", api_name, if heat { "heatbath" } else { "metropolis" }), 1);
        stat(&format!("energy_freq_{}", freq.map(|k| k.to_string()).unwrap_or("none".into())), 1);
        stat(&format!("energy_{}", kind), 1);
        emit(true, &input, &output, Some(oracle));
        done += 1;
    }
}

fn main() {
    quiet_panics();
    let a = args();
    let mut g = SplitMix64::new(a.seed ^ 0xC02);
    match a.mode.as_str() {
        "tables" => tables(&mut g, if a.thorough { 15000 } else { 1500 }),
        "pairs" => pair_tables(&mut g, if a.thorough { 8000 } else { 800 }),
        "sweeps" => sweeps(&mut g, if a.thorough { 8000 } else { 1000 }),
        "energy" => energy(&mut g, if a.thorough { 6000 } else { 600 }),
        "prob" => {
            let want = if a.thorough { 3000 } else { 300 };
            let mut done = 0;
            let mut tries = 0;
            while done < want && tries < want * 30 {
                tries += 1;
                if prob_case(&mut g) {
                    done += 1;
                }
            }
            stat("prob_tries", tries);
        }
        m => panic!("unknown mode {}", m),
    }
}
