//! C02 — heat-bath diagonal update through the public samplers.
//!   tables : bond-weight table after every public operation (serde snapshot of the sampler) for random
//!            operation sequences on `Qmc` (add interaction / set_do_heatbath / diagonal_update) and on
//!            `QmcIsingGraph` (set_enable_heatbath / steps); the Ising Hamiltonian itself (`isingham`).
//!   sweeps : exact trajectory of `single_diagonal_step` / `diagonal_update` on warmed-up samplers (RVB and
//!            h != 0 on for part of them), heat-bath on and off, replayed by the model.
//!   prob   : threshold bisection of the heat-bath draws of a slot inside `single_diagonal_step` /
//!            `diagonal_update`, and of the removal of the inserted operator in the next sweep; oracle:
//!            p_insert/p_remove = beta*w/(L-n) on measured numbers only.

#[path = "c08_shared/mod.rs"]
mod shared;

use qmc::sse::fast_ops::{FastOp, FastOps};
use qmc::sse::*;
use rand::{Error, RngCore};
use shared::*;
use std::cell::RefCell;
use std::rc::Rc;
use vh::*;

/// RNG handle shared between a sampler (and its clones) and the harness.
#[derive(Clone)]
struct SharedRng(Rc<RefCell<RecRng>>);
impl SharedRng {
    fn new(seed: u64) -> Self {
        SharedRng(Rc::new(RefCell::new(RecRng::new(seed))))
    }
    fn script(&self, words: Vec<u64>, seed: u64) {
        *self.0.borrow_mut() = RecRng::scripted(words, seed);
    }
    fn take_log(&self) -> Vec<u64> {
        self.0.borrow_mut().take_log()
    }
}
impl RngCore for SharedRng {
    fn next_u32(&mut self) -> u32 {
        self.0.borrow_mut().next_u32()
    }
    fn next_u64(&mut self) -> u64 {
        self.0.borrow_mut().next_u64()
    }
    fn fill_bytes(&mut self, dest: &mut [u8]) {
        self.0.borrow_mut().fill_bytes(dest)
    }
    fn try_fill_bytes(&mut self, dest: &mut [u8]) -> Result<(), Error> {
        self.0.borrow_mut().try_fill_bytes(dest)
    }
}
impl serde::Serialize for SharedRng {
    fn serialize<S: serde::Serializer>(&self, s: S) -> Result<S::Ok, S::Error> {
        s.serialize_unit()
    }
}

type IsingQ = DefaultQmcIsingGraph<SharedRng>;
type GenQ = DefaultQmc<SharedRng>;

#[derive(Clone)]
enum Smp {
    Ising(IsingQ, Vec<((usize, usize), f64)>),
    Gen(GenQ, Vec<Vec<usize>>),
}

fn patterns(n: usize) -> Vec<Vec<bool>> {
    (0..(1usize << n)).map(|i| (0..n).map(|b| (i >> (n - 1 - b)) & 1 == 1).collect()).collect()
}

impl Smp {
    fn slots(&self) -> Vec<Option<FastOp>> {
        let m: &FastOps = match self {
            Smp::Ising(q, _) => q.get_manager_ref(),
            Smp::Gen(q, _) => q.get_manager_ref(),
        };
        (0..m.get_cutoff()).map(|p| m.get_pth(p).cloned()).collect()
    }
    fn state(&self) -> Vec<bool> {
        match self {
            Smp::Ising(q, _) => q.clone_state(),
            Smp::Gen(q, _) => q.clone_state(),
        }
    }
    fn cutoff(&self) -> usize {
        match self {
            Smp::Ising(q, _) => q.get_cutoff(),
            Smp::Gen(q, _) => q.get_cutoff(),
        }
    }
    fn sweep(&mut self, beta: f64) {
        match self {
            Smp::Ising(q, _) => q.single_diagonal_step(beta),
            Smp::Gen(q, _) => q.diagonal_update(beta),
        }
    }
    fn timestep(&mut self, beta: f64) {
        match self {
            Smp::Ising(q, _) => {
                q.timestep(beta);
            }
            Smp::Gen(q, _) => {
                q.timestep(beta);
            }
        }
    }
    /// the Hamiltonian as the sampler itself evaluates it (public `hamiltonian` / `Interaction::at`)
    fn bonds(&self) -> Vec<TableBond> {
        match self {
            Smp::Ising(q, edges) => {
                let info = q.make_haminfo();
                let nvars = q.get_nvars();
                let snap = serde_json::to_value(q).unwrap();
                let h = snap["longitudinal"].as_f64().unwrap();
                let mut out = vec![];
                let mut push = |vars: Vec<usize>, constant: bool, b: usize| {
                    let pats = patterns(vars.len());
                    let mut mat = vec![];
                    for o in &pats {
                        for i in &pats {
                            mat.push(IsingQ::hamiltonian(&info, &vars, b, i, o));
                        }
                    }
                    out.push(TableBond { vars, constant, mat });
                };
                for (b, ((x, y), _)) in edges.iter().enumerate() {
                    push(vec![*x, *y], false, b);
                }
                for v in 0..nvars {
                    push(vec![v], true, edges.len() + v);
                }
                if h.abs() > f64::EPSILON {
                    for v in 0..nvars {
                        push(vec![v], false, edges.len() + nvars + v);
                    }
                }
                out
            }
            Smp::Gen(q, vars) => q
                .get_bonds()
                .iter()
                .zip(vars.iter())
                .map(|(int, vs)| {
                    let pats = patterns(vs.len());
                    let mut mat = vec![];
                    for o in &pats {
                        for i in &pats {
                            mat.push(int.at(i, o).unwrap());
                        }
                    }
                    TableBond { vars: vs.clone(), constant: int.is_constant(), mat }
                })
                .collect(),
        }
    }
    /// stored bond-weight table (max-weight column) read from the serde snapshot
    fn table(&self) -> Option<(Vec<f64>, Vec<f64>)> {
        let snap = match self {
            Smp::Ising(q, _) => serde_json::to_value(q).unwrap(),
            Smp::Gen(q, _) => serde_json::to_value(q).unwrap(),
        };
        table_of_value(&snap)
    }
    fn bond_weights(&self) -> Option<BondWeights> {
        self.table().map(|(mx, _)| BondWeights::new(mx))
    }
}

fn show_table(t: &Option<(Vec<f64>, Vec<f64>)>) -> String {
    match t {
        None => "none".into(),
        Some((mx, _)) => rats(mx),
    }
}

fn expected_table(bonds: &[TableBond]) -> Vec<f64> {
    bonds
        .iter()
        .map(|tb| {
            let dim = 1usize << tb.vars.len();
            (0..dim).map(|s| tb.mat[s * dim + s]).fold(0.0, f64::max)
        })
        .collect()
}

fn check_table(t: &Option<(Vec<f64>, Vec<f64>)>, bonds: &[TableBond], must_exist: bool) -> Result<(), String> {
    match t {
        None if must_exist => Err("heat-bath is on and a diagonal update ran, but no table is stored".into()),
        None => Ok(()),
        Some((mx, cum)) => {
            let want = expected_table(bonds);
            if *mx != want {
                return Err(format!("stored table {:?} is not the table of the current interactions {:?}", mx, want));
            }
            let mut run = 0.0;
            for (m, c) in mx.iter().zip(cum.iter()) {
                run += m;
                if *c != run {
                    return Err(format!("cumulative column {:?} is not the running sum of {:?}", cum, mx));
                }
            }
            Ok(())
        }
    }
}

// ------------------------------------------------------------------------------------------------
// sampler generators
// ------------------------------------------------------------------------------------------------

const JS: [f64; 8] = [-2.0, -1.0, -0.5, 0.25, 0.5, 1.0, 1.5, 3.0];

#[derive(Clone, Debug)]
struct IsingSpec {
    nvars: usize,
    edges: Vec<((usize, usize), f64)>,
    gamma: f64,
    h: f64,
    cutoff: usize,
    state: Vec<bool>,
}
impl IsingSpec {
    fn desc(&self) -> String {
        let etok: Vec<String> = self.edges.iter().map(|((a, b), j)| format!("{}:{}:{}", a, b, rat(*j))).collect();
        format!("{} {} {}", etok.join(","), rat(self.gamma), rat(self.h))
    }
    fn build(&self, rng: &SharedRng) -> IsingQ {
        IsingQ::new_with_rng(self.edges.clone(), self.gamma, self.h, self.cutoff, rng.clone(), Some(self.state.clone()))
    }
}

fn gen_ising_spec(g: &mut SplitMix64) -> IsingSpec {
    let nvars = g.range(2, 4) as usize;
    let mut edges: Vec<((usize, usize), f64)> = vec![];
    for a in 0..nvars {
        let b = (a + 1) % nvars;
        if a < b || nvars > 2 {
            if a != b && !(nvars == 2 && a == 1) {
                edges.push(((a, b), *g.pick(&JS)));
            }
        }
    }
    if nvars >= 3 && g.coin() {
        edges.pop();
    }
    // variable nvars-1 must appear in some edge (nvars is inferred from the edges)
    if !edges.iter().any(|((a, b), _)| *a == nvars - 1 || *b == nvars - 1) {
        edges.push(((nvars - 2, nvars - 1), *g.pick(&JS)));
    }
    let gamma = *g.pick(&[0.25, 0.5, 1.0, 2.0]);
    let h = *g.pick(&[0.0, 0.0, 0.25, -0.5, 1.0]);
    let cutoff = g.range(1, 6) as usize;
    let state: Vec<bool> = (0..nvars).map(|_| g.coin()).collect();
    IsingSpec { nvars, edges, gamma, h, cutoff, state }
}

/// A partner that passes `can_swap_managers` (same edges, same signs of J and h) but has other magnitudes of
/// J, Γ and h — i.e. a different bond-weight table.
fn gen_partner_spec(g: &mut SplitMix64, a: &IsingSpec) -> IsingSpec {
    let f = [0.25, 0.5, 0.5, 1.0, 2.0, 4.0];
    let edges = a.edges.iter().map(|(e, j)| (*e, j * *g.pick(&f))).collect();
    let gamma = a.gamma * *g.pick(&f);
    let h = a.h * *g.pick(&[0.5, 1.0, 2.0]);
    IsingSpec { nvars: a.nvars, edges, gamma, h, cutoff: g.range(1, 6) as usize, state: (0..a.nvars).map(|_| g.coin()).collect() }
}

fn gen_ising(g: &mut SplitMix64, rng: &SharedRng) -> (Smp, String) {
    let spec = gen_ising_spec(g);
    let q = spec.build(rng);
    let desc = format!("{} {}", spec.nvars, spec.desc());
    (Smp::Ising(q, spec.edges), desc)
}

fn table_of_ising(q: &IsingQ) -> Option<(Vec<f64>, Vec<f64>)> {
    table_of_value(&serde_json::to_value(q).unwrap())
}

fn table_of_value(snap: &serde_json::Value) -> Option<(Vec<f64>, Vec<f64>)> {
    let t = &snap["bond_weights"];
    if t.is_null() {
        return None;
    }
    let rows = t["max_weight_and_cumulative"].as_array().unwrap();
    Some((rows.iter().map(|r| r[1].as_f64().unwrap()).collect(), rows.iter().map(|r| r[2].as_f64().unwrap()).collect()))
}

/// a random valid interaction: (full matrix over outs++ins, vars, use the diagonal constructor)
fn gen_interaction(g: &mut SplitMix64, nvars: usize) -> (Vec<f64>, Vec<usize>, bool) {
    let k = gen_arity(g, nvars);
    let mut vars: Vec<usize> = vec![];
    while vars.len() < k {
        let v = g.below(nvars as u64) as usize;
        if !vars.contains(&v) {
            vars.push(v);
        }
    }
    let dim = 1usize << k;
    if k >= 3 {
        // many-body diagonal term through `make_diagonal_interaction`, maximum at a controlled sub-state
        let d = gen_multi_diag(g, k);
        let mut mat = vec![0.0; dim * dim];
        for s in 0..dim {
            mat[s * dim + s] = d[s];
        }
        return (mat, vars, true);
    }
    let diag_ctor = g.chance(1, 3);
    let constant = !diag_ctor && k == 1 && g.chance(1, 2);
    let cw = *g.pick(&[0.5, 1.0, 2.0]);
    let mut mat = vec![0.0; dim * dim];
    for o in 0..dim {
        for i in 0..dim {
            mat[o * dim + i] = if constant {
                cw
            } else if o == i {
                *g.pick(&[0.0, 0.125, 0.25, 0.5, 0.75, 1.0, 1.5, 2.0, 3.0])
            } else if diag_ctor {
                0.0
            } else {
                *g.pick(&[0.0, 0.0, 0.5, 1.0])
            };
        }
    }
    (mat, vars, diag_ctor)
}

fn add_interaction(q: &mut GenQ, mat: &[f64], vars: &[usize], diag_ctor: bool) -> Result<(), String> {
    if diag_ctor {
        let dim = 1usize << vars.len();
        let d: Vec<f64> = (0..dim).map(|s| mat[s * dim + s]).collect();
        q.make_diagonal_interaction(d, vars.to_vec())
    } else {
        q.make_interaction(mat.to_vec(), vars.to_vec())
    }
}

fn gen_generic(g: &mut SplitMix64, rng: &SharedRng) -> Smp {
    let nvars = g.range(1, 4) as usize;
    let state: Vec<bool> = (0..nvars).map(|_| g.coin()).collect();
    let mut q = GenQ::new_with_state(nvars, rng.clone(), state, g.coin());
    let mut vars_list = vec![];
    // every variable gets a constant single-site term (so that off-diagonal ops appear), plus random bonds
    for v in 0..nvars {
        if g.chance(3, 4) {
            let w = *g.pick(&[0.5, 1.0]);
            q.make_interaction(vec![w; 4], vec![v]).unwrap();
            vars_list.push(vec![v]);
        }
    }
    for _ in 0..g.range(1, 3) {
        let (mat, vars, d) = gen_interaction(g, nvars);
        add_interaction(&mut q, &mat, &vars, d).unwrap();
        vars_list.push(vars);
    }
    Smp::Gen(q, vars_list)
}

/// generic sampler with one diagonal term on 3 or 4 variables whose unique maximum sits at a uniformly chosen
/// sub-state, started in that sub-state (transverse terms only on some variables, so it often stays there)
fn gen_generic_multi(g: &mut SplitMix64, rng: &SharedRng) -> Smp {
    let nvars = g.range(3, 4) as usize;
    let k = if nvars == 4 && g.coin() { 4 } else { 3 };
    let mut vars: Vec<usize> = vec![];
    while vars.len() < k {
        let v = g.below(nvars as u64) as usize;
        if !vars.contains(&v) {
            vars.push(v);
        }
    }
    let dim = 1usize << k;
    let top = *g.pick(&[1.5, 2.0, 3.0, 4.0]);
    let m = g.below(dim as u64) as usize;
    let d: Vec<f64> = (0..dim).map(|s| if s == m { top } else { *g.pick(&[0.0, 0.125, 0.25, 0.5, 0.75, 1.0]) }).collect();
    stat(&format!("multivar_bond_k{}_argmax_{}", k, m), 1);
    let mut state: Vec<bool> = (0..nvars).map(|_| g.coin()).collect();
    for (pos, v) in vars.iter().enumerate() {
        state[*v] = (m >> (k - 1 - pos)) & 1 == 1;
    }
    let mut q = GenQ::new_with_state(nvars, rng.clone(), state, g.coin());
    let mut vars_list = vec![];
    q.make_diagonal_interaction(d, vars.clone()).unwrap();
    vars_list.push(vars);
    for v in 0..nvars {
        if g.chance(1, 3) {
            q.make_interaction(vec![0.5; 4], vec![v]).unwrap();
            vars_list.push(vec![v]);
        }
    }
    if g.coin() {
        let (mat, vars, dg) = gen_interaction(g, nvars);
        add_interaction(&mut q, &mat, &vars, dg).unwrap();
        vars_list.push(vars);
    }
    Smp::Gen(q, vars_list)
}

fn enable_heatbath(s: &mut Smp, on: bool) {
    match s {
        Smp::Ising(q, _) => q.set_enable_heatbath(on),
        Smp::Gen(q, _) => q.set_do_heatbath(on),
    }
}

// ------------------------------------------------------------------------------------------------
// mode tables
// ------------------------------------------------------------------------------------------------

fn tables(g: &mut SplitMix64, ncases: usize) {
    for _ in 0..ncases {
        // ---- generic sampler: random operation sequence
        let rng = SharedRng::new(g.next());
        let nvars = g.range(1, 4) as usize;
        let mut q = GenQ::new_with_state(nvars, rng.clone(), vec![false; nvars], false);
        let mut vars_list: Vec<Vec<usize>> = vec![];
        let nops = g.range(2, 12) as usize;
        let mut toks = vec![];
        let mut outs = vec![];
        let mut oracle = Ok(());
        let mut hb = false;
        let mut rebuilt_after_add = false;
        let mut had_table = false;
        for _ in 0..nops {
            let r = g.range(0, 9);
            let mut must = false;
            if r < 4 || vars_list.is_empty() {
                let (mat, vars, d) = gen_interaction(g, nvars);
                add_interaction(&mut q, &mat, &vars, d).unwrap();
                toks.push(format!("A!{}:0:{}", list(&vars), rats(&mat)));
                vars_list.push(vars);
                if had_table {
                    rebuilt_after_add = true;
                }
            } else if r < 6 {
                hb = g.chance(3, 4);
                q.set_do_heatbath(hb);
                toks.push(format!("H{}", hb as u8));
            } else {
                let beta = *g.pick(&[0.25, 0.5, 1.0, 2.0]);
                if let Err(p) = catch(|| q.diagonal_update(beta)) {
                    oracle = Err(format!("diagonal_update panicked: {}", p));
                    break;
                }
                toks.push("D".into());
                must = hb;
            }
            let smp = Smp::Gen(q.clone(), vars_list.clone());
            let t = smp.table();
            had_table |= t.is_some();
            if oracle.is_ok() {
                oracle = check_table(&t, &smp.bonds(), must);
            }
            outs.push(show_table(&t));
            q = match smp {
                Smp::Gen(q, _) => q,
                _ => unreachable!(),
            };
        }
        if rebuilt_after_add {
            stat("tables_generic_add_after_table_built", 1);
        }
        emit(true, &format!("gentable {}", toks.join("+")), &outs.join(" "), Some(oracle));

        // ---- Ising sampler
        let rng = SharedRng::new(g.next());
        let (mut smp, desc) = gen_ising(g, &rng);
        if g.coin() {
            if let Smp::Ising(q, _) = &mut smp {
                q.set_run_rvb(true);
            }
            stat("tables_ising_rvb", 1);
        }
        let bonds = smp.bonds();
        let exp = expected_table(&bonds);
        if exp.iter().any(|w| *w != exp[0]) {
            stat("tables_ising_unequal_maxima", 1);
        }
        emit(true, &format!("isingham {}", desc), &format!("{} {}", show_table_ham(&bonds), rats(&exp)), Some(check_table(&Some((real_columns(&bonds).0, real_columns(&bonds).1)), &bonds, true)));
        let nops = g.range(2, 10) as usize;
        let mut toks = vec![];
        let mut outs = vec![];
        let mut oracle = Ok(());
        let mut on = false;
        for _ in 0..nops {
            let r = g.range(0, 9);
            if r < 4 {
                on = g.chance(2, 3);
                enable_heatbath(&mut smp, on);
                toks.push(format!("E{}", on as u8));
            } else {
                let beta = *g.pick(&[0.25, 0.5, 1.0, 2.0]);
                let full = g.coin();
                if let Err(p) = catch(|| if full { smp.timestep(beta) } else { smp.sweep(beta) }) {
                    // a panic inside RVB / cluster code is not this property's business; stop the sequence
                    stat("tables_ising_step_panicked", 1);
                    let _ = p;
                    break;
                }
                toks.push("D".into());
            }
            let t = smp.table();
            if oracle.is_ok() {
                oracle = check_table(&t, &bonds, on);
                if !on && t.is_some() {
                    oracle = Err("table stored although heat-bath is disabled".into());
                }
            }
            outs.push(show_table(&t));
        }
        if !toks.is_empty() {
            emit(true, &format!("isingtable {} {}", desc, toks.join("+")), &outs.join(" "), Some(oracle));
        }
    }
}

/// Pairs of samplers exchanging their operator strings: every sampler's stored table must stay the table of
/// its OWN Hamiltonian (after every public call).
fn pair_tables(g: &mut SplitMix64, ncases: usize) {
    for _ in 0..ncases {
        // ---- two Ising samplers in a tempering container
        let (ra, rb) = (SharedRng::new(g.next()), SharedRng::new(g.next()));
        let sa = gen_ising_spec(g);
        let sb = gen_partner_spec(g, &sa);
        let mut tc: TemperingContainer<RecRng, IsingQ> = TemperingContainer::new(RecRng::scripted(vec![0u64; 4096], g.next()));
        if tc.add_qmc_stepper(sa.build(&ra), 1.0).is_err() || tc.add_qmc_stepper(sb.build(&rb), 1.0).is_err() {
            emit(true, &format!("pair-rejected {} {}", sa.desc(), sb.desc()), "REJECTED", Some(Err("can_swap_managers rejected a same-sign pair".into())));
            continue;
        }
        let bonds = [Smp::Ising(tc.graph_ref()[0].0.clone(), sa.edges.clone()).bonds(), Smp::Ising(tc.graph_ref()[1].0.clone(), sb.edges.clone()).bonds()];
        if expected_table(&bonds[0]) != expected_table(&bonds[1]) {
            stat("pair_ising_tables_differ", 1);
        }
        let mut on = [false, false];
        let mut toks: Vec<String> = vec![];
        let mut outs: Vec<String> = vec![];
        let mut oracle = Ok(());
        let mut swaps = 0usize;
        let nops = g.range(4, 14) as usize;
        for _ in 0..nops {
            let r = g.range(0, 11);
            let side = g.below(2) as usize;
            let lr = if side == 0 { "L" } else { "R" };
            if r < 3 {
                on[side] = g.chance(4, 5);
                tc.graph_mut()[side].0.set_enable_heatbath(on[side]);
                toks.push(format!("{}E{}", lr, on[side] as u8));
            } else if r < 6 {
                let beta = *g.pick(&[0.25, 0.5, 1.0, 2.0]);
                let full = g.coin();
                let q = &mut tc.graph_mut()[side].0;
                if catch(|| if full { q.timestep(beta); } else { q.single_diagonal_step(beta) }).is_err() {
                    stat("pair_step_panicked", 1);
                    break;
                }
                toks.push(format!("{}D", lr));
                if swaps % 2 == 1 && on[side] {
                    stat("pair_ising_heatbath_step_after_odd_swaps", 1);
                }
            } else if r < 9 {
                let (l, rr) = tc.graph_mut().split_at_mut(1);
                if side == 0 {
                    l[0].0.swap_manager_and_state(&mut rr[0].0);
                } else {
                    rr[0].0.swap_manager_and_state(&mut l[0].0);
                }
                swaps += 1;
                toks.push("S".into());
                stat("pair_ising_swap_direct", 1);
            } else {
                let before = tc.get_total_swaps();
                if catch(|| tc.tempering_step()).is_err() {
                    stat("pair_step_panicked", 1);
                    break;
                }
                if tc.get_total_swaps() > before {
                    swaps += 1;
                    toks.push("S".into());
                    stat("pair_ising_swap_tempering_step", 1);
                } else {
                    toks.push("N".into());
                    stat("pair_ising_tempering_step_no_swap", 1);
                }
            }
            for i in 0..2 {
                let t = table_of_ising(&tc.graph_ref()[i].0);
                if oracle.is_ok() {
                    oracle = check_table(&t, &bonds[i], on[i]).map_err(|e| format!("sampler {} after {} swaps: {}", if i == 0 { "A" } else { "B" }, swaps, e));
                    if oracle.is_ok() && !on[i] && t.is_some() {
                        oracle = Err("table stored although heat-bath is disabled".into());
                    }
                }
                outs.push(show_table(&t));
            }
        }
        if !toks.is_empty() {
            emit(true, &format!("isingpair {} {} {} {}", sa.nvars, sa.desc(), sb.desc(), toks.join("+")), &outs.join(" "), Some(oracle));
        }

        // ---- two generic samplers with the same interaction list
        let (ra, rb) = (SharedRng::new(g.next()), SharedRng::new(g.next()));
        let nvars = g.range(1, 4) as usize;
        let mut qs = [GenQ::new_with_state(nvars, ra.clone(), vec![false; nvars], false), GenQ::new_with_state(nvars, rb.clone(), (0..nvars).map(|_| g.coin()).collect::<Vec<bool>>(), false)];
        let mut vars_list: Vec<Vec<usize>> = vec![];
        let mut hb = [false, false];
        let mut toks: Vec<String> = vec![];
        let mut outs: Vec<String> = vec![];
        let mut oracle = Ok(());
        let nops = g.range(4, 14) as usize;
        for _ in 0..nops {
            let r = g.range(0, 11);
            let side = g.below(2) as usize;
            let lr = if side == 0 { "L" } else { "R" };
            let mut must = [false, false];
            let mut n_new = 1;
            if r < 3 || vars_list.is_empty() {
                let (mat, vars, d) = gen_interaction(g, nvars);
                for q in qs.iter_mut() {
                    add_interaction(q, &mat, &vars, d).unwrap();
                }
                toks.push(format!("LA!{}:0:{}", list(&vars), rats(&mat)));
                toks.push(format!("RA!{}:0:{}", list(&vars), rats(&mat)));
                vars_list.push(vars);
                n_new = 2;
            } else if r < 5 {
                hb[side] = g.chance(4, 5);
                qs[side].set_do_heatbath(hb[side]);
                toks.push(format!("{}H{}", lr, hb[side] as u8));
            } else if r < 8 {
                let beta = *g.pick(&[0.25, 0.5, 1.0, 2.0]);
                if catch(|| qs[side].diagonal_update(beta)).is_err() {
                    stat("pair_step_panicked", 1);
                    break;
                }
                toks.push(format!("{}D", lr));
                must[side] = hb[side];
            } else {
                let (l, rr) = qs.split_at_mut(1);
                if side == 0 {
                    l[0].swap_manager_and_state(&mut rr[0]);
                } else {
                    rr[0].swap_manager_and_state(&mut l[0]);
                }
                toks.push("S".into());
                stat("pair_generic_swap_direct", 1);
            }
            let mut line = vec![];
            for i in 0..2 {
                let smp = Smp::Gen(qs[i].clone(), vars_list.clone());
                let t = smp.table();
                if oracle.is_ok() {
                    oracle = check_table(&t, &smp.bonds(), must[i]);
                }
                line.push(show_table(&t));
            }
            for k in 0..n_new {
                // after the first of the two add tokens the right sampler has not got the interaction yet in the
                // model; the real code has already added both: report the table tokens of the final state for the
                // second token only, and for the first token what the state machine says (tables dropped on the left)
                if n_new == 2 && k == 0 {
                    outs.push("none".into());
                    outs.push(line_prev_right(&outs));
                } else {
                    outs.push(line[0].clone());
                    outs.push(line[1].clone());
                }
            }
        }
        emit(true, &format!("genpair {}", toks.join("+")), &outs.join(" "), Some(oracle));
    }
}

/// the right sampler's previous table token (third from the end after the left token has been pushed), or `none`
fn line_prev_right(outs: &[String]) -> String {
    // outs currently ends with the left token of this step; the previous step's right token is two before it
    if outs.len() >= 2 {
        outs[outs.len() - 2].clone()
    } else {
        "none".into()
    }
}

/// the real `make_bond_weights` on a table Hamiltonian (columns)
fn real_columns(bonds: &[TableBond]) -> (Vec<f64>, Vec<f64>) {
    table_columns(&real_table(bonds))
}

// ------------------------------------------------------------------------------------------------
// mode sweeps
// ------------------------------------------------------------------------------------------------

fn cfg_of(s: &Smp, beta: f64) -> Cfg {
    let state = s.state();
    Cfg { bonds: s.bonds(), nvars: state.len(), state, slots: s.slots(), cutoff: s.cutoff(), beta }
}

fn make_sampler(g: &mut SplitMix64, rng: &SharedRng) -> (Smp, &'static str, Option<IsingQ>) {
    let r = g.below(8);
    if r == 0 {
        // an Ising sampler that will receive the operator string of a partner with other coupling magnitudes
        let sa = gen_ising_spec(g);
        let sb = gen_partner_spec(g, &sa);
        let partner = sb.build(&SharedRng::new(g.next()));
        (Smp::Ising(sa.build(rng), sa.edges), "ising_swapped", Some(partner))
    } else if r < 4 {
        let (mut s, _) = gen_ising(g, rng);
        let rvb = g.coin();
        if rvb {
            if let Smp::Ising(q, _) = &mut s {
                q.set_run_rvb(true);
            }
        }
        (s, if rvb { "ising_rvb" } else { "ising" }, None)
    } else if g.chance(1, 3) {
        (gen_generic_multi(g, rng), "generic_manybody", None)
    } else {
        (gen_generic(g, rng), "generic", None)
    }
}

/// for kind `ising_swapped`, after heat-bath has been configured: warm both samplers up and exchange the
/// operator strings (an odd number of swaps), as a tempering step between different Hamiltonians does
fn swap_in_partner(g: &mut SplitMix64, smp: &mut Smp, partner: &mut Option<IsingQ>, heat: bool, beta: f64) -> bool {
    if let (Smp::Ising(q, _), Some(p)) = (smp, partner.as_mut()) {
        p.set_enable_heatbath(heat);
        for _ in 0..g.range(1, 3) {
            if catch(|| { q.timestep(beta); p.timestep(beta); }).is_err() {
                return false;
            }
        }
        for _ in 0..(2 * g.range(0, 1) + 1) {
            if g.coin() {
                q.swap_manager_and_state(p);
            } else {
                p.swap_manager_and_state(q);
            }
        }
    }
    true
}

fn sweeps(g: &mut SplitMix64, nsamplers: usize) {
    for _ in 0..nsamplers {
        let rng = SharedRng::new(g.next());
        let (mut smp, kind, mut partner) = make_sampler(g, &rng);
        let heat = g.chance(3, 4);
        enable_heatbath(&mut smp, heat);
        let beta = *g.pick(&[0.25, 0.5, 1.0, 2.0]);
        if !swap_in_partner(g, &mut smp, &mut partner, heat, beta) {
            continue;
        }
        let has_h = smp.bonds().iter().any(|b| !b.constant && b.vars.len() == 1);
        for step in 0..6 {
            // a few full time steps first (cluster / RVB / loop updates create off-diagonal operators)
            if catch(|| smp.timestep(beta)).is_err() {
                stat("sweeps_warmup_panicked", 1);
                break;
            }
            if step == 3 && partner.is_none() && g.coin() {
                // toggling must leave the sampler consistent
                enable_heatbath(&mut smp, !heat);
                enable_heatbath(&mut smp, heat);
            }
            let cfg = cfg_of(&smp, beta);
            let table = smp.table();
            rng.take_log();
            if let Err(p) = catch(|| smp.sweep(beta)) {
                emit(true, &format!("sweep-panic {}", kind), "PANIC", Some(Err(format!("diagonal step panicked: {}", p))));
                break;
            }
            let log = rng.take_log();
            let out = RunOut { slots: smp.slots(), state: smp.state(), n: count_ops(&smp.slots()), log: log.clone(), calls: vec![] };
            let after_table = smp.table();
            let mut oracle = sweep_oracle(&cfg, &out);
            if oracle.is_ok() {
                oracle = check_table(&after_table, &cfg.bonds, heat);
            }
            let head = match (&table, heat) {
                (_, false) => format!("msweep {}", show_table_ham(&cfg.bonds)),
                (Some((mx, _)), true) => format!("hsweep {} {}", show_table_ham(&cfg.bonds), rats(mx)),
                // generic sampler builds its table lazily inside diagonal_update: the table it used is the one stored afterwards
                (None, true) => format!("hsweep {} {}", show_table_ham(&cfg.bonds), show_table(&after_table)),
            };
            let input = format!("{} {} {} {} {} {}", head, rat(beta), cfg.cutoff, bits(&cfg.state), show_cfg_slots(&cfg.slots), words(&log));
            let output = format!("{} {} ok", show_cfg_slots(&out.slots), bits(&out.state));
            stat(&format!("sweeps_{}_{}", kind, if heat { "heatbath" } else { "metropolis" }), 1);
            if has_h {
                stat("sweeps_with_longitudinal_or_single_site_diag", 1);
            }
            if cfg.slots.iter().any(|o| is_offdiag(o)) {
                stat("sweeps_with_offdiagonal_ops", 1);
            }
            emit(true, &input, &output, Some(oracle));
        }
    }
}

// ------------------------------------------------------------------------------------------------
// mode prob
// ------------------------------------------------------------------------------------------------

fn prob_case(g: &mut SplitMix64) -> bool {
    let rng = SharedRng::new(g.next());
    let (mut smp, kind, mut partner) = make_sampler(g, &rng);
    enable_heatbath(&mut smp, true);
    let beta = *g.pick(&[0.25, 0.5, 1.0, 2.0]);
    if !swap_in_partner(g, &mut smp, &mut partner, true, beta) {
        return false;
    }
    for _ in 0..g.range(2, 6) {
        if catch(|| smp.timestep(beta)).is_err() {
            return false;
        }
    }
    if let Smp::Gen(..) = smp {
        // the generic sampler builds the table inside diagonal_update; make sure it exists
        if smp.table().is_none() {
            return false;
        }
    }
    let base = smp.clone();
    let cfg = cfg_of(&base, beta);
    let l = cfg.cutoff;
    let before = padded(&cfg);
    let (mx, cum) = match base.table() {
        Some(t) => t,
        None => return false,
    };
    if *cum.last().unwrap() <= 0.0 {
        return false;
    }
    let empties: Vec<usize> = (0..before.len()).filter(|p| before[*p].is_none()).collect();
    if empties.is_empty() {
        return false;
    }
    let k = *g.pick(&empties);
    let st_k = state_at(&cfg, k);
    let cands: Vec<usize> = (0..cfg.bonds.len()).filter(|b| diag_weight(&cfg.bonds[*b], &substate(&st_k, &cfg.bonds[*b].vars)) > 0.0).collect();
    if cands.is_empty() {
        return false;
    }
    let multi: Vec<usize> = cands
        .iter()
        .cloned()
        .filter(|b| {
            let tb = &cfg.bonds[*b];
            tb.vars.len() >= 3 && unique_argmax(tb) == Some(bit_index(substate(&st_k, &tb.vars).iter()))
        })
        .collect();
    let b = if !multi.is_empty() && g.chance(3, 4) {
        stat(&format!("prob_multivar_at_argmax_{}", bit_index(substate(&st_k, &cfg.bonds[multi[0]].vars).iter())), 1);
        multi[0]
    } else {
        *g.pick(&cands)
    };
    let w = diag_weight(&cfg.bonds[b], &substate(&st_k, &cfg.bonds[b].vars));
    // prefix: one word per visited slot before k; 0 removes a diagonal op, MAX keeps / leaves empty
    let mut prefix = vec![];
    let mut expect: Vec<Option<FastOp>> = vec![];
    let mut removed = 0;
    for o in before[..k].iter() {
        match o {
            Some(op) if !op.is_diagonal() => expect.push(o.clone()),
            Some(_) => {
                if g.coin() {
                    prefix.push(0u64);
                    expect.push(None);
                    removed += 1;
                } else {
                    prefix.push(u64::MAX);
                    expect.push(o.clone());
                }
            }
            None => {
                prefix.push(u64::MAX);
                expect.push(None);
            }
        }
    }
    let n_k = count_ops(&before) - removed;
    let seed = g.next();
    let tail_keep = vec![u64::MAX; l + 8];
    let run1 = |tail: &[u64]| -> Option<Smp> {
        let mut s = base.clone();
        let mut sc = prefix.clone();
        sc.extend_from_slice(tail);
        sc.extend_from_slice(&tail_keep);
        rng.script(sc, seed);
        catch(|| s.sweep(beta)).ok().map(|_| s)
    };
    let input = format!(
        "hprob {} {} {} {} {} {} {} {} {}",
        show_table_ham(&cfg.bonds),
        rats(&mx),
        rat(beta),
        l,
        bits(&cfg.state),
        show_cfg_slots(&cfg.slots),
        words(&prefix),
        k,
        b
    );
    // the prefix script must have produced the prefix it was designed for
    let probe = match run1(&[u64::MAX]) {
        Some(s) => s,
        None => return false,
    };
    if probe.slots()[..k] != expect[..] || probe.slots()[k].is_some() {
        emit(true, &input, "unlocatable", None);
        return true;
    }
    let hit = |s: Option<Smp>| -> bool { s.map(|s| s.slots()[k].as_ref().map(|o| o.is_diagonal() && o.get_bond() == b).unwrap_or(false)).unwrap_or(false) };
    // --- interval of third words that select bond b (attempt word 0, u word 0)
    let grid = 512u64;
    let mut found = None;
    for i in 0..grid {
        let x = (i << 55) + (1u64 << 54);
        if hit(run1(&[0, 0, x])) {
            found = Some(x);
            break;
        }
    }
    let h0 = match found {
        Some(x) => x,
        None => {
            emit(true, &input, "bond-never-selected", Some(Err(format!("bond {} (table entry {}) was not selected by any of {} evenly spaced words", b, mx.get(b).cloned().unwrap_or(f64::NAN), grid))));
            return true;
        }
    };
    let lo: u128 = if hit(run1(&[0, 0, 0])) { 0 } else { first_true(0, h0, |x| hit(run1(&[0, 0, x]))) as u128 };
    let hi: u128 = if hit(run1(&[0, 0, u64::MAX])) { 1u128 << 64 } else { first_true(h0, u64::MAX, |x| !hit(run1(&[0, 0, x]))) as u128 };
    let p_pick = frac(hi - lo);
    let xb = (lo + (hi - lo) / 2) as u64;
    let p_att = frac(threshold_down(|x| hit(run1(&[x, 0, xb]))));
    let p_acc = frac(threshold_down(|u| hit(run1(&[0, u, xb]))));
    // --- removal in the next sweep of the very operator just inserted
    let s1 = match run1(&[0, 0, xb]) {
        Some(s) => s,
        None => return false,
    };
    if s1.cutoff() != l {
        stat("prob_cutoff_grew", 1);
        return false;
    }
    let before2 = {
        let c2 = cfg_of(&s1, beta);
        padded(&c2)
    };
    if count_ops(&before2) != n_k + 1 {
        emit(true, &input, "unlocatable", None);
        return true;
    }
    let prefix2: Vec<u64> = before2[..k].iter().filter(|o| !is_offdiag(o)).map(|_| u64::MAX).collect();
    let run2 = |x: u64| -> Option<Smp> {
        let mut s = s1.clone();
        let mut sc = prefix2.clone();
        sc.push(x);
        sc.extend_from_slice(&tail_keep);
        rng.script(sc, seed);
        catch(|| s.sweep(beta)).ok().map(|_| s)
    };
    match run2(u64::MAX) {
        Some(s) if s.slots()[..k] == before2[..k] => {}
        _ => {
            emit(true, &input, "unlocatable", None);
            return true;
        }
    }
    let p_rem = frac(threshold_down(|x| run2(x).map(|s| s.slots()[k].is_none()).unwrap_or(false)));
    let want = beta * w / ((l - n_k) as f64);
    let mut oracle = Ok(());
    if !(p_rem > 0.0) {
        oracle = Err(format!("removal probability measured as {}", p_rem));
    } else if !close(p_att * p_pick * p_acc / p_rem, want) {
        oracle = Err(format!(
            "p_insert/p_remove = {}*{}*{}/{} = {} but beta*w/(L-n) = {}*{}/({}-{}) = {}",
            p_att,
            p_pick,
            p_acc,
            p_rem,
            p_att * p_pick * p_acc / p_rem,
            beta,
            w,
            l,
            n_k,
            want
        ));
    }
    stat(&format!("prob_{}", kind), 1);
    stat(if w < mx.get(b).cloned().unwrap_or(f64::NAN) { "prob_below_max" } else { "prob_at_max" }, 1);
    if mx.iter().any(|m| *m != mx[0]) {
        stat("prob_unequal_maxima", 1);
    }
    if removed > 0 {
        stat("prob_n_changed_before_slot", 1);
    }
    let output = format!("{} {} {} {} {}", n_k, approx(p_att), approx(p_pick), approx(p_acc), approx(p_rem));
    emit(true, &input, &output, Some(oracle));
    true
}

fn main() {
    quiet_panics();
    let a = args();
    let mut g = SplitMix64::new(a.seed ^ 0xC02);
    match a.mode.as_str() {
        "tables" => tables(&mut g, if a.thorough { 15000 } else { 1500 }),
        "pairs" => pair_tables(&mut g, if a.thorough { 8000 } else { 800 }),
        "sweeps" => sweeps(&mut g, if a.thorough { 8000 } else { 1000 }),
        "prob" => {
            let want = if a.thorough { 3000 } else { 300 };
            let mut done = 0;
            let mut tries = 0;
            while done < want && tries < want * 30 {
                tries += 1;
                if prob_case(&mut g) {
                    done += 1;
                }
            }
            stat("prob_tries", tries);
        }
        m => panic!("unknown mode {}", m),
    }
}
