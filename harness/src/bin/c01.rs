//! C01 — TFIM sampler: the pieces that tie the Lean statements to qmc_ising.rs.
//!  mode ham      : `QmcIsingGraph::hamiltonian` / `get_offset` / bond numbering vs `isingHam`
//!  mode energy   : `get_energy_for_average_n`, `timesteps_measure` energy formula
//!  mode refresh  : free-spin refresh (one gen_bool(1/2) per variable without operators, increasing index)
//!  mode pipeline : `timestep` == single_diagonal_step ; [single_rvb_sweep(None)] ; single_cluster_step
//!                  on clones with the same RNG (so the per-update checks of C08/C09/C03 cover `timestep`)
use qmc::sse::*;
use vh::*;

type G = DefaultQmcIsingGraph<RecRng>;

fn patterns(n: usize) -> Vec<Vec<bool>> {
    (0..(1usize << n)).map(|i| (0..n).map(|b| (i >> (n - 1 - b)) & 1 == 1).collect()).collect()
}

struct Model {
    edges: Vec<((usize, usize), f64)>,
    gamma: f64,
    h: f64,
    nvars: usize,
}

fn gen_model(g: &mut SplitMix64, hmode: u64) -> Model {
    let nvars = g.range(2, 6) as usize;
    let ne = g.range(1, 8) as usize;
    let mut edges = vec![];
    // make sure the largest variable appears so that nvars is what we think
    edges.push(((nvars - 1, g.below((nvars - 1) as u64) as usize), g.dyadic(-2, 2, 8)));
    for _ in 1..ne {
        let a = g.below(nvars as u64) as usize;
        let mut b = g.below(nvars as u64) as usize;
        if a == b {
            b = (a + 1) % nvars;
        }
        let mut j = g.dyadic(-2, 2, 8);
        if j == 0.0 {
            j = 0.5;
        }
        edges.push(((a, b), j));
    }
    if edges[0].1 == 0.0 {
        edges[0].1 = -0.75;
    }
    let gamma = g.range(1, 16) as f64 / 8.0;
    let h = match hmode {
        0 => 0.0,
        1 => g.range(1, 12) as f64 / 8.0,
        _ => -(g.range(1, 12) as f64) / 8.0,
    };
    Model { edges, gamma, h, nvars }
}

fn show_model(m: &Model) -> String {
    let es: Vec<String> = m.edges.iter().map(|((a, b), j)| format!("{}:{}:{}", a, b, rat(*j))).collect();
    format!("{} {} {} {}", es.join(","), rat(m.gamma), rat(m.h), m.nvars)
}

fn build(m: &Model, cutoff: usize, state: Vec<bool>, rng: RecRng) -> G {
    G::new_with_rng(m.edges.clone(), m.gamma, m.h, cutoff, rng, Some(state))
}

fn mode_ham(g: &mut SplitMix64, n: usize) {
    for k in 0..n {
        let m = gen_model(g, (k % 3) as u64);
        let q = build(&m, 4, vec![false; m.nvars], RecRng::new(1));
        let info = q.make_haminfo();
        let ne = m.edges.len();
        let nb = ne + m.nvars + if m.h.abs() > f64::EPSILON { m.nvars } else { 0 };
        let mut out = vec![];
        let mut oracle: Result<(), String> = Ok(());
        for b in 0..nb {
            let nv = if b < ne { 2 } else { 1 };
            let vars: Vec<usize> = if b < ne {
                vec![m.edges[b].0 .0, m.edges[b].0 .1]
            } else if b < ne + m.nvars {
                vec![b - ne]
            } else {
                vec![b - ne - m.nvars]
            };
            for ins in patterns(nv) {
                for outs in patterns(nv) {
                    let w = G::hamiltonian(&info, &vars, b, &ins, &outs);
                    out.push(rat(w));
                    // documented operator: |J| - J s s' (diag), Gamma (all four), |h| + h s (diag)
                    let sg = |x: bool| if x { 1.0 } else { -1.0 };
                    let want = if b < ne {
                        let j = m.edges[b].1;
                        if ins == outs { j.abs() - j * sg(ins[0]) * sg(ins[1]) } else { 0.0 }
                    } else if b < ne + m.nvars {
                        m.gamma
                    } else if ins == outs {
                        m.h.abs() + m.h * sg(ins[0])
                    } else {
                        0.0
                    };
                    if w != want && oracle.is_ok() {
                        oracle = Err(format!("bond {} ins {} outs {}: hamiltonian = {} but H's term gives {}", b, bits(&ins), bits(&outs), w, want));
                    }
                }
            }
        }
        let off_want = m.edges.iter().map(|(_, j)| j.abs()).sum::<f64>() + m.nvars as f64 * (m.gamma + m.h.abs());
        if q.get_offset() != off_want && oracle.is_ok() {
            oracle = Err(format!("offset {} but sum|J| + N(Gamma+|h|) = {}", q.get_offset(), off_want));
        }
        emit(true, &format!("ham {}", show_model(&m)), &format!("{} {} {}", nb, rat(q.get_offset()), out.join(",")), Some(oracle));
    }
}

fn mode_energy(g: &mut SplitMix64, n: usize) {
    for k in 0..n {
        let m = gen_model(g, (k % 3) as u64);
        let q = build(&m, 4, vec![false; m.nvars], RecRng::new(1));
        let avg = g.range(0, 400) as f64 / 4.0;
        let beta = g.range(1, 64) as f64 / 8.0;
        let e = q.get_energy_for_average_n(avg, beta);
        let want = -(avg / beta) + q.get_offset();
        let oracle = if e == want { Ok(()) } else { Err(format!("energy {} but -<n>/beta + offset = {}", e, want)) };
        emit(true, &format!("energy {} {} {}", show_model(&m), rat(avg), rat(beta)), &format!("~{:e}", e), Some(oracle));
    }
}

fn mode_refresh(g: &mut SplitMix64, n: usize) {
    for k in 0..n {
        let m = gen_model(g, (k % 3) as u64);
        let state: Vec<bool> = (0..m.nvars).map(|_| g.coin()).collect();
        let mut q = build(&m, 6, state.clone(), RecRng::new(g.next()));
        // a few steps at small beta: some variables end up without operators
        let beta = g.range(1, 6) as f64 / 16.0;
        for _ in 0..g.below(3) {
            q.timestep(beta);
        }
        let before = q.state_ref().to_vec();
        let idle: Vec<bool> = (0..m.nvars).map(|v| !q.get_manager_ref().does_var_have_ops(v)).collect();
        // script: cluster draws come first; we cannot know their number without the cluster model, so
        // observe: run the step, take the log; the LAST (#idle) words are the refresh draws.
        let _ = reclog_take(); // discard the draws of construction / thermalisation
        let nclusters = q.single_cluster_step();
        let after = q.state_ref().to_vec();
        // access to the rng log: rebuild through a second sampler is not possible, so use serde-free trick:
        // RecRng is owned by the sampler; we recover the log by converting the sampler into its parts.
        let log = take_log(&mut q);
        let nidle = idle.iter().filter(|b| **b).count();
        let mut oracle: Result<(), String> = Ok(());
        if log.len() < nidle {
            oracle = Err(format!("fewer draws ({}) than idle spins ({})", log.len(), nidle));
        } else {
            let tail = &log[log.len() - nidle..];
            let mut t = 0;
            for v in 0..m.nvars {
                if idle[v] {
                    let want = tail[t] < (1u64 << 63);
                    t += 1;
                    if after[v] != want && oracle.is_ok() {
                        oracle = Err(format!("idle spin {} = {} but its draw says {}", v, after[v], want));
                    }
                }
            }
        }
        let tail: Vec<u64> = if log.len() >= nidle { log[log.len() - nidle..].to_vec() } else { vec![] };
        emit(
            nidle > 0,
            &format!("refresh {} {} {}", bits(&before), bits(&idle), list(&tail)),
            &format!("{}", bits(&idle.iter().zip(after.iter()).map(|(i, a)| *i && *a).collect::<Vec<_>>())),
            Some(oracle),
        );
        stat("refresh_idle_spins", nidle);
        stat("refresh_clusters", nclusters);
    }
}

/// The sampler owns its rng and exposes no getter; `RecRng` mirrors every draw into a thread-local log.
fn take_log(_q: &mut G) -> Vec<u64> {
    reclog_take()
}

fn mode_pipeline(g: &mut SplitMix64, n: usize) {
    for k in 0..n {
        let m = gen_model(g, (k % 3) as u64);
        let state: Vec<bool> = (0..m.nvars).map(|_| g.coin()).collect();
        let seed = g.next();
        let cutoff = g.range(1, 12) as usize;
        let rvb = g.coin();
        let hb = g.coin();
        let mut a = build(&m, cutoff, state.clone(), RecRng::new(seed));
        let mut b = build(&m, cutoff, state.clone(), RecRng::new(seed));
        a.set_run_rvb(rvb);
        b.set_run_rvb(rvb);
        a.set_enable_heatbath(hb);
        b.set_enable_heatbath(hb);
        let steps = g.range(1, 12) as usize;
        let mut oracle: Result<(), String> = Ok(());
        for t in 0..steps {
            let beta = g.range(1, 24) as f64 / 8.0;
            a.timestep(beta);
            b.single_diagonal_step(beta);
            if rvb {
                b.single_rvb_sweep(None);
            }
            b.single_cluster_step();
            let same = a.state_ref() == b.state_ref()
                && show_slots(a.get_manager_ref()) == show_slots(b.get_manager_ref())
                && a.get_cutoff() == b.get_cutoff();
            if !same && oracle.is_ok() {
                oracle = Err(format!("step {}: timestep differs from diagonal;[rvb];cluster (rvb={} heatbath={})", t, rvb, hb));
            }
        }
        emit(
            true,
            &format!("pipeline {} {} {} {} {}", show_model(&m), bits(&state), cutoff, rvb as u8, hb as u8),
            "same",
            Some(oracle.clone()),
        );
        let _ = oracle;
    }
}

/// Finding F24 (Lean: Qmc.C01.field_threshold_witness): small energy units. `J = Gamma = 2^-56`, `h = 2^-57 != 0`:
/// the documented Hamiltonian has longitudinal-field terms, the sampler (absolute test `|h| > f64::EPSILON`) has none.
fn mode_fieldwit() {
    let u = 2f64.powi(-56);
    let m = Model { edges: vec![((0, 1), u)], gamma: u, h: u / 2.0, nvars: 2 };
    let mut q = build(&m, 4, vec![true, true], RecRng::new(7));
    let beta = 4.0 / u;
    let mut maxb = 0usize;
    let mut seen = 0usize;
    let r = catch(|| {
        for _ in 0..200 {
            q.single_diagonal_step(beta);
            for p in 0..q.get_cutoff() {
                if let Some(op) = q.get_manager_ref().get_pth(p) {
                    maxb = maxb.max(op.get_bond());
                    seen += 1;
                }
            }
        }
    });
    let want = m.edges.len() + 2 * m.nvars - 1;
    let oracle = match r {
        Err(p) => Err(format!("single_diagonal_step panicked: {}", p)),
        Ok(()) if maxb == want => Ok(()),
        Ok(()) => Err(format!(
            "h = 2^-57 != 0, beta*h = 2, but no longitudinal-field operator is ever inserted in 200 sweeps ({} operators seen, largest bond index {}, the documented Hamiltonian has bond types 0..={}) [F24: fields with |h| <= f64::EPSILON are dropped]",
            seen, maxb, want
        )),
    };
    emit(true, &format!("fieldwit {}", show_model(&m)), &format!("{}", maxb), Some(oracle));
}

fn main() {
    quiet_panics();
    let a = args();
    let mut g = SplitMix64::new(a.seed ^ 0xC01);
    let k = if a.thorough { 10 } else { 1 };
    match a.mode.as_str() {
        "ham" => mode_ham(&mut g, 150 * k),
        "energy" => mode_energy(&mut g, 100 * k),
        "refresh" => mode_refresh(&mut g, 200 * k),
        "pipeline" => mode_pipeline(&mut g, 60 * k),
        "fieldwit" => mode_fieldwit(),
        _ => {
            mode_ham(&mut g, 150 * k);
            mode_energy(&mut g, 100 * k);
            mode_refresh(&mut g, 200 * k);
            mode_pipeline(&mut g, 60 * k);
        }
    }
}
