//! scale — SCALE-INVARIANCE TWIN oracle (model free; the model output column is the constant `ok`).
//!
//! For a power-of-two factor c = 2^-k binary64 arithmetic is exactly covariant: the model (J, Gamma, h, interaction matrices)
//! multiplied by c, sampled at beta / c from the same RNG state, must produce the IDENTICAL trajectory — same states, same
//! operator strings (positions, bonds, variables, in/out values, tags), same cutoff and n, same number of RNG draws and same
//! last word — and energies / offsets exactly c times the unit-scale ones (bitwise after multiplying by 2^k), as long as nothing
//! under/overflows and no ABSOLUTE threshold is crossed. With k <= 40 and |values| >= 1/8 every scaled quantity stays >= 2^-43,
//! far above the f64::EPSILON thresholds the unchanged library has (F23, F24, verify(), calculate_mult), so the unchanged code
//! must be exactly invariant; an absolute tolerance / floor introduced anywhere on the numeric path is bit-for-bit invisible at
//! unit scale and shows here as a divergence of a twin. Every scenario runs the unit-scale object and its twins k = 20, 30, 40
//! in lockstep and compares after EVERY call; the first divergence is reported with the property tag of the call that caused it.
//!
//! Modes (named after the property tag they put first in a failure message):
//!   c08  Metropolis diagonal sweeps (`single_diagonal_step` / `Qmc::diagonal_update`) between cluster / loop steps; plus a DEEP
//!        twin k = 60 for Ising models with h = 0 driven only through `single_diagonal_step` + `single_cluster_step` (that path
//!        has no absolute threshold in the unchanged code: no verify(), no field test), which reaches thresholds at EPSILON
//!   c02  the same with the heat-bath diagonal update (`set_enable_heatbath`, `set_do_heatbath`); heat-bath table x c
//!   c09  `single_cluster_step` (h = 0 and h != 0) / `Qmc::cluster_update`
//!   c03  RVB (`single_rvb_sweep`, `set_run_rvb`): the cluster growth of the unchanged code weighs imaginary-time neighbours
//!        with 1.0 and spatial neighbours with |J| (rvb.rs build_cluster / push_adjacent), so its proposals are NOT covariant and
//!        twins legitimately differ (witness mode `rvbwit`); here the scaled runs only have to stay valid: no panic, `verify()`,
//!        consistent periodic world lines, positive matrix elements, cutoff rule, finite energy
//!   c04  generic `Qmc` full time steps: XXZ-type full matrices with loop updates, Ising-symmetric diagonal + constant single-site
//!        terms with cluster updates, mixed arities, heat bath on/off, automatic offsets (offset x c), energies x c
//!   c01  `QmcIsingGraph` full time steps (mixed-sign unequal J, Gamma > 0, h zero / +-), energies from `timesteps_measure` and
//!        `get_energy_for_average_n` x c, offset x c
//!   c17  the measuring helpers' energies x c and states (both samplers)
//!   c10  serial `TemperingContainer` with 2-4 Ising replicas (every replica's model x c, every beta / c): same exchange
//!        decisions, `get_total_swaps`, states, strings, container rng; `timesteps_sample` energies x c
//!   c05  the same with generic replicas (loop updates)
//!   c15  `into_qmc` of the scaled Ising sampler = scaled `into_qmc` (bond tables and offset x c, same classification), then lockstep
//!   all  everything above;   rvbwit (not in `all`): the non-covariance of the RVB proposal on the unchanged tree
//! Case line: `CASE nt | <mode> <label> <unit-scale inputs…> | ok | ok/FAIL:<TAG> …`.

#![allow(clippy::too_many_arguments, clippy::type_complexity)]

use qmc::sse::fast_ops::*;
use qmc::sse::*;
use rand::{Error, RngCore};
use std::cell::{Cell, RefCell};
use std::rc::Rc;
use vh::*;

// ------------------------------------------------------------------------------------------------------------------
// an rng whose draws can be observed from outside the sampler that owns it
// ------------------------------------------------------------------------------------------------------------------
#[derive(Debug)]
struct TapRng {
    s: SplitMix64,
    tap: Rc<Cell<(u64, u64)>>,
}
impl TapRng {
    fn new(seed: u64) -> (Self, Rc<Cell<(u64, u64)>>) {
        let tap = Rc::new(Cell::new((0, 0)));
        (TapRng { s: SplitMix64::new(seed), tap: tap.clone() }, tap)
    }
    fn word(&mut self) -> u64 {
        let w = self.s.next();
        self.tap.set((self.tap.get().0 + 1, w));
        w
    }
}
impl RngCore for TapRng {
    fn next_u32(&mut self) -> u32 {
        (self.word() >> 32) as u32
    }
    fn next_u64(&mut self) -> u64 {
        self.word()
    }
    fn fill_bytes(&mut self, dest: &mut [u8]) {
        for chunk in dest.chunks_mut(8) {
            let w = self.word().to_le_bytes();
            chunk.copy_from_slice(&w[..chunk.len()]);
        }
    }
    fn try_fill_bytes(&mut self, dest: &mut [u8]) -> Result<(), Error> {
        self.fill_bytes(dest);
        Ok(())
    }
}
type Tap = Rc<Cell<(u64, u64)>>;
type G = QmcIsingGraph<TapRng, FastOps>;
type Q = Qmc<TapRng, FastOps>;

const KS: [i32; 3] = [20, 30, 40];
const DEEP: i32 = 60;
/// downward twins + UPWARD twins (model x 2^20 / 2^60, beta x 2^-20 / 2^-60): every absolute threshold of the unchanged library is a
/// lower bound, so scaling up is threshold free at any depth
const KSUP: [i32; 5] = [20, 30, 40, -20, -60];
/// how a twin is named in messages: model factor and beta factor
fn sc(k: i32) -> String {
    format!("2^{:+} (beta x 2^{:+})", -k, k)
}
fn p2(k: i32) -> f64 {
    2f64.powi(k)
}

thread_local! {
    static NCASES: RefCell<(u64, u64)> = RefCell::new((0, 0));
    static KCOUNT: RefCell<std::collections::BTreeMap<i32, u64>> = RefCell::new(Default::default());
}
/// one more object built at scale 2^-k
fn count_k(k: i32) {
    KCOUNT.with(|m| *m.borrow_mut().entry(k).or_insert(0) += 1);
}
fn case(nt: bool, input: &str, r: Result<(), String>) {
    NCASES.with(|n| {
        n.borrow_mut().0 += 1;
        if r.is_err() {
            n.borrow_mut().1 += 1;
        }
    });
    emit(nt, &input.replace('|', "/"), "ok", Some(r));
}
fn clip(s: &str) -> String {
    if s.len() > 260 {
        let mut e = 260;
        while !s.is_char_boundary(e) {
            e -= 1;
        }
        format!("{}…", &s[..e])
    } else {
        s.to_string()
    }
}

// ------------------------------------------------------------------------------------------------------------------
// observation of a sampler (everything that must be IDENTICAL between the scales)
// ------------------------------------------------------------------------------------------------------------------
#[derive(Clone, Debug, PartialEq, Eq)]
struct SOp {
    p: usize,
    bond: usize,
    vars: Vec<usize>,
    ins: Vec<bool>,
    outs: Vec<bool>,
    diag: bool,
    constant: bool,
}
#[derive(Clone, Debug, PartialEq, Eq)]
struct Obs {
    state: Vec<bool>,
    ops: Vec<SOp>,
    len: usize,
    cutoff: usize,
    n: usize,
    draws: u64,
    last_word: u64,
}
fn ops_of<M: OpContainer>(m: &M) -> Vec<SOp> {
    (0..m.get_cutoff())
        .filter_map(|p| {
            m.get_pth(p).map(|op| SOp {
                p,
                bond: op.get_bond(),
                vars: op.get_vars().to_vec(),
                ins: op.get_inputs().to_vec(),
                outs: op.get_outputs().to_vec(),
                diag: op.is_diagonal(),
                constant: op.is_constant(),
            })
        })
        .collect()
}
fn obs_g(g: &G, tap: &Tap) -> Obs {
    let m = g.get_manager_ref();
    Obs { state: g.state_ref().to_vec(), ops: ops_of(m), len: m.get_cutoff(), cutoff: g.get_cutoff(), n: g.get_n(), draws: tap.get().0, last_word: tap.get().1 }
}
fn obs_q(q: &Q, tap: &Tap) -> Obs {
    let m = q.get_manager_ref();
    Obs { state: q.state_ref().to_vec(), ops: ops_of(m), len: m.get_cutoff(), cutoff: q.get_cutoff(), n: m.get_n(), draws: tap.get().0, last_word: tap.get().1 }
}
fn obs_diff(u: &Obs, t: &Obs) -> Option<String> {
    if u.draws != t.draws || u.last_word != t.last_word {
        return Some(format!("rng draws {} (last word {}) vs {} (last word {})", u.draws, u.last_word, t.draws, t.last_word));
    }
    if u.state != t.state {
        return Some(format!("state {} vs {}", bits(&u.state), bits(&t.state)));
    }
    if u.ops != t.ops {
        let i = u.ops.iter().zip(t.ops.iter()).position(|(a, b)| a != b).unwrap_or(u.ops.len().min(t.ops.len()));
        return Some(format!("operator strings differ (n {} vs {}) first at entry {}: {:?} vs {:?}", u.ops.len(), t.ops.len(), i, u.ops.get(i), t.ops.get(i)));
    }
    if u.n != t.n || u.cutoff != t.cutoff || u.len != t.len {
        return Some(format!("n/cutoff/container length {}/{}/{} vs {}/{}/{}", u.n, u.cutoff, u.len, t.n, t.cutoff, t.len));
    }
    None
}
/// energies (and every other quantity with the dimension of an energy) must be exactly 2^-k times the unit-scale value
fn energy_diff(u: &[f64], t: &[f64], k: i32) -> Option<String> {
    if u.len() != t.len() {
        return Some(format!("{} vs {} energies", u.len(), t.len()));
    }
    for (a, b) in u.iter().zip(t.iter()) {
        let back = b * p2(k);
        if !(a.to_bits() == back.to_bits() || (a.is_nan() && back.is_nan())) {
            return Some(format!("energy {} at unit scale but {} x 2^{} = {}", a, b, k, back));
        }
    }
    None
}

/// A unit-scale object and its scaled twins, advanced in lockstep.
struct Twins<S> {
    unit: (S, Vec<Tap>),
    twins: Vec<(i32, S, Vec<Tap>)>,
    errs: Vec<String>,
    dead: bool,
    calls: usize,
}
impl<S> Twins<S> {
    fn new(tag: &str, build: impl Fn(i32) -> (S, Vec<Tap>), ks: &[i32]) -> Result<Self, String> {
        let unit = catch(|| build(0)).map_err(|e| format!("constructor panicked at unit scale: {}", e))?;
        let mut twins = vec![];
        let mut errs = vec![];
        for k in ks {
            count_k(*k);
            match catch(|| build(*k)) {
                Ok((s, t)) => twins.push((*k, s, t)),
                Err(e) => errs.push(format!("{} scale invariance: constructor of the twin scaled by {} panicked: {}", tag, sc(*k), e)),
            }
        }
        Ok(Twins { unit, twins, errs, dead: false, calls: 0 })
    }
    /// one public call on every scale; `call(obj, k)` returns (energies, discrete results); `obs` observes one object
    fn step(&mut self, tag: &str, what: &str, obs: &dyn Fn(&S, &[Tap]) -> Vec<Obs>, call: &dyn Fn(&mut S, i32) -> (Vec<f64>, String)) -> bool {
        if self.dead {
            return false;
        }
        self.calls += 1;
        let (u, utaps) = (&mut self.unit.0, &self.unit.1);
        let ru = match catch(|| call(u, 0)) {
            Ok(r) => r,
            Err(e) => {
                // a panic at unit scale is no scale effect: report without a property tag (everybody's business)
                self.errs.push(format!("call {} ({}) panicked at UNIT scale: {}", self.calls, what, e));
                self.dead = true;
                return false;
            }
        };
        let ou = obs(u, utaps);
        let mut lost = vec![];
        for (i, (k, t, taps)) in self.twins.iter_mut().enumerate() {
            let msg = match catch(|| call(t, *k)) {
                Err(e) => Some(format!("panicked: {}", e)),
                Ok(rt) => {
                    if rt.1 != ru.1 {
                        Some(format!("returns {} vs {} at unit scale", clip(&rt.1), clip(&ru.1)))
                    } else if let Some(d) = energy_diff(&ru.0, &rt.0, *k) {
                        Some(d)
                    } else {
                        let ot = obs(t, taps);
                        ou.iter().zip(ot.iter()).enumerate().find_map(|(r, (a, b))| obs_diff(a, b).map(|d| if ou.len() > 1 { format!("replica {}: {}", r, d) } else { d }))
                    }
                }
            };
            if let Some(m) = msg {
                if self.errs.len() < 3 {
                    self.errs.push(format!("{} scale invariance: call {} ({}) of the twin scaled by {}: {}", tag, self.calls, what, sc(*k), clip(&m)));
                }
                lost.push(i);
            }
        }
        // a twin that diverged is dropped (everything after would differ too)
        for i in lost.into_iter().rev() {
            self.twins.remove(i);
        }
        !self.twins.is_empty()
    }
    /// a comparison of derived quantities (no call): `f(obj, k)` -> (energies, discrete)
    fn compare(&mut self, tag: &str, what: &str, f: &dyn Fn(&S, i32) -> (Vec<f64>, String)) {
        if self.dead {
            return;
        }
        let ru = match catch(|| f(&self.unit.0, 0)) {
            Ok(r) => r,
            Err(e) => {
                self.errs.push(format!("{} panicked at UNIT scale: {}", what, e));
                return;
            }
        };
        for (k, t, _) in self.twins.iter() {
            let msg = match catch(|| f(t, *k)) {
                Err(e) => Some(format!("panicked: {}", e)),
                Ok(rt) => {
                    if rt.1 != ru.1 {
                        Some(format!("{} vs {} at unit scale", clip(&rt.1), clip(&ru.1)))
                    } else {
                        energy_diff(&ru.0, &rt.0, *k)
                    }
                }
            };
            if let Some(m) = msg {
                if self.errs.len() < 3 {
                    self.errs.push(format!("{} scale invariance: {} of the twin scaled by {}: {}", tag, what, sc(*k), clip(&m)));
                }
            }
        }
    }
    fn done(self) -> Result<(), String> {
        if self.errs.is_empty() {
            Ok(())
        } else {
            Err(self.errs.join("; "))
        }
    }
}

// ------------------------------------------------------------------------------------------------------------------
// generators (unit scale: dyadic k/4, k/8; n <= 6 spins)
// ------------------------------------------------------------------------------------------------------------------
fn gen_beta(r: &mut SplitMix64) -> f64 {
    *r.pick(&[0.5, 1.0, 1.0, 1.5, 2.0, 3.0, 4.0, 6.0, 8.0])
}
#[derive(Clone, Debug)]
struct IsingSpec {
    nvars: usize,
    edges: Vec<((usize, usize), f64)>,
    gamma: f64,
    h: f64,
}
fn gen_ising_spec(r: &mut SplitMix64, force_h: Option<bool>) -> IsingSpec {
    let nvars = r.range(2, 6) as usize;
    let mut pairs = vec![];
    for v in 0..nvars - 1 {
        pairs.push((v, v + 1));
    }
    for _ in 0..r.range(0, 4) {
        let a = r.below(nvars as u64) as usize;
        let b = r.below(nvars as u64) as usize;
        if a != b {
            pairs.push((a, b));
        }
    }
    let edges = pairs
        .into_iter()
        .map(|(a, b)| {
            let mag = *r.pick(&[0.125, 0.25, 0.5, 0.75, 1.0, 1.0, 1.25, 1.5, 2.0]);
            let j = if r.coin() { mag } else { -mag };
            if r.coin() {
                ((a, b), j)
            } else {
                ((b, a), j)
            }
        })
        .collect();
    let gamma = *r.pick(&[0.125, 0.25, 0.5, 1.0, 1.0, 1.5, 2.0]);
    let with_h = force_h.unwrap_or_else(|| r.chance(1, 2));
    let h = if with_h { *r.pick(&[0.125, 0.25, 0.5, 1.0, -0.125, -0.25, -0.5, -1.0]) } else { 0.0 };
    IsingSpec { nvars, edges, gamma, h }
}
/// a replica of the same lattice with other magnitudes (same signs): exchangeable
fn vary_spec(r: &mut SplitMix64, s: &IsingSpec) -> IsingSpec {
    let f = *r.pick(&[0.5, 0.75, 1.0, 1.25, 1.5, 2.0]);
    IsingSpec {
        nvars: s.nvars,
        edges: s.edges.iter().map(|(e, j)| (*e, j * f)).collect(),
        gamma: s.gamma * *r.pick(&[0.5, 1.0, 1.5, 2.0]),
        h: s.h * *r.pick(&[0.5, 1.0, 2.0]),
    }
}
fn spec_token(s: &IsingSpec) -> String {
    let e: Vec<String> = s.edges.iter().map(|((a, b), j)| format!("{},{},{}", a, b, rat(*j))).collect();
    format!("I!{}!{}!{}!{}", s.nvars, e.join(";"), rat(s.gamma), rat(s.h))
}
fn gen_state(r: &mut SplitMix64, n: usize) -> Vec<bool> {
    match r.below(4) {
        0 => vec![false; n],
        1 => vec![true; n],
        _ => (0..n).map(|_| r.coin()).collect(),
    }
}
fn build_ising(s: &IsingSpec, k: i32, cutoff: usize, state: &[bool], seed: u64) -> (G, Tap) {
    let c = p2(-k);
    let (rng, tap) = TapRng::new(seed);
    let edges = s.edges.iter().map(|(e, j)| (*e, j * c)).collect();
    (G::new_with_rng(edges, s.gamma * c, s.h * c, cutoff, rng, Some(state.to_vec())), tap)
}

#[derive(Clone, Debug)]
struct Term {
    /// 0 make_interaction, 1 make_interaction_and_offset, 2 make_diagonal_interaction, 3 make_diagonal_interaction_and_offset
    ctor: u8,
    mat: Vec<f64>,
    vars: Vec<usize>,
}
struct GenSpec {
    kind: u64,
    nvars: usize,
    terms: Vec<Term>,
    loops: bool,
    heatbath: bool,
}
fn gen_terms(r: &mut SplitMix64, kind: u64, nvars: usize) -> Vec<Term> {
    let mut t = vec![];
    let pop = |x: usize| x.count_ones() as usize;
    match kind {
        0 => {
            // XXZ-type full two-site matrices on a ring (+ optional sz+sx+1 site terms): loop updates
            let d = *r.pick(&[0.5, 1.0, 1.5, 2.0]);
            let x = *r.pick(&[0.25, 0.5, 1.0]);
            for v in 0..nvars {
                let w = (v + 1) % nvars;
                if w != v && !(nvars == 2 && v == 1) {
                    let mut m = vec![0.0; 16];
                    m[5] = d;
                    m[10] = d;
                    m[0] = *r.pick(&[0.0, 0.25, 0.125]);
                    m[15] = m[0];
                    m[6] = x;
                    m[9] = x;
                    t.push(Term { ctor: 0, mat: m, vars: vec![v, w] });
                }
            }
            if r.coin() {
                for v in 0..nvars {
                    t.push(Term { ctor: 0, mat: vec![2.0, 1.0, 1.0, 0.0], vars: vec![v] });
                }
            }
        }
        1 => {
            // Ising-symmetric two-site diagonal terms + constant single-site terms: cluster updates
            for v in 0..nvars - 1 {
                let j = *r.pick(&[0.25, 0.5, 1.0, 1.5]);
                let m = if r.coin() { vec![j, 0.0, 0.0, j] } else { vec![0.0, j, j, 0.0] };
                let vars = if r.coin() { vec![v, v + 1] } else { vec![v + 1, v] };
                t.push(Term { ctor: 2, mat: m, vars });
            }
            let c = *r.pick(&[0.25, 0.5, 1.0, 2.0]);
            for v in 0..nvars {
                t.push(Term { ctor: 0, mat: vec![c, c, c, c], vars: vec![v] });
            }
            if r.coin() {
                let mut m = vec![0.0; 16];
                m[0] = 1.0;
                m[15] = 1.0;
                m[3] = 0.5;
                m[12] = 0.5;
                t.push(Term { ctor: 0, mat: m, vars: vec![0, nvars - 1] });
            }
        }
        2 => {
            // automatic offsets (negative entries), three-variable diagonal table, non-symmetric site terms
            if nvars >= 3 {
                let m: Vec<f64> = (0..8).map(|_| *r.pick(&[-0.5, -0.25, 0.0, 0.5, 1.0, 2.0])).collect();
                t.push(Term { ctor: 3, mat: m, vars: vec![0, 2, 1] });
            }
            for v in 0..nvars {
                let a = *r.pick(&[0.25, 0.5, 1.0]);
                t.push(Term { ctor: 1, mat: vec![-a, 0.5, 0.5, a], vars: vec![v] });
            }
            for v in 0..nvars - 1 {
                let neg = -0.25 * (r.below(2) as f64);
                // a negative entry needs the offset constructor
                let ctor = if neg < 0.0 || r.coin() { 3 } else { 2 };
                t.push(Term { ctor, mat: vec![1.0, neg, 0.25, 1.0], vars: vec![v, v + 1] });
            }
        }
        _ => {
            // mixed arities: three-variable full matrix by Hamming distance, two-site full / diagonal terms, site terms
            let d = *r.pick(&[0.5, 1.0, 2.0]);
            let x1 = *r.pick(&[0.25, 0.5, 1.0]);
            let x2 = *r.pick(&[0.25, 0.5, 0.75]);
            if nvars >= 3 {
                let mut m3 = vec![0.0; 64];
                for o in 0..8usize {
                    for i in 0..8usize {
                        m3[(o << 3) | i] = match pop(o ^ i) {
                            0 => d,
                            1 => x1,
                            2 => x2,
                            _ => 0.125,
                        };
                    }
                }
                let v0 = r.below(nvars as u64 - 2) as usize;
                t.push(Term { ctor: 0, mat: m3, vars: vec![v0 + 2, v0, v0 + 1] });
            }
            for v in 0..nvars - 1 {
                if r.coin() {
                    let mut m2 = vec![0.0; 16];
                    for o in 0..4usize {
                        for i in 0..4usize {
                            m2[(o << 2) | i] = match pop(o ^ i) {
                                0 => d,
                                1 => x1,
                                _ => x2,
                            };
                        }
                    }
                    t.push(Term { ctor: 0, mat: m2, vars: vec![v, v + 1] });
                } else {
                    t.push(Term { ctor: 2, mat: vec![1.0, 0.0, 0.0, 1.0], vars: vec![v, v + 1] });
                }
            }
            for v in 0..nvars {
                match r.below(3) {
                    0 => t.push(Term { ctor: 0, mat: vec![1.0, 0.5, 0.5, 1.0], vars: vec![v] }),
                    1 => t.push(Term { ctor: 0, mat: vec![1.0, 1.0, 1.0, 1.0], vars: vec![v] }),
                    _ => {}
                }
            }
        }
    }
    t
}
fn gen_generic_spec(r: &mut SplitMix64, kind: Option<u64>) -> GenSpec {
    let kind = kind.unwrap_or_else(|| r.below(4));
    let nvars = if kind == 3 { r.range(3, 5) as usize } else { r.range(2, 5) as usize };
    let terms = gen_terms(r, kind, nvars);
    let loops = kind == 0 || kind == 3 || r.coin();
    GenSpec { kind, nvars, terms, loops, heatbath: r.chance(1, 3) }
}
fn terms_token(gs: &GenSpec) -> String {
    let parts: Vec<String> = gs.terms.iter().map(|t| format!("{}:{}:{}", t.ctor, list(&t.vars), rats(&t.mat))).collect();
    format!("kind={} T{}!{} loops={} hb={}", gs.kind, gs.nvars, parts.join("!"), gs.loops, gs.heatbath)
}
fn build_generic(gs: &GenSpec, k: i32, state: &[bool], seed: u64) -> (Q, Tap) {
    let c = p2(-k);
    let (rng, tap) = TapRng::new(seed);
    let mut q = Q::new_with_state(gs.nvars, rng, state.to_vec(), gs.loops);
    for t in gs.terms.iter() {
        let m: Vec<f64> = t.mat.iter().map(|x| x * c).collect();
        match t.ctor {
            0 => q.make_interaction(m, t.vars.clone()),
            1 => q.make_interaction_and_offset(m, t.vars.clone()),
            2 => q.make_diagonal_interaction(m, t.vars.clone()),
            _ => q.make_diagonal_interaction_and_offset(m, t.vars.clone()),
        }
        .expect("legal interaction");
    }
    q.set_do_heatbath(gs.heatbath);
    (q, tap)
}

fn og(g: &G, t: &[Tap]) -> Vec<Obs> {
    vec![obs_g(g, &t[0])]
}
fn oq(q: &Q, t: &[Tap]) -> Vec<Obs> {
    vec![obs_q(q, &t[0])]
}
fn none() -> (Vec<f64>, String) {
    (vec![], String::new())
}

// ------------------------------------------------------------------------------------------------------------------
// model-level comparisons
// ------------------------------------------------------------------------------------------------------------------
fn patterns(n: usize) -> Vec<Vec<bool>> {
    (0..(1usize << n)).map(|i| (0..n).map(|b| (i >> (n - 1 - b)) & 1 == 1).collect()).collect()
}
/// every matrix element of the Ising sampler's Hamiltonian + offset + the energy formula: all energies
fn ising_model(g: &G, k: i32) -> (Vec<f64>, String) {
    let info = g.make_haminfo();
    let (ne, n) = (g.get_edges().len(), g.get_nvars());
    let mut e = vec![g.get_offset(), g.get_energy_for_average_n(7.25, 2.0 * p2(k)), g.get_transverse_field(), g.get_longitudinal_field()];
    for b in 0..ne + 2 * n {
        let vars: Vec<usize> = if b < ne { g.get_edges()[b].0.clone() } else { vec![(b - ne) % n] };
        for i in patterns(vars.len()) {
            for o in patterns(vars.len()) {
                e.push(G::hamiltonian(&info, &vars, b, &i, &o));
            }
        }
    }
    (e, String::new())
}
fn vars_of(bonds: &[Interaction]) -> Vec<Vec<usize>> {
    serde_json::to_value(bonds.to_vec()).unwrap().as_array().unwrap().iter().map(|b| b["vars"].as_array().unwrap().iter().map(|v| v.as_u64().unwrap() as usize).collect()).collect()
}
/// every entry of the generic sampler's bond tables + offset (energies); classification and flags (discrete)
fn generic_model(q: &Q, k: i32) -> (Vec<f64>, String) {
    let vars = vars_of(q.get_bonds());
    let mut e = vec![q.get_offset(), q.get_energy_for_average_n(3.5, 0.5 * p2(k))];
    let mut d = format!("cluster:{} loop:{} hb:{}", q.should_do_cluster_update(), q.should_do_loop_update(), q.should_do_heatbath());
    for (b, vs) in q.get_bonds().iter().zip(vars.iter()) {
        d += &format!(" [{:?} const:{} cdiag:{} sym:{}]", vs, b.is_constant(), b.is_constant_diag(), b.sym_under_ising());
        for i in patterns(vs.len()) {
            for o in patterns(vs.len()) {
                e.push(b.at(&i, &o).unwrap());
            }
        }
    }
    (e, d)
}
/// the cached heat-bath table (energies) from the serde snapshot
fn heatbath_rows(v: &serde_json::Value) -> (Vec<f64>, String) {
    match v["bond_weights"]["max_weight_and_cumulative"].as_array() {
        None => (vec![], "no table".into()),
        Some(rows) => {
            let mut e = vec![];
            let mut d = String::new();
            for r in rows {
                d += &format!("{},", r[0]);
                e.push(r[1].as_f64().unwrap_or(f64::NAN));
                e.push(r[2].as_f64().unwrap_or(f64::NAN));
            }
            (e, d)
        }
    }
}

/// the heat-bath table of the Ising sampler, rebuilt through the public builder from the sampler's own matrix elements
fn ising_rows(g: &G) -> (Vec<f64>, String) {
    let info = g.make_haminfo();
    let (ne, n) = (g.get_edges().len(), g.get_nvars());
    let vars: Vec<usize> = (0..n).collect();
    let nb = ne + n + if g.get_longitudinal_field().abs() > f64::EPSILON { n } else { 0 };
    let h = |v: &[usize], b: usize, i: &[bool], o: &[bool]| G::hamiltonian(&info, v, b, i, o);
    let bw = <FastOps as HeatBathDiagonalUpdater>::make_bond_weights(h, nb, |b| if b < ne { &g.get_edges()[b].0[..] } else { &vars[(b - ne) % n..(b - ne) % n + 1] });
    heatbath_rows(&serde_json::json!({ "bond_weights": serde_json::to_value(&bw).unwrap() }))
}

// ------------------------------------------------------------------------------------------------------------------
// validity of a scaled run that cannot be compared with its twin (RVB)
// ------------------------------------------------------------------------------------------------------------------
fn valid_ising(g: &G) -> Result<(), String> {
    let m = g.get_manager_ref();
    let info = g.make_haminfo();
    let mut st = g.state_ref().to_vec();
    let (ne, n) = (g.get_edges().len(), g.get_nvars());
    let nb = ne + n + if g.get_longitudinal_field() != 0.0 { n } else { 0 };
    for op in ops_of(m) {
        for (i, v) in op.vars.iter().enumerate() {
            if st[*v] != op.ins[i] {
                return Err(format!("op at p={} does not meet its recorded inputs", op.p));
            }
        }
        for (i, v) in op.vars.iter().enumerate() {
            st[*v] = op.outs[i];
        }
        if op.bond >= nb {
            return Err(format!("op at p={} has bond {} of {}", op.p, op.bond, nb));
        }
        let w = G::hamiltonian(&info, &op.vars, op.bond, &op.ins, &op.outs);
        if !(w > 0.0) {
            return Err(format!("op at p={} on bond {} {}->{} has matrix element {}", op.p, op.bond, bits(&op.ins), bits(&op.outs), w));
        }
    }
    if st != g.state_ref() {
        return Err("world lines are not periodic".into());
    }
    if !g.verify() {
        return Err("verify() is false".into());
    }
    if g.get_cutoff() < g.get_n() {
        return Err("cutoff < n".into());
    }
    Ok(())
}

// ------------------------------------------------------------------------------------------------------------------
// modes
// ------------------------------------------------------------------------------------------------------------------
/// c08 / c02 / c09: manual stepping of the Ising sampler; the diagonal sweep carries `dtag`
fn ising_manual(r: &mut SplitMix64, mode: &str, heatbath: bool, force_h: Option<bool>, deep: bool) {
    let s = gen_ising_spec(r, if deep { Some(false) } else { force_h });
    let beta = gen_beta(r);
    let st = gen_state(r, s.nvars);
    let cutoff = r.range(1, 12) as usize;
    let seed = r.next();
    let steps = r.range(10, 30) as usize;
    let ks: Vec<i32> = if deep { vec![DEEP] } else { KS.to_vec() };
    let dtag = if heatbath { "C02" } else { "C08" };
    let input = format!("{} ising-manual{} {} beta={} cutoff={} state={} seed={} steps={} hb={} k={}", mode, if deep { "-deep" } else { "" }, spec_token(&s), rat(beta), cutoff, bits(&st), seed, steps, heatbath, list(&ks));
    let mut tw = match Twins::new(
        dtag,
        |k| {
            let (mut g, t) = build_ising(&s, k, cutoff, &st, seed);
            g.set_enable_heatbath(heatbath);
            (g, vec![t])
        },
        &ks,
    ) {
        Ok(t) => t,
        Err(e) => return case(true, &input, Err(e)),
    };
    if !deep {
        tw.compare("C01", "Hamiltonian table / offset", &ising_model);
    }
    if heatbath {
        tw.compare("C02", "heat-bath table", &|g: &G, _| ising_rows(g));
    }
    for _ in 0..steps {
        if !tw.step(dtag, "single_diagonal_step", &og, &|g, k| {
            g.single_diagonal_step(beta * p2(k));
            none()
        }) {
            break;
        }
        if !tw.step("C09", "single_cluster_step", &og, &|g, _| (vec![], format!("{}", g.single_cluster_step()))) {
            break;
        }
    }
    let n = catch(|| tw.unit.0.get_n()).unwrap_or(1);
    case(n > 0, &input, tw.done());
}
fn generic_manual(r: &mut SplitMix64, mode: &str, heatbath: bool) {
    let mut gs = gen_generic_spec(r, None);
    gs.heatbath = heatbath;
    let beta = gen_beta(r);
    let st = gen_state(r, gs.nvars);
    let seed = r.next();
    let steps = r.range(10, 25) as usize;
    let dtag = if heatbath { "C02" } else { "C08" };
    let input = format!("{} generic-manual {} beta={} state={} seed={} steps={}", mode, terms_token(&gs), rat(beta), bits(&st), seed, steps);
    let mut tw = match Twins::new(
        dtag,
        |k| {
            let (q, t) = build_generic(&gs, k, &st, seed);
            (q, vec![t])
        },
        &KS,
    ) {
        Ok(t) => t,
        Err(e) => return case(true, &input, Err(e)),
    };
    tw.compare("C04", "bond tables / offset / classification", &generic_model);
    for _ in 0..steps {
        if !tw.step(dtag, "diagonal_update", &oq, &|q, k| {
            q.diagonal_update(beta * p2(k));
            none()
        }) {
            break;
        }
        if gs.loops && !tw.step("C04", "loop_update", &oq, &|q, _| {
            q.loop_update();
            none()
        }) {
            break;
        }
        if !tw.step("C09", "cluster_update", &oq, &|q, _| (vec![], format!("{:?}", q.cluster_update().is_ok()))) {
            break;
        }
        if !tw.step("C04", "flip_free_bits", &oq, &|q, _| {
            q.flip_free_bits();
            none()
        }) {
            break;
        }
    }
    if heatbath {
        tw.compare("C02", "cached heat-bath table", &|q: &Q, _| {
            // Qmc caches the table lazily; TapRng is not serialisable, so rebuild the rows through the public builder
            let bonds = q.get_bonds();
            let vars = vars_of(bonds);
            let h = |_v: &[usize], b: usize, i: &[bool], o: &[bool]| bonds[b].at(i, o).unwrap();
            let bw = <FastOps as HeatBathDiagonalUpdater>::make_bond_weights(h, bonds.len(), |b| &vars[b][..]);
            heatbath_rows(&serde_json::json!({ "bond_weights": serde_json::to_value(&bw).unwrap() }))
        });
    }
    let n = catch(|| tw.unit.0.get_manager_ref().get_n()).unwrap_or(1);
    case(n > 0, &input, tw.done());
}
fn mode_c08(r: &mut SplitMix64) {
    ising_manual(r, "c08", false, None, false);
    ising_manual(r, "c08", false, None, true);
    generic_manual(r, "c08", false);
}
fn mode_c02(r: &mut SplitMix64) {
    ising_manual(r, "c02", true, None, false);
    ising_manual(r, "c02", true, None, true);
    generic_manual(r, "c02", true);
}
fn mode_c09(r: &mut SplitMix64) {
    let (hb1, hb2) = (r.coin(), r.coin());
    ising_manual(r, "c09", hb1, Some(false), false);
    ising_manual(r, "c09", hb2, Some(true), false);
    let mut gs_r = SplitMix64::new(r.next());
    // a generic model with cluster updates
    let gs = {
        let mut g = gen_generic_spec(&mut gs_r, Some(1));
        g.heatbath = r.coin();
        g
    };
    let beta = gen_beta(r);
    let st = gen_state(r, gs.nvars);
    let seed = r.next();
    let input = format!("c09 generic-cluster {} beta={} state={} seed={}", terms_token(&gs), rat(beta), bits(&st), seed);
    let mut tw = match Twins::new(
        "C09",
        |k| {
            let (q, t) = build_generic(&gs, k, &st, seed);
            (q, vec![t])
        },
        &KS,
    ) {
        Ok(t) => t,
        Err(e) => return case(true, &input, Err(e)),
    };
    for _ in 0..15 {
        if !tw.step(if gs.heatbath { "C02" } else { "C08" }, "diagonal_update", &oq, &|q, k| {
            q.diagonal_update(beta * p2(k));
            none()
        }) || !tw.step("C09", "cluster_update", &oq, &|q, _| (vec![], format!("{:?}", q.cluster_update().is_ok())))
        {
            break;
        }
    }
    case(true, &input, tw.done());
}

/// c03: the RVB proposal of the unchanged code is not covariant; the scaled runs must stay VALID
fn mode_c03(r: &mut SplitMix64) {
    let s = gen_ising_spec(r, None);
    let beta = gen_beta(r);
    let st = gen_state(r, s.nvars);
    let cutoff = r.range(1, 12) as usize;
    let seed = r.next();
    let steps = r.range(10, 25) as usize;
    let auto = r.coin();
    let input = format!("c03 rvb-valid {} beta={} cutoff={} state={} seed={} steps={} auto_rvb={}", spec_token(&s), rat(beta), cutoff, bits(&st), seed, steps, auto);
    let mut errs: Vec<String> = vec![];
    let mut nt = false;
    for k in [0].iter().chain(KS.iter()) {
        count_k(*k);
        let (mut g, _t) = build_ising(&s, *k, cutoff, &st, seed);
        g.set_run_rvb(auto);
        let b = beta * p2(*k);
        for step in 0..steps {
            let res = catch(|| {
                let e = if auto {
                    g.timesteps(1, b)
                } else {
                    g.single_diagonal_step(b);
                    let (succ, att) = g.single_rvb_sweep(None);
                    assert!(succ <= att);
                    g.single_cluster_step();
                    0.0
                };
                assert!(e.is_finite(), "energy {}", e);
            });
            let res = res.and_then(|_| valid_ising(&g));
            if let Err(e) = res {
                if errs.len() < 3 {
                    errs.push(format!("{}: step {} of the run scaled by {}: {}", if *k == 0 { "RVB run invalid at UNIT scale" } else { "C03/C06 scale invariance (validity of a run with RVB updates)" }, step, sc(*k), clip(&e)));
                }
                break;
            }
        }
        // (after a panic inside a call the sampler is hollow: do not touch it)
        nt |= catch(|| g.get_n() > 0).unwrap_or(true);
        let _ = qmc::sse::qmc_traits::rvb::verif_hooks::take_trace();
    }
    case(nt, &input, if errs.is_empty() { Ok(()) } else { Err(errs.join("; ")) });
}
/// witness: twins with RVB sweeps (expected to diverge on the unchanged tree)
fn mode_rvbwit(r: &mut SplitMix64) {
    let s = gen_ising_spec(r, Some(false));
    let beta = gen_beta(r);
    let st = gen_state(r, s.nvars);
    let seed = r.next();
    let input = format!("rvbwit {} beta={} state={} seed={}", spec_token(&s), rat(beta), bits(&st), seed);
    let mut tw = match Twins::new(
        "C03",
        |k| {
            let (g, t) = build_ising(&s, k, 4, &st, seed);
            (g, vec![t])
        },
        &KS,
    ) {
        Ok(t) => t,
        Err(e) => return case(true, &input, Err(e)),
    };
    for _ in 0..30 {
        if !tw.step("C08", "single_diagonal_step", &og, &|g, k| {
            g.single_diagonal_step(beta * p2(k));
            none()
        }) || !tw.step("[RVB proposal mixes the unit weight 1.0 of imaginary-time neighbours with |J| of spatial neighbours] C03", "single_rvb_sweep", &og, &|g, _| (vec![], format!("{:?}", g.single_rvb_sweep(None))))
            || !tw.step("C09", "single_cluster_step", &og, &|g, _| (vec![], format!("{}", g.single_cluster_step())))
        {
            break;
        }
    }
    let _ = qmc::sse::qmc_traits::rvb::verif_hooks::take_trace();
    case(true, &input, tw.done());
}

/// c01: full time steps of the Ising sampler, energies
fn mode_c01(r: &mut SplitMix64) {
    let s = gen_ising_spec(r, None);
    let beta = gen_beta(r);
    let st = gen_state(r, s.nvars);
    let cutoff = r.range(1, 12) as usize;
    let seed = r.next();
    let steps = r.range(10, 40) as usize;
    let hb = r.chance(1, 3);
    let input = format!("c01 ising-steps {} beta={} cutoff={} state={} seed={} steps={} hb={}", spec_token(&s), rat(beta), cutoff, bits(&st), seed, steps, hb);
    let mut tw = match Twins::new(
        "C01",
        |k| {
            let (mut g, t) = build_ising(&s, k, cutoff, &st, seed);
            g.set_enable_heatbath(hb);
            (g, vec![t])
        },
        &KSUP,
    ) {
        Ok(t) => t,
        Err(e) => return case(true, &input, Err(e)),
    };
    tw.compare("C01", "Hamiltonian table / offset / energy formula", &ising_model);
    let mut done = 0;
    while done < steps {
        let chunk = r.range(1, 4) as usize;
        let f = r.range(1, 2) as usize;
        let ok = match r.below(3) {
            0 => tw.step("C01", "timestep", &og, &|g, k| {
                g.timestep(beta * p2(k));
                none()
            }),
            1 => tw.step("C01", "timesteps", &og, &|g, k| (vec![g.timesteps(chunk, beta * p2(k))], String::new())),
            _ => tw.step("C01", "timesteps_measure", &og, &|g, k| {
                let (acc, e) = g.timesteps_measure(chunk, beta * p2(k), String::new(), |acc, s| acc + &bits(s) + ",", Some(f));
                (vec![e], acc)
            }),
        };
        if !ok {
            break;
        }
        done += chunk;
    }
    tw.compare("C01", "verify()", &|g: &G, _| (vec![], format!("{}", g.verify())));
    let n = catch(|| tw.unit.0.get_n()).unwrap_or(1);
    case(n > 0, &input, tw.done());
}
/// c04: full time steps of the generic sampler
fn mode_c04(r: &mut SplitMix64) {
    let gs = gen_generic_spec(r, None);
    let beta = gen_beta(r);
    let st = gen_state(r, gs.nvars);
    let seed = r.next();
    let steps = r.range(10, 40) as usize;
    let input = format!("c04 generic-steps {} beta={} state={} seed={} steps={}", terms_token(&gs), rat(beta), bits(&st), seed, steps);
    let mut tw = match Twins::new(
        "C04",
        |k| {
            let (q, t) = build_generic(&gs, k, &st, seed);
            (q, vec![t])
        },
        &KSUP,
    ) {
        Ok(t) => t,
        Err(e) => return case(true, &input, Err(e)),
    };
    tw.compare("C04", "bond tables / offset / classification", &generic_model);
    let mut done = 0;
    while done < steps {
        let chunk = r.range(1, 4) as usize;
        let ok = match r.below(3) {
            0 => tw.step("C04", "timestep", &oq, &|q, k| {
                q.timestep(beta * p2(k));
                none()
            }),
            1 => tw.step("C04", "timesteps", &oq, &|q, k| (vec![q.timesteps(chunk, beta * p2(k))], String::new())),
            _ => tw.step("C04", "timesteps_sample", &oq, &|q, k| {
                let (states, e) = q.timesteps_sample(chunk, beta * p2(k), None);
                (vec![e], states.iter().map(|s| bits(s)).collect::<Vec<_>>().join(","))
            }),
        };
        if !ok {
            break;
        }
        done += chunk;
    }
    let n = catch(|| tw.unit.0.get_manager_ref().get_n()).unwrap_or(1);
    case(n > 0, &input, tw.done());
    deep_offsets(r, "c04");
}
/// c17: energies of every measuring helper x c (both samplers)
fn mode_c17(r: &mut SplitMix64) {
    deep_offsets(r, "c17");
    let t = r.range(1, 8) as usize;
    let f = if r.coin() { None } else { Some(r.range(1, 3) as usize) };
    let beta = gen_beta(r);
    let seed = r.next();
    fn helpers<S: QmcStepper>(tw: &mut Twins<S>, obs: &dyn Fn(&S, &[Tap]) -> Vec<Obs>, beta: f64, t: usize, f: Option<usize>) {
        let _ = tw.step("C17", "timesteps", obs, &|s, k| (vec![s.timesteps(t, beta * p2(k))], String::new()))
            && tw.step("C17", "timesteps_sample", obs, &|s, k| {
                let (st, e) = s.timesteps_sample(t, beta * p2(k), f);
                (vec![e], st.iter().map(|x| bits(x)).collect::<Vec<_>>().join(","))
            })
            && tw.step("C17", "timesteps_sample_iter", obs, &|s, k| (vec![s.timesteps_sample_iter(t, beta * p2(k), f, |_| ())], String::new()))
            && tw.step("C17", "timesteps_measure", obs, &|s, k| {
                let (n, e) = s.timesteps_measure(t, beta * p2(k), 0usize, |a, _| a + 1, f);
                (vec![e], format!("{}", n))
            })
            && tw.step("C17", "timesteps_measure_with_self", obs, &|s, k| {
                let (ns, e) = s.timesteps_measure_with_self(t, beta * p2(k), vec![], |mut a: Vec<usize>, x: &S| {
                    a.push(x.get_n());
                    a
                }, f);
                (vec![e, s.get_energy_for_average_n(ns.iter().sum::<usize>() as f64 / ns.len().max(1) as f64, beta * p2(k))], list(&ns))
            });
    }
    if r.coin() {
        let s = gen_ising_spec(r, None);
        let st = gen_state(r, s.nvars);
        let input = format!("c17 ising {} beta={} state={} seed={} T={} f={:?}", spec_token(&s), rat(beta), bits(&st), seed, t, f);
        let mut tw = match Twins::new(
        "C17",
            |k| {
                let (g, tp) = build_ising(&s, k, 3, &st, seed);
                (g, vec![tp])
            },
            &KSUP,
        ) {
            Ok(x) => x,
            Err(e) => return case(true, &input, Err(e)),
        };
        helpers(&mut tw, &og, beta, t, f);
        case(true, &input, tw.done());
    } else {
        let gs = gen_generic_spec(r, None);
        let st = gen_state(r, gs.nvars);
        let input = format!("c17 generic {} beta={} state={} seed={} T={} f={:?}", terms_token(&gs), rat(beta), bits(&st), seed, t, f);
        let mut tw = match Twins::new(
        "C17",
            |k| {
                let (q, tp) = build_generic(&gs, k, &st, seed);
                (q, vec![tp])
            },
            &KSUP,
        ) {
            Ok(x) => x,
            Err(e) => return case(true, &input, Err(e)),
        };
        helpers(&mut tw, &oq, beta, t, f);
        case(true, &input, tw.done());
    }
}

type TCI = TemperingContainer<TapRng, G>;
type TCQ = TemperingContainer<TapRng, Q>;
/// c10: serial tempering container of Ising replicas
fn mode_c10(r: &mut SplitMix64) {
    let base = gen_ising_spec(r, None);
    let nrep = r.range(2, 4) as usize;
    let specs: Vec<IsingSpec> = (0..nrep).map(|i| if i == 0 || r.chance(1, 4) { base.clone() } else { vary_spec(r, &base) }).collect();
    let mut betas: Vec<f64> = (0..nrep).map(|_| gen_beta(r)).collect();
    betas.sort_by(|a, b| a.partial_cmp(b).unwrap());
    let seeds: Vec<u64> = (0..nrep).map(|_| r.next()).collect();
    let cuts: Vec<usize> = (0..nrep).map(|_| r.range(1, 9) as usize).collect();
    let states: Vec<Vec<bool>> = (0..nrep).map(|_| gen_state(r, base.nvars)).collect();
    let cseed = r.next();
    let rounds = r.range(6, 16) as usize;
    let toks: Vec<String> = specs.iter().map(spec_token).collect();
    let input = format!("c10 ising-container {} betas={} cutoffs={} seeds={} cseed={} rounds={}", toks.join(" "), rats(&betas), list(&cuts), list(&seeds), cseed, rounds);
    let build = |k: i32| -> (TCI, Vec<Tap>) {
        let (crng, ctap) = TapRng::new(cseed);
        let mut tc: TCI = TemperingContainer::new(crng);
        let mut taps = vec![];
        for i in 0..nrep {
            let (g, t) = build_ising(&specs[i], k, cuts[i], &states[i], seeds[i]);
            tc.add_qmc_stepper(g, betas[i] * p2(k)).expect("exchangeable replicas");
            taps.push(t);
        }
        taps.push(ctap);
        (tc, taps)
    };
    let obs = |tc: &TCI, taps: &[Tap]| -> Vec<Obs> {
        // the rngs travel with their POSITION (a swap exchanges strings and states only), so tap i belongs to position i
        let mut v: Vec<Obs> = tc.graph_ref().iter().zip(taps.iter()).map(|((g, _), t)| obs_g(g, t)).collect();
        let ct = &taps[taps.len() - 1];
        v.push(Obs { state: vec![], ops: vec![], len: 0, cutoff: 0, n: tc.get_total_swaps() as usize, draws: ct.get().0, last_word: ct.get().1 });
        v
    };
    let mut tw = match Twins::new("C10", build, &KS) {
        Ok(t) => t,
        Err(e) => return case(true, &input, Err(e)),
    };
    for _ in 0..rounds {
        let t = r.range(1, 3) as usize;
        let ok = tw.step("C01", "TemperingContainer::timesteps", &obs, &|tc, _| {
            tc.timesteps(t);
            none()
        }) && tw.step("C10", "tempering_step", &obs, &|tc, _| {
            tc.tempering_step();
            (vec![], format!("swaps={}", tc.get_total_swaps()))
        });
        if !ok {
            break;
        }
    }
    let _ = tw.step("C10", "timesteps_sample", &obs, &|tc, _| {
        let res = tc.timesteps_sample(6, 2, 3);
        (res.iter().map(|x| x.1).collect(), res.iter().map(|x| x.0.iter().map(|s| bits(s)).collect::<Vec<_>>().join(",")).collect::<Vec<_>>().join("/"))
    });
    let swaps = catch(|| tw.unit.0.get_total_swaps()).unwrap_or(1);
    case(swaps > 0, &input, tw.done());
}
/// c05: serial tempering container of generic replicas (equal bonds, different betas, loop updates)
fn mode_c05(r: &mut SplitMix64) {
    let kind = *r.pick(&[0u64, 0, 1, 3]);
    let gs = gen_generic_spec(r, Some(kind));
    let nrep = r.range(2, 4) as usize;
    let mut betas: Vec<f64> = (0..nrep).map(|_| gen_beta(r)).collect();
    betas.sort_by(|a, b| a.partial_cmp(b).unwrap());
    let seeds: Vec<u64> = (0..nrep).map(|_| r.next()).collect();
    let states: Vec<Vec<bool>> = (0..nrep).map(|_| gen_state(r, gs.nvars)).collect();
    let cseed = r.next();
    let rounds = r.range(6, 14) as usize;
    let input = format!("c05 generic-container {} betas={} seeds={} cseed={} rounds={}", terms_token(&gs), rats(&betas), list(&seeds), cseed, rounds);
    let build = |k: i32| -> (TCQ, Vec<Tap>) {
        let (crng, ctap) = TapRng::new(cseed);
        let mut tc: TCQ = TemperingContainer::new(crng);
        let mut taps = vec![];
        for i in 0..nrep {
            let (q, t) = build_generic(&gs, k, &states[i], seeds[i]);
            tc.add_qmc_stepper(q, betas[i] * p2(k)).expect("equal bonds");
            taps.push(t);
        }
        taps.push(ctap);
        (tc, taps)
    };
    let obs = |tc: &TCQ, taps: &[Tap]| -> Vec<Obs> {
        let mut v: Vec<Obs> = tc.graph_ref().iter().zip(taps.iter()).map(|((q, _), t)| obs_q(q, t)).collect();
        let ct = &taps[taps.len() - 1];
        v.push(Obs { state: vec![], ops: vec![], len: 0, cutoff: 0, n: tc.get_total_swaps() as usize, draws: ct.get().0, last_word: ct.get().1 });
        v
    };
    let mut tw = match Twins::new("C05", build, &KS) {
        Ok(t) => t,
        Err(e) => return case(true, &input, Err(e)),
    };
    for _ in 0..rounds {
        let t = r.range(1, 3) as usize;
        let ok = tw.step("C04", "TemperingContainer::timesteps", &obs, &|tc, _| {
            tc.timesteps(t);
            none()
        }) && tw.step("C05", "tempering_step", &obs, &|tc, _| {
            tc.tempering_step();
            (vec![], format!("swaps={}", tc.get_total_swaps()))
        });
        if !ok {
            break;
        }
    }
    let _ = tw.step("C05", "timesteps_sample", &obs, &|tc, _| {
        let res = tc.timesteps_sample(6, 2, 3);
        (res.iter().map(|x| x.1).collect(), res.iter().map(|x| x.0.iter().map(|s| bits(s)).collect::<Vec<_>>().join(",")).collect::<Vec<_>>().join("/"))
    });
    let swaps = catch(|| tw.unit.0.get_total_swaps()).unwrap_or(1);
    case(swaps > 0, &input, tw.done());
}
/// c15: conversion commutes with scaling
fn mode_c15(r: &mut SplitMix64) {
    deep_into_qmc(r);
    let with_h = r.chance(1, 3);
    let s = gen_ising_spec(r, Some(with_h));
    let beta = gen_beta(r);
    let st = gen_state(r, s.nvars);
    let cutoff = r.range(1, 10) as usize;
    let seed = r.next();
    let warm = r.range(0, 8) as usize;
    let steps = r.range(8, 20) as usize;
    let input = format!("c15 convert {} beta={} cutoff={} state={} seed={} warm={} steps={}", spec_token(&s), rat(beta), cutoff, bits(&st), seed, warm, steps);
    // the Ising twins are warmed up first (a divergence there is C01's business and simply ends the scenario)
    let build = |k: i32| -> (Q, Vec<Tap>) {
        let (mut g, t) = build_ising(&s, k, cutoff, &st, seed);
        for _ in 0..warm {
            g.timestep(beta * p2(k));
        }
        (g.into_qmc(), vec![t])
    };
    let mut tw = match Twins::new("C15", build, &KSUP) {
        Ok(t) => t,
        Err(e) => return case(true, &input, Err(format!("C15 scale invariance: {}", e))),
    };
    // construction must already agree
    {
        let ou = oq(&tw.unit.0, &tw.unit.1);
        let mut bad = vec![];
        for (k, q, t) in tw.twins.iter() {
            if let Some(d) = obs_diff(&ou[0], &oq(q, t)[0]) {
                bad.push(format!("C15 scale invariance: configuration carried over by into_qmc of the twin scaled by {} differs: {}", sc(*k), clip(&d)));
            }
        }
        tw.errs.extend(bad.into_iter().take(2));
    }
    tw.compare("C15", "bond tables / offset / classification after into_qmc", &generic_model);
    for _ in 0..steps {
        if !tw.step("C15", "timestep after into_qmc", &oq, &|q, k| (vec![q.timesteps(1, beta * p2(k))], String::new())) {
            break;
        }
    }
    let n = catch(|| tw.unit.0.get_manager_ref().get_n()).unwrap_or(1);
    case(n > 0, &input, tw.done());
}

/// DEEP constructor-only twins (no sampling, hence sound at any depth): offsets recorded by the `*_and_offset` constructors and
/// by `into_qmc`, and the energy formula, on models x 2^-60 / 2^+60 (and the usual factors)
const KDEEP: [i32; 6] = [60, -60, 40, -40, 20, -20];
fn offsets_only(q: &Q, k: i32) -> (Vec<f64>, String) {
    let mut e = vec![q.get_offset()];
    for nbar in [0.0, 1.0, 3.5, 17.25] {
        for b in [0.5, 1.0, 8.0] {
            e.push(q.get_energy_for_average_n(nbar, b * p2(k)));
        }
    }
    (e, format!("bonds:{}", q.get_bonds().len()))
}
fn deep_offsets(r: &mut SplitMix64, mode: &str) {
    // a model whose every term goes through an offset constructor (negative and positive shifts, also shifts of exactly 0)
    let nvars = r.range(2, 5) as usize;
    let mut terms = gen_terms(r, 2, nvars);
    for v in 0..nvars {
        let a = *r.pick(&[-1.5, -0.25, 0.0, 0.125, 0.5, 2.0]);
        let b = *r.pick(&[-1.0, 0.0, 0.25, 0.75]);
        terms.push(Term { ctor: 1, mat: vec![a, 0.5, 0.5, b], vars: vec![v] });
        terms.push(Term { ctor: 3, mat: vec![b, a], vars: vec![v] });
    }
    let gs = GenSpec { kind: 2, nvars, terms, loops: false, heatbath: false };
    let st = vec![false; nvars];
    let input = format!("{} deep-offsets {} k={}", mode, terms_token(&gs), list(&KDEEP));
    let mut tw = match Twins::new(
        "C04/C17",
        |k| {
            let (q, t) = build_generic(&gs, k, &st, 1);
            (q, vec![t])
        },
        &KDEEP,
    ) {
        Ok(t) => t,
        Err(e) => return case(true, &input, Err(e)),
    };
    tw.compare("C04/C17", "offset recorded by the *_and_offset constructors / energy formula", &offsets_only);
    case(true, &input, tw.done());
}
fn deep_into_qmc(r: &mut SplitMix64) {
    // downward the field must be 0 (the unchanged `into_qmc` has the absolute field threshold F24); upward any field
    let with_h = r.coin();
    let s = gen_ising_spec(r, Some(with_h));
    let st = vec![false; s.nvars];
    let ks: Vec<i32> = if with_h { vec![-60, -40, -20, 20, 40] } else { KDEEP.to_vec() };
    let input = format!("c15 deep-into_qmc {} k={}", spec_token(&s), list(&ks));
    let gamma = s.gamma;
    let nv = s.nvars as f64;
    let mut tw = match Twins::new(
        "C15/C04/C17",
        |k| {
            let (g, t) = build_ising(&s, k, 2, &st, 1);
            let ising_offset = g.get_offset();
            let ising_e = g.get_energy_for_average_n(3.5, 0.5 * p2(k));
            let q = g.into_qmc();
            // E_ising - E_qmc = nvars * Gamma (one run-independent constant), at every scale
            let c = p2(-k);
            assert!(ising_offset - q.get_offset() == nv * gamma * c, "C15 offset difference {} is not nvars*Gamma = {}", ising_offset - q.get_offset(), nv * gamma * c);
            assert!(ising_e - q.get_energy_for_average_n(3.5, 0.5 * p2(k)) == nv * gamma * c, "C15 energy difference is not nvars*Gamma");
            (q, vec![t])
        },
        &ks,
    ) {
        Ok(t) => t,
        Err(e) => return case(true, &input, Err(format!("C15 scale invariance: {}", e))),
    };
    tw.compare("C15/C04/C17", "offset after into_qmc / energy formula", &offsets_only);
    case(true, &input, tw.done());
}

fn guarded(what: &str, f: impl FnOnce()) {
    if let Err(e) = catch(f) {
        case(true, &format!("{} aborted", what), Err(format!("the harness or the library panicked outside a guarded call: {}", e)));
    }
}

fn main() {
    quiet_panics();
    let a = args();
    let scale = if a.thorough { 8 } else { 1 };
    let table: Vec<(&str, fn(&mut SplitMix64), usize)> = vec![
        ("c01", mode_c01, 300),
        ("c02", mode_c02, 125),
        ("c03", mode_c03, 200),
        ("c04", mode_c04, 300),
        ("c05", mode_c05, 150),
        ("c08", mode_c08, 125),
        ("c09", mode_c09, 125),
        ("c10", mode_c10, 150),
        ("c15", mode_c15, 200),
        ("c17", mode_c17, 200),
        ("rvbwit", mode_rvbwit, 6),
    ];
    let mut known = false;
    for (name, f, reps) in table.iter() {
        if (a.mode == "all" && *name == "rvbwit") || (a.mode != "all" && a.mode != *name) {
            continue;
        }
        known = true;
        let tag = name.bytes().fold(7u64, |h, b| h.wrapping_mul(131).wrapping_add(b as u64));
        let mut r = SplitMix64::new(SplitMix64::new(a.seed.wrapping_mul(0x2545_F491_4F6C_DD1D) ^ tag.wrapping_mul(0x9E6C_63D0_676A_9A99)).next());
        for k in 0..reps * scale {
            guarded(&format!("{} scenario {}", name, k), || f(&mut r));
        }
    }
    if !known {
        eprintln!("unknown mode {}", a.mode);
        std::process::exit(2);
    }
    KCOUNT.with(|m| m.borrow().iter().for_each(|(k, n)| stat(&format!("scale.twins_k{}", k), n)));
    NCASES.with(|n| {
        stat("cases", n.borrow().0);
        stat("oracle_fail", n.borrow().1);
    });
}
