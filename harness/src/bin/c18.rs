//! C18 — pooled scratch buffers are always returned: no leak, exhaustion or stale data.
//!
//! For every public update call on many scenarios the harness takes the allocator hook log of
//! exactly that call (`qmc::util::allocator::verif_log::take()`), and prints
//!   CASE nt | pool <kind> <free instances before> <event word> <label> | 1 <free after> <fewest free> | oracle
//! The Lean driver answers `<word ∈ grammar(kind)> <run before word> <min free>`; so the model
//! must (a) accept the word as a word of that update kind's allocation grammar and (b) predict
//! the occupancy after the call and the low-water mark of every allocator.
//! Oracle (independent of the model): per type #get = #return, no "exhausted" event, every
//! returned buffer clean after reset, serde snapshot of the allocator equal before / after.
//! Modes: `pool` (all sampler / manager level calls), `bc` (BondContainer op sequences vs the
//! model), `soak` (long runs, aggregated log).

use qmc::sse::fast_ops::*;
use qmc::sse::qmc_types::OpSide;
type Leg = (usize, OpSide);
use qmc::sse::*;
use qmc::util::allocator::{verif_log, Factory, Reset};
use qmc::util::bondcontainer::BondContainer;
use std::collections::{BTreeMap, HashSet};
use vh::*;

use qmc::sse::fast_op_alloc::{DefaultFastOpAllocator, FastOpAllocator, SwitchableFastOpAllocator};

/// Allocator configuration of the managers a scenario runs on.
trait Cfg: 'static {
    type A: FastOpAllocator + serde::Serialize + serde::de::DeserializeOwned + Send + Sync + 'static;
    /// appears in every label
    const NAME: &'static str;
    fn make() -> Self::A;
}
/// `DefaultFastOpAllocator` (what `FastOps`, `DefaultQmcIsingGraph`, `DefaultQmc` use)
struct CfgDefault;
/// the public wrapper `SwitchableFastOpAllocator::new(Some(DefaultFastOpAllocator::default()))`: forwards to a bounded pool
struct CfgSwitchPool;
/// `SwitchableFastOpAllocator::new(None)` (= its `Default`): no pool, fresh buffers from the OS
struct CfgSwitchNone;
impl Cfg for CfgDefault {
    type A = DefaultFastOpAllocator;
    const NAME: &'static str = "";
    fn make() -> Self::A {
        Default::default()
    }
}
impl Cfg for CfgSwitchPool {
    type A = SwitchableFastOpAllocator<DefaultFastOpAllocator>;
    const NAME: &'static str = "alloc=switch(pool):";
    fn make() -> Self::A {
        SwitchableFastOpAllocator::new(Some(DefaultFastOpAllocator::default()))
    }
}
impl Cfg for CfgSwitchNone {
    type A = SwitchableFastOpAllocator<DefaultFastOpAllocator>;
    const NAME: &'static str = "alloc=switch(none):";
    fn make() -> Self::A {
        SwitchableFastOpAllocator::new(None)
    }
}
type Mgr<C> = FastOpsTemplate<FastOp, <C as Cfg>::A>;
type IG<C> = QmcIsingGraph<SplitMix64, Mgr<C>>;
type GQ<C> = Qmc<SplitMix64, Mgr<C>>;
fn new_mgr<C: Cfg>(nvars: usize) -> Mgr<C> {
    Mgr::<C>::new_from_nvars_and_nbonds_and_alloc(nvars, None, C::make())
}

const FIELDS: [&str; 9] = [
    "usize_alloc",
    "bool_alloc",
    "opside_alloc",
    "leg_alloc",
    "option_usize_alloc",
    "f64_alloc",
    "bond_container_alloc",
    "bond_container_varpos_alloc",
    "binary_heap_alloc",
];
const LETTERS: [char; 9] = ['U', 'B', 'S', 'L', 'O', 'F', 'C', 'V', 'H'];

/// free instances per allocator, from the serde snapshot of the manager (private state)
/// An EMPTY vector means: this manager has no pool (`SwitchableFastOpAllocator` without a wrapped allocator).
fn snap<A: FastOpAllocator + serde::Serialize>(m: &FastOpsTemplate<FastOp, A>) -> Vec<usize> {
    let v = serde_json::to_value(m).expect("manager serialises");
    let a = &v["alloc"];
    // the wrapper serialises as {"alloc": <wrapped allocator> | null}
    let a = if a.get("usize_alloc").is_some() { a } else { &a["alloc"] };
    if a.is_null() {
        return vec![];
    }
    FIELDS
        .iter()
        .map(|f| {
            let n = &a[*f]["instances"];
            let gm = &a[*f]["gen_more"];
            if gm.as_bool() != Some(false) {
                usize::MAX - 1 // snapshot shape changed / unbounded growth on: shows up as a mismatch
            } else {
                n.as_u64().map(|x| x as usize).unwrap_or(usize::MAX)
            }
        })
        .collect()
}

fn letter(ty: &str) -> char {
    let t: String = ty.chars().filter(|c| !c.is_whitespace()).collect();
    if t.contains("BondContainer<") {
        if t.contains("VarPos") {
            'V'
        } else if t.ends_with("BondContainer<usize>") {
            'C'
        } else {
            '?'
        }
    } else if t.contains("BinaryHeap<") {
        'H'
    } else if let Some(i) = t.find("Vec<") {
        let inner = &t[i + 4..t.len() - 1];
        if inner == "usize" {
            'U'
        } else if inner == "bool" {
            'B'
        } else if inner == "f64" {
            'F'
        } else if inner.ends_with("Option<usize>") {
            'O'
        } else if inner.starts_with('(') && inner.contains("OpSide") {
            'L'
        } else if inner.ends_with("OpSide") {
            'S'
        } else {
            '?'
        }
    } else {
        '?'
    }
}

struct Out {
    seen: HashSet<String>,
    stats: BTreeMap<String, u64>,
    foreign_panics: Vec<String>,
}
impl Out {
    fn new() -> Self {
        Out {
            seen: HashSet::new(),
            stats: BTreeMap::new(),
            foreign_panics: vec![],
        }
    }
    fn count(&mut self, k: &str) {
        *self.stats.entry(k.to_string()).or_insert(0) += 1;
    }
    fn add(&mut self, k: &str, n: u64) {
        *self.stats.entry(k.to_string()).or_insert(0) += n;
    }
    fn flush(&self) {
        for (k, v) in &self.stats {
            stat(k, v);
        }
        stat("foreign_panics", self.foreign_panics.len());
        for p in self.foreign_panics.iter().take(5) {
            eprintln!("note: panic not related to the pool: {}", p);
        }
    }
}

/// Analysis of one hook log relative to the occupancy before the call.
struct LogInfo {
    word: String,
    low: Vec<i64>,
    problems: Vec<String>,
}

fn analyse(log: &[verif_log::PoolEvent], before: &[usize]) -> LogInfo {
    let mut word = String::with_capacity(2 * log.len());
    let mut low: Vec<i64> = before.iter().map(|x| *x as i64).collect();
    let mut bal = [0i64; 9];
    let mut problems = vec![];
    let mut unclean = 0;
    let mut exhausted = 0;
    for (ty, d, clean, left) in log.iter() {
        let c = letter(ty);
        let idx = LETTERS.iter().position(|l| *l == c);
        match d {
            1 => {
                word.push('g');
                word.push(c);
            }
            -1 => {
                word.push('r');
                word.push(c);
                if !*clean {
                    unclean += 1;
                    if unclean == 1 {
                        problems.push(format!("returned {} not clean after reset", ty));
                    }
                }
            }
            _ => {
                // exhausted: the get that panics
                word.push('g');
                word.push(c);
                exhausted += 1;
                if exhausted == 1 {
                    problems.push(format!("pool exhausted for {}", ty));
                }
            }
        }
        match idx {
            Some(i) => {
                bal[i] += *d as i64;
                if *d == 0 {
                    bal[i] += 1;
                    low[i] = low[i].min(-1);
                } else {
                    low[i] = low[i].min(*left as i64);
                }
            }
            None => problems.push(format!("unknown pooled type {}", ty)),
        }
    }
    for i in 0..9 {
        if bal[i] != 0 {
            problems.push(format!("{}: gets - returns = {}", FIELDS[i], bal[i]));
        }
    }
    if word.is_empty() {
        word.push('-');
    }
    LogInfo { word, low, problems }
}

/// Run one public call, observe its pool behaviour, emit the case. Returns false if the call
/// panicked (the sampler is unusable afterwards).
fn observe<S>(
    out: &mut Out,
    kind: &str,
    label: &str,
    s: &mut S,
    snapf: impl Fn(&S) -> Vec<usize>,
    call: impl FnOnce(&mut S),
) -> bool {
    let _ = verif_log::take();
    let before = snapf(s);
    let r = catch(|| call(s));
    let log = verif_log::take();
    if before.is_empty() {
        // no pool behind this manager: nothing can be exhausted or leak; the hook must stay silent and the
        // call must not panic because of the allocator
        out.count("nopool_manager_calls");
        let mut problems = vec![];
        if !log.is_empty() {
            problems.push(format!("{} pool events although the manager has no pool", log.len()));
        }
        let after_ok = match &r {
            Ok(()) => {
                let after = snapf(s);
                if !after.is_empty() {
                    problems.push("a pool appeared".to_string());
                }
                true
            }
            Err(msg) => {
                if msg.contains("Out of instances") {
                    problems.push(format!("panic '{}'", msg));
                } else {
                    out.foreign_panics.push(format!("{}: {}", label, msg));
                }
                false
            }
        };
        emit(false, &format!("snap - {}", label), "-", Some(if problems.is_empty() { Ok(()) } else { Err(format!("{}: {}", label, problems.join("; "))) }));
        return after_ok;
    }
    let mut info = analyse(&log, &before);
    let input_head = format!("pool {} {} {}", kind, list(&before), info.word);
    let nt = info.word != "-" && out.seen.insert(format!("{} {}", kind, info.word));
    out.count(&format!("kind_{}", kind));
    out.add(&format!("events_{}", kind), log.len() as u64);
    if info.word == "-" {
        out.count(&format!("emptyword_{}", kind));
    }
    let bucket = |n: usize| match n {
        0 => "0",
        1 => "1",
        2..=5 => "2-5",
        6..=20 => "6-20",
        _ => ">20",
    };
    match kind {
        "cluster" => {
            out.count(&format!("cluster_expansions_{}", bucket(info.word.matches("gUgLrUrL").count())));
            if info.word.contains("gFrF") {
                out.count("cluster_weight_branch");
            }
            if info.word.starts_with("gOgOgB") {
                out.count("cluster_no_constant_op_branch");
            }
        }
        "loop" => out.count(&format!("loop_bodies_{}", bucket(info.word.matches("gLgFrLrF").count()))),
        "rvb" | "istep" | "isteps" => {
            // sub-variable sweeps inside accepted RVB moves
            let sweeps = info.word.matches("gOgOgUgUgHrH").count();
            let accepted = info.word.matches("gUgUgCgO").count() + info.word.matches("gUgUgCrC").count();
            out.add("rvb_subvariable_sweeps", sweeps as u64);
            out.add("rvb_accepted_moves_seen_in_words", accepted as u64);
            out.add("rvb_moves_seen_in_words", info.word.matches("gVgVgBgB").count() as u64);
        }
        _ => {}
    }
    match r {
        Ok(()) => {
            let after = snapf(s);
            if after != before {
                info.problems.push(format!("occupancy before {} after {}", list(&before), list(&after)));
            }
            let oracle = if info.problems.is_empty() {
                Ok(())
            } else {
                Err(format!("{}: {}", label, info.problems.join("; ")))
            };
            emit(
                nt,
                &format!("{} {}", input_head, label),
                &format!("1 {} {}", list(&after), list(&info.low)),
                Some(oracle),
            );
            true
        }
        Err(msg) => {
            // a panic always leaves the log unbalanced (unwinding drops the borrowed buffers); what counts here is
            // pool misbehaviour seen BEFORE the panic: exhaustion, or a buffer handed back not clean (stale data —
            // typically the cause of a later library assertion)
            let hard = info.problems.iter().any(|p| p.contains("exhausted") || p.contains("not clean") || p.contains("unknown pooled type"));
            if msg.contains("Out of instances") || hard {
                emit(
                    nt,
                    &format!("{} {}", input_head, label),
                    &format!("1 P {}", list(&info.low)),
                    Some(Err(format!("{}: panic '{}'; {}", label, msg, info.problems.join("; ")))),
                );
            } else {
                out.foreign_panics.push(format!("{}: {}", label, msg));
            }
            false
        }
    }
}

/// Snapshot / restore as a public call: `roundtrip` serialises the object and builds a new one
/// from the bytes (serde_json), returning the restored object's occupancy per manager.
/// Oracle (model-independent): every restored manager has the occupancy its original had
/// before the snapshot, which is the occupancy of a fresh pool (capacities at rest); the round
/// trip itself performs no pool event. The model side: kind `restore` (grammar ε) must predict
/// the restored occupancy from the occupancy before, and `caps` must equal it.
fn observe_restore<C: Cfg>(out: &mut Out, label: &str, before: Vec<Vec<usize>>, roundtrip: impl FnOnce() -> Result<Vec<Vec<usize>>, String>) -> bool {
    let _ = verif_log::take();
    let r = catch(roundtrip);
    let log = verif_log::take();
    let fresh = snap(&new_mgr::<C>(1));
    out.count("kind_restore");
    let restored = match r {
        Ok(Ok(v)) => v,
        Ok(Err(e)) => {
            emit(false, &format!("pool restore {} - {}", list(&before[0]), label), "1 E E", Some(Err(format!("{}: round trip failed: {}", label, e))));
            return false;
        }
        Err(msg) => {
            emit(false, &format!("pool restore {} - {}", list(&before[0]), label), "1 P P", Some(Err(format!("{}: round trip panicked: {}", label, msg))));
            return false;
        }
    };
    let mut ok = true;
    for (i, b) in before.iter().enumerate() {
        let info = analyse(&log, b);
        let mut problems = info.problems.clone();
        let after = restored.get(i).cloned().unwrap_or_default();
        if restored.len() != before.len() {
            problems.push(format!("{} managers before, {} after the round trip", before.len(), restored.len()));
        }
        if &after != b {
            problems.push(format!("restored occupancy {} differs from the occupancy before the snapshot {}", list(&after), list(b)));
        }
        if after != fresh {
            problems.push(format!("restored occupancy {} differs from a fresh pool's {}", list(&after), list(&fresh)));
        }
        ok &= problems.is_empty();
        let oracle = if problems.is_empty() { Ok(()) } else { Err(format!("{}#{}: {}", label, i, problems.join("; "))) };
        if b.is_empty() && after.is_empty() {
            // manager without a pool: nothing to restore
            emit(false, &format!("snap - {}#{}", label, i), "-", Some(oracle));
            continue;
        }
        emit(false, &format!("pool restore {} {} {}#{}", list(b), info.word, label, i), &format!("1 {} {}", list(&after), list(&after)), Some(oracle.clone()));
        // occupancy at rest of a restored pool = the capacities the proofs were checked against
        emit(false, &format!("caps {}#{}", label, i), &list(&after), Some(oracle));
    }
    ok
}

fn json_roundtrip<T: serde::Serialize + serde::de::DeserializeOwned>(x: &T) -> Result<T, String> {
    let s = serde_json::to_string(x).map_err(|e| format!("serialize: {}", e))?;
    serde_json::from_str(&s).map_err(|e| format!("deserialize: {}", e))
}

// ---------------------------------------------------------------------------------------------
// scenarios
// ---------------------------------------------------------------------------------------------

#[derive(Clone, Debug)]
struct Lattice {
    name: String,
    nvars: usize,
    edges: Vec<(usize, usize)>,
}

fn lattices(thorough: bool) -> Vec<Lattice> {
    let mut v = vec![];
    v.push(Lattice { name: "pair".into(), nvars: 2, edges: vec![(0, 1)] });
    for n in [3usize, 4, 5, 6] {
        v.push(Lattice { name: format!("ring{}", n), nvars: n, edges: (0..n).map(|i| (i, (i + 1) % n)).collect() });
    }
    v.push(Lattice { name: "chain4".into(), nvars: 4, edges: vec![(0, 1), (1, 2), (2, 3)] });
    // variable 1 and 3 have no edge at all (isolated), variable 4 only through one edge
    v.push(Lattice { name: "isolated5".into(), nvars: 5, edges: vec![(0, 2), (2, 4)] });
    v.push(Lattice { name: "star5".into(), nvars: 5, edges: vec![(0, 1), (0, 2), (0, 3), (0, 4)] });
    v.push(Lattice { name: "tri_ladder6".into(), nvars: 6, edges: vec![(0, 1), (1, 2), (3, 4), (4, 5), (0, 3), (1, 4), (2, 5), (0, 4), (1, 5)] });
    v.push(Lattice { name: "hex6_chords".into(), nvars: 6, edges: vec![(0, 1), (1, 2), (2, 3), (3, 4), (4, 5), (5, 0), (0, 3), (1, 4)] });
    v.push(Lattice { name: "k4".into(), nvars: 4, edges: vec![(0, 1), (0, 2), (0, 3), (1, 2), (1, 3), (2, 3)] });
    let grid = |l: usize, w: usize| -> Lattice {
        let mut e = vec![];
        for y in 0..w {
            for x in 0..l {
                let i = y * l + x;
                if l > 2 || x + 1 < l {
                    e.push((i, y * l + (x + 1) % l));
                }
                if w > 2 || y + 1 < w {
                    e.push((i, ((y + 1) % w) * l + x));
                }
            }
        }
        Lattice { name: format!("torus{}x{}", l, w), nvars: l * w, edges: e }
    };
    v.push(grid(2, 2));
    v.push(grid(3, 2));
    v.push(grid(3, 3));
    if thorough {
        v.push(grid(4, 3));
        v.push(grid(4, 4));
        v.push(Lattice { name: "ring10".into(), nvars: 10, edges: (0..10).map(|i| (i, (i + 1) % 10)).collect() });
    }
    v
}

fn show_f(x: f64) -> String {
    rat(x).replace('/', "d")
}

fn snap_ig<C: Cfg>(g: &IG<C>) -> Vec<usize> {
    snap(g.get_manager_ref())
}
fn snap_gq<C: Cfg>(q: &GQ<C>) -> Vec<usize> {
    snap(q.get_manager_ref())
}

fn build_ising<C: Cfg>(lat: &Lattice, js: &[f64], gamma: f64, h: f64, cutoff: usize, seed: u64, hb: bool, rvb: bool) -> IG<C> {
    let edges: Vec<((usize, usize), f64)> = lat.edges.iter().cloned().zip(js.iter().cloned()).collect();
    let mut gen = SplitMix64::new(seed ^ 0xABCD);
    let state: Vec<bool> = (0..lat.nvars).map(|_| gen.coin()).collect();
    let mut g = IG::<C>::new_with_rng_with_manager_hook(edges, gamma, h, cutoff, SplitMix64::new(seed), Some(state), |nv, nb| {
        Mgr::<C>::new_from_nvars_and_nbonds_and_alloc(nv, Some(nb), C::make())
    });
    if hb {
        g.set_enable_heatbath(true);
    }
    if rvb {
        g.set_run_rvb(true);
    }
    g
}

fn ising_scenarios<C: Cfg>(out: &mut Out, gen: &mut SplitMix64, thorough: bool, share: (usize, usize)) {
    let lats = lattices(thorough);
    let n_scen = (if thorough { 1900 } else { 300 }) * share.0 / share.1;
    let calls = if thorough { 60 } else { 40 };
    for sc in 0..n_scen {
        // the first scenarios walk through the lattices and the four (heat bath, rvb) combinations
        let lat = lats[sc % lats.len()].clone();
        let hb = (sc / lats.len()) % 2 == 1 || gen.chance(1, 5);
        let rvb = (sc / (2 * lats.len())) % 2 == 1 || gen.chance(1, 3);
        let h = *gen.pick(&[0.0, 0.0, 0.5, -0.25, 1.0]);
        let gamma = *gen.pick(&[0.125, 0.5, 1.0, 2.0]);
        // 0: |J| = 1, 1: dyadic magnitudes, 2: NON-dyadic magnitudes (sums / differences of bond weights
        // round in f64, so BondContainer.total_weight carries rounding residue; exercises cleanliness of
        // returned containers under drift; the pool oracle and the event words do not depend on exactness)
        let jmode = gen.below(3);
        let equal_j = jmode == 0;
        let rvb = rvb || jmode == 2;
        let (gamma, h) = if jmode == 2 && gen.coin() { (*gen.pick(&[0.3, 0.5, 0.7]), *gen.pick(&[0.0, 0.3, -0.15])) } else { (gamma, h) };
        let js: Vec<f64> = lat
            .edges
            .iter()
            .map(|_| {
                let mag = match jmode {
                    0 => 1.0,
                    1 => *gen.pick(&[0.5, 1.0, 1.5, 2.0]),
                    _ => *gen.pick(&[0.1, 0.3, 0.7, 0.35, 0.45, 0.2, 0.6, 0.9, 1.1]),
                };
                if gen.chance(1, 3) { -mag } else { mag }
            })
            .collect();
        let beta = *gen.pick(&[1.0 / 64.0, 0.125, 0.5, 1.0, 2.0, 4.0]);
        let beta = if thorough && gen.chance(1, 8) { 8.0 } else { beta };
        let cutoff = *gen.pick(&[1usize, 2, lat.nvars, 4 * lat.nvars]);
        let seed = gen.next();
        let tag = format!(
            "{}ising:{}:J{}:G{}:h{}:b{}:hb{}:rvb{}:c{}:s{}",
            C::NAME,
            lat.name,
            ["eq", "var", "nondyadic"][jmode as usize],
            show_f(gamma),
            show_f(h),
            show_f(beta),
            hb as u8,
            rvb as u8,
            cutoff,
            seed
        );
        // COLD starts: the first call on a fresh sampler (no buffer of the pool has ever grown) is each update kind once
        if sc % 2 == 0 {
            for kind in 0..7u8 {
                let mut f = build_ising::<C>(&lat, &js, gamma, h, cutoff, seed ^ (kind as u64 + 1), hb, rvb);
                let lab = |s: &str| format!("{}:cold:{}", tag, s);
                out.count("cold_start_calls");
                match kind {
                    0 => {
                        observe(out, "rvb", &lab("single_rvb_sweep(Some(3))"), &mut f, snap_ig::<C>, |g| {
                            g.single_rvb_sweep(Some(3));
                        });
                    }
                    1 => {
                        observe(out, "rvb", &lab("single_rvb_sweep(None)"), &mut f, snap_ig::<C>, |g| {
                            g.single_rvb_sweep(None);
                        });
                    }
                    2 => {
                        observe(out, "cluster", &lab("single_cluster_step"), &mut f, snap_ig::<C>, |g| {
                            g.single_cluster_step();
                        });
                    }
                    3 => {
                        observe(out, "istep", &lab("timestep"), &mut f, snap_ig::<C>, |g| {
                            g.timestep(beta);
                        });
                    }
                    4 => {
                        observe(out, if hb { "heatbath" } else { "diag" }, &lab("single_diagonal_step"), &mut f, snap_ig::<C>, |g| g.single_diagonal_step(beta));
                    }
                    5 => {
                        manager_level::<C>(out, &lab("mgr"), f.get_manager_ref(), &f.clone_state(), gen);
                    }
                    _ => {
                        // an RVB sweep right after the first diagonal sweep, then a second one (buffers partly warm)
                        let _ = observe(out, if hb { "heatbath" } else { "diag" }, &lab("single_diagonal_step"), &mut f, snap_ig::<C>, |g| g.single_diagonal_step(beta))
                            && observe(out, "rvb", &lab("diag;single_rvb_sweep(Some(2))"), &mut f, snap_ig::<C>, |g| {
                                g.single_rvb_sweep(Some(2));
                            })
                            && observe(out, "rvb", &lab("diag;rvb;single_rvb_sweep(Some(4))"), &mut f, snap_ig::<C>, |g| {
                                g.single_rvb_sweep(Some(4));
                            });
                    }
                }
            }
        }
        let mut g = build_ising::<C>(&lat, &js, gamma, h, cutoff, seed, hb, rvb);
        out.count("scen_ising");
        out.count(if h != 0.0 { "scen_ising_h" } else { "scen_ising_h0" });
        out.count(if hb { "scen_ising_heatbath" } else { "scen_ising_metropolis" });
        out.count(if rvb { "scen_ising_rvb" } else { "scen_ising_norvb" });
        if jmode == 2 {
            out.count("scen_ising_nondyadic_couplings");
        }
        let step_kind = "istep";
        let diag_kind = if hb { "heatbath" } else { "diag" };
        let mut alive = true;
        // the very first calls hit the empty operator string
        // 9 = serde round trip with the RNG, 10 = through the RNG-less SerializeQmcGraph: right after
        // construction, right after an RVB sweep, and later at random points
        let mut script: Vec<u8> = vec![9, 8, 11, 2, 3, 10, 1, 0, 3, 9, 11];
        for ci in 0..calls {
            if !alive {
                break;
            }
            let what = if ci < script.len() { script[ci] } else { gen.below(12) as u8 };
            let lab = |s: &str| format!("{}:call{}:{}", tag, ci, s);
            alive = match what {
                0 => observe(out, step_kind, &lab("timestep"), &mut g, snap_ig::<C>, |g| {
                    g.timestep(beta);
                }),
                1 => observe(out, diag_kind, &lab("single_diagonal_step"), &mut g, snap_ig::<C>, |g| g.single_diagonal_step(beta)),
                2 => {
                    let n0 = g.get_n() == 0;
                    if n0 {
                        out.count("cluster_on_empty_opstring");
                    }
                    observe(out, "cluster", &lab("single_cluster_step"), &mut g, snap_ig::<C>, |g| {
                        g.single_cluster_step();
                    })
                }
                3 | 4 => {
                    let k = gen.below(6) as usize;
                    let mut res = (0, 0);
                    let ok = observe(out, "rvb", &lab(&format!("single_rvb_sweep(Some({}))", k)), &mut g, snap_ig::<C>, |g| {
                        res = g.single_rvb_sweep(Some(k));
                    });
                    out.add("rvb_accepted", res.0 as u64);
                    out.add("rvb_rejected", (res.1 - res.0) as u64);
                    if k == 0 {
                        out.count("rvb_zero_updates");
                    }
                    ok
                }
                5 => {
                    let mut res = (0, 0);
                    let ok = observe(out, "rvb", &lab("single_rvb_sweep(None)"), &mut g, snap_ig::<C>, |g| {
                        res = g.single_rvb_sweep(None);
                    });
                    out.add("rvb_accepted", res.0 as u64);
                    out.add("rvb_rejected", (res.1 - res.0) as u64);
                    ok
                }
                6 => {
                    let t = 1 + gen.below(4) as usize;
                    observe(out, "isteps", &lab(&format!("timesteps({})", t)), &mut g, snap_ig::<C>, |g| {
                        g.timesteps(t, beta);
                    })
                }
                7 => {
                    // manager-level calls on a clone of the current manager
                    manager_level::<C>(out, &lab("mgr"), g.get_manager_ref(), &g.clone_state(), gen);
                    true
                }
                9 => {
                    // the run continues on the RESTORED sampler, so every later call exercises its pool
                    let before = vec![snap_ig::<C>(&g)];
                    let mut restored: Option<IG<C>> = None;
                    let ok = observe_restore::<C>(out, &lab("serde_json(QmcIsingGraph)"), before, || {
                        let g2: IG<C> = json_roundtrip(&g)?;
                        let v = vec![snap_ig::<C>(&g2)];
                        restored = Some(g2);
                        Ok(v)
                    });
                    if let Some(g2) = restored {
                        g = g2;
                    }
                    let _ = ok;
                    true
                }
                11 => {
                    // degenerate parameters of the sampler-level entry points
                    observe(out, diag_kind, &lab("single_diagonal_step(beta=0)"), &mut g, snap_ig::<C>, |g| g.single_diagonal_step(0.0))
                        && observe(out, "isteps", &lab("timesteps(0)"), &mut g, snap_ig::<C>, |g| {
                            g.timesteps(0, beta);
                        })
                        && observe(out, step_kind, &lab("timestep(beta=0)"), &mut g, snap_ig::<C>, |g| {
                            g.timestep(0.0);
                        })
                        && observe(out, "rvb", &lab("single_rvb_sweep(Some(0))"), &mut g, snap_ig::<C>, |g| {
                            g.single_rvb_sweep(Some(0));
                        })
                }
                10 => {
                    use qmc::sse::qmc_ising::serialization::SerializeQmcGraph;
                    let before = vec![snap_ig::<C>(&g)];
                    let seed2 = gen.next();
                    let mut slot: Option<IG<C>> = None;
                    let sg: SerializeQmcGraph<Mgr<C>> = g.into();
                    let _ = observe_restore::<C>(out, &lab("serde_json(SerializeQmcGraph).into_qmc"), before, || {
                        let sg2: SerializeQmcGraph<Mgr<C>> = json_roundtrip(&sg)?;
                        let g2: IG<C> = sg2.into_qmc(SplitMix64::new(seed2));
                        let v = vec![snap_ig::<C>(&g2)];
                        slot = Some(g2);
                        Ok(v)
                    });
                    g = match slot {
                        Some(g2) => g2,
                        None => sg.into_qmc(SplitMix64::new(seed2)),
                    };
                    true
                }
                _ => observe(out, "nopool", &lab("set_cutoff/getters"), &mut g, snap_ig::<C>, |g| {
                    let c = g.get_cutoff();
                    g.set_cutoff(c + 1);
                    let _ = g.get_n();
                    let _ = g.verify();
                    let _ = g.imaginary_time_fold(|a: usize, s| a + s.len(), 0);
                }),
            };
            if ci + 1 == script.len() {
                script.clear();
            }
        }
    }
}

/// A cursor carried from one window to the next through `get_empty_args(SubvarAccess::Args(args))`
/// ("does not clear"): get_empty_args(Varlist | All) → fill → mutate_p over the window → Args arm → fill →
/// … (2–4 windows) → return_args | mutate_subsection | mutate_subsection_ops.  With `steps = Some(..)` the
/// pool log and the occupancy are looked at after EVERY call in between: none of them may touch the pool.
fn args_windows<C: Cfg>(m: &mut Mgr<C>, vars: Option<&[usize]>, bounds: &[usize], hint: bool, finish: u8, mut steps: Option<&mut Vec<String>>) {
    let allvars: Vec<usize> = (0..m.get_nvars()).collect();
    let vs: &[usize] = vars.unwrap_or(&allvars);
    let mut a = match vars {
        Some(v) => m.get_empty_args(SubvarAccess::Varlist(v)),
        None => m.get_empty_args(SubvarAccess::All),
    };
    let _ = if steps.is_some() { verif_log::take() } else { vec![] };
    let held = snap(m);
    let mut check = |m: &Mgr<C>, what: &str| {
        if let Some(pr) = steps.as_mut() {
            let l = verif_log::take();
            if !l.is_empty() && pr.len() < 4 {
                pr.push(format!("{} performed {} pool events (first: {:?})", what, l.len(), l[0]));
            }
            let now = snap(m);
            if now != held && pr.len() < 4 {
                pr.push(format!("occupancy changed across {}: {} -> {}", what, list(&held), list(&now)));
            }
        }
    };
    let k = bounds.len() - 1;
    let mut consumed = false;
    for w in 0..k {
        if w > 0 {
            a = m.get_empty_args(SubvarAccess::Args(a));
            check(m, "get_empty_args(SubvarAccess::Args)");
        }
        if hint {
            m.fill_args_at_p_with_hint(bounds[w], &mut a, vs, vs.iter().map(|_| None));
            check(m, "fill_args_at_p_with_hint");
        } else {
            a = m.fill_args_at_p(bounds[w], a);
            check(m, "fill_args_at_p");
        }
        if w + 1 == k && finish != 0 {
            if finish == 1 {
                m.mutate_subsection(bounds[w], bounds[w + 1], (), |_, _, t| (None, t), Some(a));
            } else {
                m.mutate_subsection_ops(bounds[w], bounds[w + 1], (), |_, _, _, t| (None, t), Some(a));
            }
            consumed = true;
            break;
        }
        for p in bounds[w]..bounds[w + 1] {
            let (_, a2) = m.mutate_p(|_, _, t| (None, t), p, (), a);
            a = a2;
        }
        check(m, "mutate_p over the window");
        if w + 1 == k {
            m.return_args(a);
            consumed = true;
            break;
        }
    }
    debug_assert!(consumed);
}

/// Public `FastOps` level entry points on a clone of a manager taken from a running sampler.
fn manager_level<C: Cfg>(out: &mut Out, tag: &str, m0: &Mgr<C>, state: &[bool], gen: &mut SplitMix64) {
    let cutoff = m0.get_cutoff();
    let nvars = m0.get_nvars();
    let mut m = m0.clone();
    let lab = |s: &str| format!("{}:{}", tag, s);
    if gen.coin() {
        let before = vec![snap(&m)];
        let mut slot: Option<Mgr<C>> = None;
        let _ = observe_restore::<C>(out, &lab("serde_json(FastOps)"), before, || {
            let m2: Mgr<C> = json_roundtrip(&m)?;
            let v = vec![snap(&m2)];
            slot = Some(m2);
            Ok(v)
        });
        if let Some(m2) = slot {
            m = m2; // all following manager-level calls run on the restored manager
        }
    }
    // mutate_ops over everything / a sub range, no-op callback
    if cutoff == 0 {
        return;
    }
    // pstart must address a slot (pstart = len indexes out of bounds in fill_args_at_p — an
    // empty range at the very end is not accepted by the container; not a pool matter)
    let (a, b) = {
        let a = gen.below(cutoff as u64) as usize;
        let b = a + gen.below((cutoff - a) as u64 + 1) as usize;
        if gen.coin() { (0, cutoff) } else { (a, b) }
    };
    if !observe(out, "sweepops", &lab(&format!("mutate_ops({},{})", a, b)), &mut m, |m| snap(m), |m| {
        m.mutate_ops(a, b, (), |_, _, _, t| (None, t));
    }) {
        return;
    }
    if !observe(out, "diag", &lab(&format!("mutate_ps({},{})", a, b)), &mut m, |m| snap(m), |m| {
        m.mutate_ps(a, b, (), |_, _, t| (None, t));
    }) {
        return;
    }
    // sub-variable sweeps
    let mut vars: Vec<usize> = (0..nvars).filter(|_| gen.coin()).collect();
    if vars.is_empty() {
        vars.push(gen.below(nvars as u64) as usize);
    }
    let ok1 = observe(out, "sweepopsvar", &lab(&format!("varlist{:?}.mutate_subsection_ops({},{})", vars, a, b)).replace(' ', ""), &mut m, |m| snap(m), |m| {
        let args = m.get_empty_args(SubvarAccess::Varlist(&vars));
        let args = m.fill_args_at_p(a, args);
        m.mutate_subsection_ops(a, b, (), |_, _, _, t| (None, t), Some(args));
    });
    if !ok1 {
        return;
    }
    let ok2 = observe(out, "sweeppsvar", &lab(&format!("varlist{:?}.mutate_subsection({},{})", vars, a, b)).replace(' ', ""), &mut m, |m| snap(m), |m| {
        let args = m.get_empty_args(SubvarAccess::Varlist(&vars));
        let args = m.fill_args_at_p(a, args);
        m.mutate_subsection(a, b, (), |_, _, t| (None, t), Some(args));
    });
    if !ok2 {
        return;
    }
    let ok3 = observe(out, "sweepallargs", &lab(&format!("all.mutate_subsection[_ops]({},{})", a, b)), &mut m, |m| snap(m), |m| {
        let args = m.get_empty_args(SubvarAccess::All);
        let args = m.fill_args_at_p(a, args);
        if a % 2 == 0 {
            m.mutate_subsection(a, b, (), |_, _, t| (None, t), Some(args));
        } else {
            m.mutate_subsection_ops(a, b, (), |_, _, _, t| (None, t), Some(args));
        }
    });
    if !ok3 {
        return;
    }
    // install: rebuild a manager from the operator list (and from nothing)
    let ops: Vec<(usize, FastOp)> = (0..cutoff).filter_map(|p| m0.get_pth(p).map(|op| (p, op.clone()))).collect();
    let ops = if gen.chance(1, 4) { vec![] } else { ops };
    if ops.is_empty() {
        out.count("install_empty");
    }
    {
        // `new_from_ops` creates the manager: "before" is a fresh manager's occupancy
        let mut slot: Option<Mgr<C>> = Some(Mgr::<C>::new_from_nvars(nvars));
        observe(out, "install", &lab(&format!("new_from_ops(n={})", ops.len())), &mut slot, |s| snap(s.as_ref().unwrap()), |s| {
            *s = Some(Mgr::<C>::new_from_ops(nvars, ops.clone()));
        });
    }
    // degenerate parameters: empty ranges, cursor borrowed and handed straight back, fold without change
    let e = gen.below(cutoff as u64) as usize;
    let mut st = state.to_vec();
    let ok = observe(out, "sweepops", &lab(&format!("mutate_ops({},{})[empty range]", e, e)), &mut m, |m| snap(m), |m| {
        m.mutate_ops(e, e, (), |_, _, _, t| (None, t));
    }) && observe(out, "diag", &lab(&format!("mutate_ps({},{})[empty range]", e, e)), &mut m, |m| snap(m), |m| {
        m.mutate_ps(e, e, (), |_, _, t| (None, t));
    }) && observe(out, "sweepallargs", &lab("get_empty_args(All)+return_args"), &mut m, |m| snap(m), |m| {
        let args = m.get_empty_args(SubvarAccess::All);
        m.return_args(args);
    }) && observe(out, "sweeppsvar", &lab("get_empty_args(Varlist)+return_args"), &mut m, |m| snap(m), |m| {
        let args = m.get_empty_args(SubvarAccess::Varlist(&vars));
        m.return_args(args);
    }) && observe(out, "nopool", &lab("itime_fold/iterate_ops/verify"), &mut m, |m| snap(m), |m| {
        let mut s2 = st.clone();
        let _ = m.itime_fold(&mut s2, |a: usize, _s| a + 1, 0);
        let _ = m.iterate_ops(0, cutoff, 0usize, |_, _, _, c| c + 1);
        let _ = m.verify(&st);
    });
    if !ok {
        return;
    }
    // cursor re-used across consecutive windows through the `SubvarAccess::Args` arm
    for origin_all in [false, true] {
        let k = 2 + gen.below(3) as usize;
        let mut bounds: Vec<usize> = (0..=k).map(|_| gen.below(cutoff as u64 + 1) as usize).collect();
        bounds.sort_unstable();
        if bounds[0] >= cutoff {
            bounds[0] = cutoff - 1;
        }
        let hint = gen.chance(1, 3);
        let finish = gen.below(3) as u8;
        let vo: Option<&[usize]> = if origin_all { None } else { Some(&vars) };
        let kind = match (origin_all, finish) {
            (true, _) => "sweepallargs",
            (false, 2) => "sweepopsvar",
            (false, _) => "sweeppsvar",
        };
        let l = lab(&format!(
            "args-reuse:{}:windows{:?}:{}:finish={}",
            if origin_all { "All".to_string() } else { format!("Varlist{:?}", vars) },
            bounds,
            if hint { "hint" } else { "fill" },
            ["return_args", "mutate_subsection", "mutate_subsection_ops"][finish as usize]
        ))
        .replace(' ', "");
        out.count("args_reuse_sequences");
        if !observe(out, kind, &l, &mut m, |m| snap(m), |m| args_windows::<C>(m, vo, &bounds, hint, finish, None)) {
            return;
        }
        // the same sequence again, looking at the pool after every call in between
        let initial = snap(&m);
        let mut problems: Vec<String> = vec![];
        let _ = verif_log::take();
        let r = catch(|| args_windows::<C>(&mut m, vo, &bounds, hint, finish, Some(&mut problems)));
        let _ = verif_log::take();
        match r {
            Ok(()) => {
                let fin = snap(&m);
                if fin != initial {
                    problems.push(format!("occupancy after the final return {} differs from the initial {}", list(&fin), list(&initial)));
                }
                emit(false, &format!("snap {} {}:stepwise", list(&initial), l), &list(&fin), Some(if problems.is_empty() { Ok(()) } else { Err(format!("{}: {}", l, problems.join("; "))) }));
            }
            Err(msg) => {
                if msg.contains("Out of instances") || !problems.is_empty() {
                    emit(false, &format!("snap {} {}:stepwise", list(&initial), l), "P", Some(Err(format!("{}: panic '{}'; {}", l, msg, problems.join("; ")))));
                } else {
                    out.foreign_panics.push(format!("{}: {}", l, msg));
                }
                return;
            }
        }
    }
    // every public cluster entry point, with flip probability 0, tiny, 1/2 and 1 (a probability > 1 is refused
    // by rand's gen_bool with a panic, i.e. not accepted), on the clone — and on an empty manager
    let probs = [0.0f64, 8.673617379884035e-19, 0.5, 1.0];
    let mut rng = SplitMix64::new(gen.next());
    let first = gen.below(4) as usize;
    for (i, variant) in ["ising_symmetry", "rng(None)", "rng(weights)"].iter().enumerate() {
        let prob = probs[(first + i) % 4];
        let pl = ["0", "tiny", "1d2", "1"][(first + i) % 4];
        out.count(&format!("cluster_prob_{}", pl));
        let l = lab(&format!("flip_each_cluster_{}(prob={})", variant, pl));
        let alive = observe(out, "cluster", &l, &mut m, |m| snap(m), |m| match i {
            0 => {
                m.flip_each_cluster_ising_symmetry_rng(prob, &mut rng, &mut st);
            }
            1 => {
                m.flip_each_cluster_rng(prob, &mut rng, &mut st, None::<fn(&FastOpNode) -> f64>);
            }
            _ => {
                m.flip_each_cluster_rng(prob, &mut rng, &mut st, Some(|_n: &FastOpNode| 1.0));
            }
        });
        if !alive {
            return;
        }
    }
    let mut empty = new_mgr::<C>(nvars);
    let mut st0 = state.to_vec();
    observe(out, "cluster", &lab("flip_each_cluster_ising_symmetry(prob=0)[empty manager]"), &mut empty, |m| snap(m), |m| {
        m.flip_each_cluster_ising_symmetry_rng(0.0, &mut rng, &mut st0);
    });
    observe(out, "loop", &lab("make_loop_update_with_rng[empty manager]"), &mut empty, |m| snap(m), |m| {
        m.make_loop_update_with_rng(None, |_v: &[usize], _b: usize, _i: &[bool], _o: &[bool]| 1.0, &mut st0, &mut rng);
    });
}

#[derive(Clone, Debug)]
struct GModel {
    name: String,
    nvars: usize,
    // (matrix, vars, diagonal-only constructor)
    terms: Vec<(Vec<f64>, Vec<usize>, bool)>,
}

fn generic_models(thorough: bool) -> Vec<GModel> {
    let mut v = vec![];
    let heis = |a: f64, b: f64, c: f64| -> Vec<f64> {
        // index = (out0 out1 in0 in1) msb first
        let mut m = vec![0.0; 16];
        m[0b0000] = a;
        m[0b1111] = a;
        m[0b0101] = b;
        m[0b1010] = b;
        m[0b0110] = c;
        m[0b1001] = c;
        m
    };
    let field = |g: f64| vec![g, g, g, g];
    // single spin in a transverse field
    v.push(GModel { name: "single_spin".into(), nvars: 1, terms: vec![(field(1.0), vec![0], false)] });
    // Heisenberg-like chains (loop updates do the work)
    for n in [2usize, 4, 5] {
        let mut t = vec![];
        for i in 0..n - 1 {
            t.push((heis(0.0, 1.0, 1.0), vec![i, i + 1], false));
        }
        if n > 2 {
            t.push((heis(0.0, 1.0, 1.0), vec![n - 1, 0], false));
        }
        v.push(GModel { name: format!("heis{}", n), nvars: n, terms: t });
    }
    // XXZ with non-zero aligned weight
    v.push(GModel { name: "xxz3".into(), nvars: 3, terms: vec![(heis(0.5, 1.0, 0.5), vec![0, 1], false), (heis(0.5, 1.0, 0.5), vec![1, 2], false)] });
    // TFIM written generically: ZZ diagonal + constant single-site terms -> cluster updates
    for n in [2usize, 3, 4, 6] {
        let mut t = vec![];
        for i in 0..n {
            if n > 2 || i == 0 {
                t.push((vec![0.0, 2.0, 2.0, 0.0], vec![i, (i + 1) % n], true));
            }
        }
        for i in 0..n {
            t.push((field(1.0), vec![i], false));
        }
        v.push(GModel { name: format!("gtfim{}", n), nvars: n, terms: t });
    }
    // classical ZZ only: Ising symmetric, no constant op at all (cluster = "whole thing is one cluster")
    v.push(GModel { name: "zz3".into(), nvars: 3, terms: vec![(vec![0.0, 1.0, 1.0, 0.0], vec![0, 1], true), (vec![1.0, 0.0, 0.0, 1.0], vec![1, 2], true)] });
    // isolated variables: 5 variables, terms only on (0,1) and a field on 3
    v.push(GModel { name: "isolated5".into(), nvars: 5, terms: vec![(heis(0.25, 1.0, 0.75), vec![0, 1], false), (field(0.5), vec![3], false)] });
    // symmetry-breaking longitudinal term (no cluster updates)
    v.push(GModel { name: "gtfim3_h".into(), nvars: 3, terms: vec![(vec![0.0, 2.0, 2.0, 0.0], vec![0, 1], true), (vec![0.0, 2.0, 2.0, 0.0], vec![1, 2], true), (field(1.0), vec![0], false), (field(1.0), vec![1], false), (field(1.0), vec![2], false), (vec![1.0, 0.0], vec![1], true)] });
    // three-variable diagonal term + fields
    v.push(GModel { name: "three_body4".into(), nvars: 4, terms: vec![(vec![1.0, 0.0, 0.0, 1.0, 0.0, 1.0, 1.0, 0.0], vec![0, 1, 2], true), (field(1.0), vec![0], false), (field(0.5), vec![2], false), (field(1.0), vec![3], false)] });
    if thorough {
        let n = 8;
        let mut t = vec![];
        for i in 0..n {
            t.push((heis(0.0, 1.0, 1.0), vec![i, (i + 1) % n], false));
        }
        v.push(GModel { name: "heis8".into(), nvars: n, terms: t });
        let mut t = vec![];
        for i in 0..n {
            t.push((vec![0.0, 2.0, 2.0, 0.0], vec![i, (i + 1) % n], true));
            t.push((field(0.5), vec![i], false));
        }
        v.push(GModel { name: "gtfim8".into(), nvars: n, terms: t });
    }
    v
}

fn build_generic<C: Cfg>(gm: &GModel, seed: u64, loops: bool, hb: bool) -> Option<GQ<C>> {
    let mut gen = SplitMix64::new(seed ^ 0x5151);
    let state: Vec<bool> = (0..gm.nvars).map(|_| gen.coin()).collect();
    let mut q = GQ::<C>::new_with_state_with_manager_hook(gm.nvars, SplitMix64::new(seed), state, loops, |nv| new_mgr::<C>(nv));
    for (mat, vars, diag) in &gm.terms {
        let r = if *diag {
            q.make_diagonal_interaction_and_offset(mat.clone(), vars.clone())
        } else if mat.iter().all(|x| *x == mat[0]) {
            // constant single-site term: keep it constant (the offset variant would subtract the diagonal
            // minimum and turn it into a non-constant matrix, i.e. no cluster edges)
            q.make_interaction(mat.clone(), vars.clone())
        } else {
            q.make_interaction_and_offset(mat.clone(), vars.clone())
        };
        if r.is_err() {
            return None;
        }
    }
    q.set_do_heatbath(hb);
    Some(q)
}

fn generic_scenarios<C: Cfg>(out: &mut Out, gen: &mut SplitMix64, thorough: bool, share: (usize, usize)) {
    let models = generic_models(thorough);
    let n_scen = (if thorough { 1400 } else { 220 }) * share.0 / share.1;
    let calls = if thorough { 60 } else { 40 };
    for sc in 0..n_scen {
        let gm = models[sc % models.len()].clone();
        let loops = (sc / models.len()) % 2 == 0 || gen.coin();
        let hb = gen.chance(1, 3);
        let beta = *gen.pick(&[1.0 / 64.0, 0.25, 1.0, 2.0, 4.0]);
        let seed = gen.next();
        let tag = format!("{}generic:{}:b{}:loops{}:hb{}:s{}", C::NAME, gm.name, show_f(beta), loops as u8, hb as u8, seed);
        let mut q = match build_generic::<C>(&gm, seed, loops, hb) {
            Some(q) => q,
            None => {
                out.count("generic_model_rejected");
                continue;
            }
        };
        out.count("scen_generic");
        out.count(if loops { "scen_generic_loops" } else { "scen_generic_noloops" });
        let diag_kind = if hb { "heatbath" } else { "diag" };
        let mut alive = true;
        // 8 = serde round trip of the sampler (right after construction, then at random points)
        let mut script: Vec<u8> = vec![8, 7, 9, 2, 3, 0, 8, 9];
        for ci in 0..calls {
            if !alive {
                break;
            }
            let what = if ci < script.len() { script[ci] } else { gen.below(10) as u8 };
            let lab = |s: &str| format!("{}:call{}:{}", tag, ci, s);
            alive = match what {
                0 => observe(out, "gstep", &lab("timestep"), &mut q, snap_gq::<C>, |q| {
                    q.timestep(beta);
                }),
                1 => observe(out, diag_kind, &lab("diagonal_update"), &mut q, snap_gq::<C>, |q| q.diagonal_update(beta)),
                2 => {
                    if q.get_n() == 0 {
                        out.count("loop_on_empty_opstring");
                    }
                    observe(out, "loop", &lab("loop_update"), &mut q, snap_gq::<C>, |q| q.loop_update())
                }
                3 => {
                    let n0 = q.get_n() == 0;
                    let mut ran = false;
                    let ok = observe(out, "cluster", &lab("cluster_update"), &mut q, snap_gq::<C>, |q| {
                        ran = q.cluster_update().is_ok();
                    });
                    if ran && n0 {
                        out.count("cluster_on_empty_opstring");
                    }
                    if ran && !q.should_do_cluster_update() {
                        out.count("cluster_without_constant_op");
                    }
                    if !ran {
                        out.count("cluster_refused_symmetry");
                    }
                    ok
                }
                4 => {
                    let t = 1 + gen.below(4) as usize;
                    observe(out, "gsteps", &lab(&format!("timesteps({})", t)), &mut q, snap_gq::<C>, |q| {
                        q.timesteps(t, beta);
                    })
                }
                5 => {
                    let m0 = q.get_manager_ref().clone();
                    manager_level::<C>(out, &lab("mgr"), &m0, &q.clone_state(), gen);
                    true
                }
                6 => {
                    // loop update at manager level with a chosen starting operator
                    let n = q.get_n();
                    if n == 0 {
                        true
                    } else {
                        let k = gen.below(n as u64) as usize;
                        let bonds: Vec<Interaction> = q.get_bonds().to_vec();
                        let mut m = q.get_manager_ref().clone();
                        let mut st = q.clone_state();
                        let mut rng = SplitMix64::new(gen.next());
                        observe(out, "loop", &lab(&format!("make_loop_update_with_rng(Some({}))", k)), &mut m, |m| snap(m), |m| {
                            m.make_loop_update_with_rng(Some(k), |_v: &[usize], b: usize, i: &[bool], o: &[bool]| bonds[b].at(i, o).unwrap(), &mut st, &mut rng);
                        })
                    }
                }
                9 => {
                    observe(out, diag_kind, &lab("diagonal_update(beta=0)"), &mut q, snap_gq::<C>, |q| q.diagonal_update(0.0))
                        && observe(out, "gsteps", &lab("timesteps(0)"), &mut q, snap_gq::<C>, |q| {
                            q.timesteps(0, beta);
                        })
                        && observe(out, "nopool", &lab("imaginary_time_fold"), &mut q, snap_gq::<C>, |q| {
                            let _ = q.imaginary_time_fold(|a: usize, s| a + s.len(), 0);
                        })
                }
                8 => {
                    let before = vec![snap_gq::<C>(&q)];
                    let mut slot: Option<GQ<C>> = None;
                    let _ = observe_restore::<C>(out, &lab("serde_json(Qmc)"), before, || {
                        let q2: GQ<C> = json_roundtrip(&q)?;
                        let v = vec![snap_gq::<C>(&q2)];
                        slot = Some(q2);
                        Ok(v)
                    });
                    if let Some(q2) = slot {
                        q = q2;
                    }
                    true
                }
                _ => observe(out, "nopool", &lab("flip_free_bits/set_cutoff"), &mut q, snap_gq::<C>, |q| {
                    q.flip_free_bits();
                    let c = q.get_cutoff();
                    q.increase_cutoff_to(c + 1);
                    let _ = q.get_n();
                }),
            };
            if ci + 1 == script.len() {
                script.clear();
            }
        }
    }
}

/// LARGE runs: operator strings of several thousand slots, so that the pooled vectors sized by the
/// string length / number of clusters / number of constant operators (`boundaries`, `flips`,
/// `flips_weights`, `constant_ps`, …) are handed back with a capacity far beyond anything the small
/// scenarios reach (a `reset` that treats big buffers differently is only visible here).
fn large_scenarios(out: &mut Out, gen: &mut SplitMix64, thorough: bool) {
    type C = CfgDefault;
    // (sites, beta, h, heat bath, rvb, steps)
    let mut runs: Vec<(usize, f64, f64, bool, bool, usize)> = vec![(96, 48.0, 0.0, false, true, 5)];
    if thorough {
        runs.push((128, 32.0, 0.5, false, true, 5));
        runs.push((64, 64.0, 0.0, true, false, 5));
        runs.push((112, 40.0, -0.25, true, true, 4));
    }
    for (n, beta, h, hb, rvb, steps) in runs {
        let lat = Lattice { name: format!("ring{}", n), nvars: n, edges: (0..n).map(|i| (i, (i + 1) % n)).collect() };
        let js: Vec<f64> = (0..n).map(|i| if i % 7 == 3 { -1.0 } else { 1.0 }).collect();
        let seed = gen.next();
        // start with a roomy cutoff so that the string is long from the first sweep on
        let cutoff = (3.0 * beta * n as f64) as usize;
        let tag = format!("large:ising:ring{}:G1d1:h{}:b{}:hb{}:rvb{}:c{}:s{}", n, show_f(h), show_f(beta), hb as u8, rvb as u8, cutoff, seed);
        let mut g = build_ising::<C>(&lat, &js, 1.0, h, cutoff, seed, hb, rvb);
        out.count("scen_large_ising");
        let mut alive = true;
        for ci in 0..steps {
            let lab = |s: &str| format!("{}:call{}:{}", tag, ci, s);
            if !observe(out, "istep", &lab("timestep"), &mut g, snap_ig::<C>, |g| {
                g.timestep(beta);
            }) {
                alive = false;
                break;
            }
            let e = out.stats.entry("large_max_oplist_n".to_string()).or_insert(0);
            *e = (*e).max(g.get_n() as u64);
        }
        if !alive {
            continue;
        }
        if g.get_n() < 4200 {
            // the point of the run is lost: say so (shows up in the evidence, not an alarm)
            out.count("large_run_too_small");
        }
        let lab = |s: &str| format!("{}:{}", tag, s);
        let _ = observe(out, "rvb", &lab("single_rvb_sweep(Some(4))"), &mut g, snap_ig::<C>, |g| {
            g.single_rvb_sweep(Some(4));
        }) && observe(out, "cluster", &lab("single_cluster_step"), &mut g, snap_ig::<C>, |g| {
            g.single_cluster_step();
        });
        let m0 = g.get_manager_ref().clone();
        manager_level::<C>(out, &lab("mgr"), &m0, &g.clone_state(), gen);
    }
    // generic sampler with loop updates (and cluster updates) on a long string
    let mut gruns: Vec<(&str, usize, f64, usize)> = vec![];
    if thorough {
        gruns.push(("gtfim", 96, 32.0, 4));
        gruns.push(("heis", 64, 48.0, 4));
    } else {
        gruns.push(("gtfim", 80, 32.0, 3));
    }
    for (kind, n, beta, steps) in gruns {
        let mut t = vec![];
        for i in 0..n {
            if kind == "gtfim" {
                t.push((vec![0.0, 2.0, 2.0, 0.0], vec![i, (i + 1) % n], true));
                t.push((vec![1.0, 1.0, 1.0, 1.0], vec![i], false));
            } else {
                let mut m = vec![0.0; 16];
                m[0b0101] = 1.0;
                m[0b1010] = 1.0;
                m[0b0110] = 1.0;
                m[0b1001] = 1.0;
                t.push((m, vec![i, (i + 1) % n], false));
            }
        }
        let gm = GModel { name: format!("{}{}", kind, n), nvars: n, terms: t };
        let seed = gen.next();
        let tag = format!("large:generic:{}:b{}:loops1:s{}", gm.name, show_f(beta), seed);
        let mut q = match build_generic::<C>(&gm, seed, true, false) {
            Some(q) => q,
            None => continue,
        };
        q.set_cutoff((3.0 * beta * n as f64) as usize);
        out.count("scen_large_generic");
        let mut alive = true;
        for ci in 0..steps {
            let lab = |s: &str| format!("{}:call{}:{}", tag, ci, s);
            if !observe(out, "gstep", &lab("timestep"), &mut q, snap_gq::<C>, |q| {
                q.timestep(beta);
            }) {
                alive = false;
                break;
            }
            let e = out.stats.entry("large_max_oplist_n_generic".to_string()).or_insert(0);
            *e = (*e).max(q.get_n() as u64);
        }
        if !alive {
            continue;
        }
        let lab = |s: &str| format!("{}:{}", tag, s);
        let _ = observe(out, "loop", &lab("loop_update"), &mut q, snap_gq::<C>, |q| q.loop_update());
    }
}

/// Everything the snapshot says is free must really be borrowable through the public `Factory` interface
/// (on a clone), and must be blank.
fn borrow_everything(m: &FastOps) -> Option<String> {
    let counts = snap(m);
    let mut m = m.clone();
    let r = catch(|| {
        let mut bad: Option<String> = None;
        let u: Vec<Vec<usize>> = (0..counts[0]).map(|_| m.get_instance()).collect();
        let b: Vec<Vec<bool>> = (0..counts[1]).map(|_| m.get_instance()).collect();
        let s: Vec<Vec<OpSide>> = (0..counts[2]).map(|_| m.get_instance()).collect();
        let l: Vec<Vec<Leg>> = (0..counts[3]).map(|_| m.get_instance()).collect();
        let o: Vec<Vec<Option<usize>>> = (0..counts[4]).map(|_| m.get_instance()).collect();
        let f: Vec<Vec<f64>> = (0..counts[5]).map(|_| m.get_instance()).collect();
        let c: Vec<BondContainer<usize>> = (0..counts[6]).map(|_| m.get_instance()).collect();
        let v: Vec<BondContainer<VarPos>> = (0..counts[7]).map(|_| m.get_instance()).collect();
        let h: Vec<std::collections::BinaryHeap<std::cmp::Reverse<usize>>> = (0..counts[8]).map(|_| m.get_instance()).collect();
        let dirty = u.iter().any(|x| !x.is_empty())
            || b.iter().any(|x| !x.is_empty())
            || s.iter().any(|x| !x.is_empty())
            || l.iter().any(|x| !x.is_empty())
            || o.iter().any(|x| !x.is_empty())
            || f.iter().any(|x| !x.is_empty())
            || c.iter().any(|x| !x.verif_is_clean())
            || v.iter().any(|x| !x.verif_is_clean())
            || h.iter().any(|x| !x.is_empty());
        if dirty {
            bad = Some("a pooled buffer borrowed through Factory is not blank".to_string());
        }
        bad
    });
    let _ = verif_log::take();
    match r {
        Ok(b) => b,
        Err(msg) => Some(format!("borrowing the advertised free instances through Factory panicked: {}", msg)),
    }
}

/// MEDIUM-size regimes the small scenarios never reach: more than 1024 variables; RVB regions of more than
/// 32 / 128 world lines (3-d lattice, fully connected ±J model); an operator string of ~8000 slots on 8 spins.
fn medium_scenarios(out: &mut Out, gen: &mut SplitMix64, thorough: bool) {
    type C = CfgDefault;
    let seeds = if thorough { 3 } else { 1 };
    let fresh = snap(&FastOps::new_from_nvars(1));
    let finish = |out: &mut Out, tag: &str, g: &IG<C>| {
        let mut problems = vec![];
        let now = snap_ig::<C>(g);
        if now != fresh {
            problems.push(format!("occupancy at rest {} differs from a fresh pool's {}", list(&now), list(&fresh)));
        }
        if let Some(p) = borrow_everything(g.get_manager_ref()) {
            problems.push(p);
        }
        emit(false, &format!("caps {}:end", tag), &list(&now), Some(if problems.is_empty() { Ok(()) } else { Err(format!("{}: {}", tag, problems.join("; "))) }));
    };
    for sd in 0..seeds {
        // (a) 34 x 34 torus: 1156 variables, RVB on
        {
            let l = 34usize;
            let mut e = vec![];
            for y in 0..l {
                for x in 0..l {
                    e.push((y * l + x, y * l + (x + 1) % l));
                    e.push((y * l + x, ((y + 1) % l) * l + x));
                }
            }
            let lat = Lattice { name: "torus34x34".into(), nvars: l * l, edges: e };
            let js: Vec<f64> = lat.edges.iter().map(|_| if gen.chance(1, 3) { -1.0 } else { 1.0 }).collect();
            let seed = gen.next();
            let beta = 0.5;
            let tag = format!("medium:ising:{}:G1d1:h0d1:b{}:rvb1:s{}", lat.name, show_f(beta), seed);
            let mut g = build_ising::<C>(&lat, &js, 1.0, 0.0, 2 * lat.nvars, seed, false, true);
            out.count("scen_medium_torus34");
            let lab = |s: &str| format!("{}:{}", tag, s);
            let alive = observe(out, "rvb", &lab("cold:single_rvb_sweep(Some(3))"), &mut g, snap_ig::<C>, |g| {
                g.single_rvb_sweep(Some(3));
            }) && observe(out, "istep", &lab("timestep#0"), &mut g, snap_ig::<C>, |g| {
                g.timestep(beta);
            }) && observe(out, "rvb", &lab("single_rvb_sweep(Some(5))"), &mut g, snap_ig::<C>, |g| {
                g.single_rvb_sweep(Some(5));
            }) && observe(out, "istep", &lab("timestep#1"), &mut g, snap_ig::<C>, |g| {
                g.timestep(beta);
            }) && observe(out, "rvb", &lab("single_rvb_sweep(Some(4))"), &mut g, snap_ig::<C>, |g| {
                g.single_rvb_sweep(Some(4));
            });
            if alive {
                finish(out, &tag, &g);
            }
        }
        // (b) cubic 6 x 6 x 6 and a 150-spin fully connected ±J model: regions of > 32 and > 128 world lines
        for which in 0..2 {
            let lat = if which == 0 {
                let l = 6usize;
                let idx = |x: usize, y: usize, z: usize| (z * l + y) * l + x;
                let mut e = vec![];
                for z in 0..l {
                    for y in 0..l {
                        for x in 0..l {
                            e.push((idx(x, y, z), idx((x + 1) % l, y, z)));
                            e.push((idx(x, y, z), idx(x, (y + 1) % l, z)));
                            e.push((idx(x, y, z), idx(x, y, (z + 1) % l)));
                        }
                    }
                }
                Lattice { name: "cubic6x6x6".into(), nvars: l * l * l, edges: e }
            } else {
                let n = 150usize;
                let mut e = vec![];
                for a in 0..n {
                    for b in a + 1..n {
                        e.push((a, b));
                    }
                }
                Lattice { name: "complete150".into(), nvars: n, edges: e }
            };
            let jmag = if which == 0 { 1.0 } else { 0.0625 };
            let js: Vec<f64> = lat.edges.iter().map(|_| if gen.coin() { -jmag } else { jmag }).collect();
            let seed = gen.next();
            let beta = 1.0;
            let tag = format!("medium:ising:{}:J{}:G1d1:h0d1:b{}:s{}", lat.name, show_f(jmag), show_f(beta), seed);
            // RVB is driven explicitly (a fixed number of proposals per step keeps the run short)
            let mut g = build_ising::<C>(&lat, &js, 1.0, 0.0, 4 * lat.nvars, seed, false, false);
            out.count(if which == 0 { "scen_medium_cubic6" } else { "scen_medium_complete150" });
            let mut alive = true;
            let mut acc = 0usize;
            for st in 0..60 {
                let lab = |s: &str| format!("{}:step{}:{}", tag, st, s);
                let mut res = (0, 0);
                alive = observe(out, "istep", &lab("timestep"), &mut g, snap_ig::<C>, |g| {
                    g.timestep(beta);
                }) && observe(out, "rvb", &lab("single_rvb_sweep(Some(6))"), &mut g, snap_ig::<C>, |g| {
                    res = g.single_rvb_sweep(Some(6));
                });
                acc += res.0;
                if !alive {
                    break;
                }
            }
            out.add("medium_rvb_accepted", acc as u64);
            if alive {
                finish(out, &tag, &g);
            }
        }
        // (c) 8 spins at beta = 200: operator string of ~8000 slots; cluster update then diagonal update
        {
            let n = 8usize;
            let lat = Lattice { name: "ring8".into(), nvars: n, edges: (0..n).map(|i| (i, (i + 1) % n)).collect() };
            let js = vec![1.0; n];
            let seed = gen.next();
            let beta = 200.0;
            let tag = format!("medium:ising:ring8:G1d1:h0d1:b{}:c8000:s{}", show_f(beta), seed);
            let mut g = build_ising::<C>(&lat, &js, 1.0, 0.0, 8000, seed, false, false);
            out.count("scen_medium_ring8_beta200");
            let mut alive = true;
            for st in 0..4 {
                let lab = |s: &str| format!("{}:step{}:{}", tag, st, s);
                alive = observe(out, "diag", &lab("single_diagonal_step"), &mut g, snap_ig::<C>, |g| g.single_diagonal_step(beta))
                    && observe(out, "cluster", &lab("single_cluster_step"), &mut g, snap_ig::<C>, |g| {
                        g.single_cluster_step();
                    })
                    && observe(out, "diag", &lab("single_diagonal_step(after cluster)"), &mut g, snap_ig::<C>, |g| g.single_diagonal_step(beta));
                if !alive {
                    break;
                }
            }
            let e = out.stats.entry("medium_ring8_cutoff".to_string()).or_insert(0);
            if alive {
                *e = (*e).max(g.get_cutoff() as u64);
                finish(out, &tag, &g);
            }
        }
        let _ = sd;
    }
}

fn tempering_scenarios<C: Cfg>(out: &mut Out, gen: &mut SplitMix64, thorough: bool, share: (usize, usize)) {
    type TC<K> = TemperingContainer<SplitMix64, IG<K>>;
    let lats = lattices(false);
    let n_scen = (if thorough { 160 } else { 24 }) * share.0 / share.1;
    for sc in 0..n_scen {
        let lat = lats[(sc * 3 + 1) % lats.len()].clone();
        let h = if gen.chance(1, 3) { 0.5 } else { 0.0 };
        let js: Vec<f64> = lat.edges.iter().map(|_| if gen.chance(1, 3) { -1.0 } else { 1.0 }).collect();
        let nrep = 2 + gen.below(4) as usize;
        let seed = gen.next();
        let rvb = gen.coin();
        let mut tc = TC::<C>::new(SplitMix64::new(seed));
        let mut ok = true;
        for r in 0..nrep {
            let gamma = 0.5 + 0.25 * r as f64;
            let g = build_ising::<C>(&lat, &js, gamma, h, lat.nvars, seed.wrapping_add(r as u64), false, rvb);
            ok &= tc.add_qmc_stepper(g, 0.5 + 0.5 * r as f64).is_ok();
        }
        if !ok {
            continue;
        }
        out.count("scen_tempering");
        let tag = format!("{}tempering:{}:h{}:rep{}:rvb{}:s{}", C::NAME, lat.name, show_f(h), nrep, rvb as u8, seed);
        let snap_all = |tc: &TC<C>| -> Vec<Vec<usize>> { tc.graph_ref().iter().map(|(g, _)| snap_ig::<C>(g)).collect() };
        let mut usable = true;
        for ci in 0..(if thorough { 30 } else { 12 }) {
            let lab = |s: &str| format!("{}:call{}:{}", tag, ci, s);
            // snapshot / restore of the whole container: right after construction, then now and again;
            // alternately with its RNGs and through the RNG-less SerializeTemperingContainer
            if ci == 0 || ci == 5 || gen.chance(1, 6) {
                let before = snap_all(&tc);
                if ci % 2 == 0 {
                    let mut slot: Option<TC<C>> = None;
                    let _ = observe_restore::<C>(out, &lab("serde_json(TemperingContainer)"), before, || {
                        let tc2: TC<C> = json_roundtrip(&tc)?;
                        let v = snap_all(&tc2);
                        slot = Some(tc2);
                        Ok(v)
                    });
                    if let Some(tc2) = slot {
                        tc = tc2;
                    }
                } else {
                    use qmc::sse::parallel_tempering::serialization::SerializeTemperingContainer;
                    let seeds: Vec<u64> = (0..nrep + 1).map(|_| gen.next()).collect();
                    let mut slot: Option<TC<C>> = None;
                    let stc: SerializeTemperingContainer<Mgr<C>> = tc.into();
                    let _ = observe_restore::<C>(out, &lab("serde_json(SerializeTemperingContainer).into_tempering_container"), before, || {
                        let stc2: SerializeTemperingContainer<Mgr<C>> = json_roundtrip(&stc)?;
                        let tc2: TC<C> = stc2.into_tempering_container_from_vec(SplitMix64::new(seeds[0]), seeds[1..].iter().map(|s| SplitMix64::new(*s)).collect());
                        let v = snap_all(&tc2);
                        slot = Some(tc2);
                        Ok(v)
                    });
                    tc = match slot {
                        Some(tc2) => tc2,
                        None => stc.into_tempering_container_from_vec(SplitMix64::new(seeds[0]), seeds[1..].iter().map(|s| SplitMix64::new(*s)).collect()),
                    };
                }
            }
            // all replicas must keep their occupancy; replica 0's numbers go to the model
            let all_before = snap_all(&tc);
            let swaps_before = tc.get_total_swaps();
            let alive = if ci % 2 == 0 {
                let t = 1 + gen.below(3) as usize;
                observe(out, "isteps", &lab(&format!("container.timesteps({})", t)), &mut tc, |tc| snap_ig::<C>(&tc.graph_ref()[0].0), |tc| tc.timesteps(t))
            } else {
                observe(out, "nopool", &lab("tempering_step"), &mut tc, |tc| snap_ig::<C>(&tc.graph_ref()[0].0), |tc| tc.tempering_step())
            };
            if !alive {
                usable = false; // a replica lost its manager in a panic
                break;
            }
            out.add("tempering_swaps", tc.get_total_swaps() - swaps_before);
            let all_after = snap_all(&tc);
            let same = all_before == all_after;
            emit(
                false,
                &format!("snap {} {}", list(&all_before[nrep - 1]), lab("last-replica")),
                &list(&all_after[nrep - 1]),
                Some(if same { Ok(()) } else { Err(format!("{}: some replica's occupancy changed: {:?} -> {:?}", lab(""), all_before, all_after)) }),
            );
            // direct swap of two replicas
            if ci % 4 == 3 && nrep >= 2 {
                let gs = tc.graph_mut();
                let (a, b) = gs.split_at_mut(1);
                let mut pair = (&mut a[0].0, &mut b[0].0);
                observe(out, "nopool", &lab("swap_manager_and_state"), &mut pair, |p| snap_ig::<C>(p.0), |p| {
                    if p.0.can_swap_managers(p.1).is_ok() {
                        p.0.swap_manager_and_state(p.1);
                    }
                });
            }
        }
        // rayon version: the worker threads' logs are not visible here; occupancy only
        if usable {
            use qmc::sse::parallel_tempering::rayon_tempering::ParallelQmcTimeSteps;
            let before = snap_all(&tc);
            let r = catch(|| {
                tc.parallel_timesteps(3);
                tc.parallel_tempering_step();
            });
            let _ = verif_log::take();
            match r {
                Ok(()) => {
                    let after = snap_all(&tc);
                    for i in 0..nrep {
                        emit(
                            false,
                            &format!("snap {} {}:parallel:replica{}", list(&before[i]), tag, i),
                            &list(&after[i]),
                            Some(if before[i] == after[i] { Ok(()) } else { Err(format!("{}: occupancy changed in parallel step", tag)) }),
                        );
                    }
                    out.count("parallel_tempering_checked");
                }
                Err(msg) => {
                    if msg.contains("Out of instances") {
                        emit(false, &format!("snap {} {}:parallel", list(&before[0]), tag), "P", Some(Err(format!("{}: {}", tag, msg))));
                    } else {
                        out.foreign_panics.push(format!("{}: {}", tag, msg));
                    }
                }
            }
        }
    }
}

/// Public-API view of "no stale data": borrow every pooled bond container of a clone of the
/// manager through `Factory`; each must be blank (no keys, total weight exactly 0, no address).
fn probe_pooled_containers<C: Cfg>(m: &Mgr<C>) -> Option<String> {
    let mut m = m.clone();
    let mut bad = None;
    let a: BondContainer<usize> = m.get_instance();
    let b: BondContainer<usize> = m.get_instance();
    let c: BondContainer<VarPos> = m.get_instance();
    let d: BondContainer<VarPos> = m.get_instance();
    for (i, (e, w, cl)) in [
        (a.is_empty(), a.get_total_weight(), a.verif_is_clean()),
        (b.is_empty(), b.get_total_weight(), b.verif_is_clean()),
        (c.is_empty(), c.get_total_weight(), c.verif_is_clean()),
        (d.is_empty(), d.get_total_weight(), d.verif_is_clean()),
    ]
    .iter()
    .enumerate()
    {
        if !*e || *w != 0.0 || !*cl {
            bad = Some(format!("pooled bond container #{} handed out not blank (empty={}, total_weight={:e}, clean={})", i, e, w, cl));
        }
    }
    let _ = verif_log::take();
    bad
}

// ---------------------------------------------------------------------------------------------
// soak: long runs, aggregated log
// ---------------------------------------------------------------------------------------------
fn soak<C: Cfg>(out: &mut Out, gen: &mut SplitMix64, thorough: bool, share: (usize, usize)) {
    let lats = lattices(thorough);
    let (n_dyadic, n_nd, steps) = if thorough { (48, 48, 15000) } else { (10, 14, 2500) };
    let (n_dyadic, n_nd) = (n_dyadic * share.0 / share.1, n_nd * share.0 / share.1);
    let frustrated = ["hex6_chords", "tri_ladder6", "k4", "ring3", "ring5", "torus3x3", "star5"];
    for r in 0..(n_dyadic + n_nd) {
        // the second block of runs uses NON-dyadic couplings on frustrated graphs with RVB on
        let nd = r >= n_dyadic;
        let lat = if nd {
            let name = frustrated[(r - n_dyadic) % frustrated.len()];
            lats.iter().find(|l| l.name == name).unwrap().clone()
        } else {
            lats[(r * 5 + 2) % lats.len()].clone()
        };
        let h = if nd { [0.0, 0.3, 0.0, -0.15][r % 4] } else if r % 3 == 2 { 0.5 } else { 0.0 };
        let hb = r % 4 == 1;
        let rvb = nd || r % 2 == 0;
        let gamma = if nd { *gen.pick(&[0.3, 0.5, 0.7]) } else { *gen.pick(&[0.25, 1.0]) };
        let beta = if nd { *gen.pick(&[1.0, 2.0, 3.0]) } else { *gen.pick(&[0.5, 2.0, 4.0]) };
        let js: Vec<f64> = lat
            .edges
            .iter()
            .map(|_| {
                let mag = if nd { *gen.pick(&[0.1, 0.3, 0.7, 0.35, 0.45, 0.2, 0.6, 0.9]) } else { 1.0 };
                if gen.chance(1, 3) { -mag } else { mag }
            })
            .collect();
        let seed = gen.next();
        out.count(if nd { "soak_runs_nondyadic" } else { "soak_runs_dyadic" });
        let tag = format!("{}soak:{}{}:G{}:h{}:b{}:hb{}:rvb{}:steps{}:s{}", C::NAME, lat.name, if nd { ":Jnondyadic" } else { "" }, show_f(gamma), show_f(h), show_f(beta), hb as u8, rvb as u8, steps, seed);
        let mut g = build_ising::<C>(&lat, &js, gamma, h, lat.nvars, seed, hb, rvb);
        let _ = verif_log::take();
        let before = snap_ig::<C>(&g);
        let mut bal = [0i64; 9];
        let mut low: Vec<i64> = before.iter().map(|x| *x as i64).collect();
        let mut problems: Vec<String> = vec![];
        let mut events = 0u64;
        let res = catch(|| {
            for s in 0..steps {
                match s % 7 {
                    0..=3 => {
                        g.timestep(beta);
                    }
                    4 => g.single_diagonal_step(beta),
                    5 => {
                        g.single_rvb_sweep(Some(s % 5));
                    }
                    _ => {
                        g.single_cluster_step();
                    }
                }
                for (ty, d, clean, left) in verif_log::take() {
                    events += 1;
                    if let Some(i) = LETTERS.iter().position(|l| *l == letter(ty)) {
                        bal[i] += d as i64;
                        low[i] = low[i].min(left as i64);
                        if d == 0 && problems.len() < 4 {
                            problems.push(format!("step {}: pool exhausted for {}", s, ty));
                        }
                        if d == -1 && !clean && problems.len() < 4 {
                            problems.push(format!("step {}: returned {} not clean", s, ty));
                        }
                    } else if problems.len() < 4 {
                        problems.push(format!("unknown pooled type {}", ty));
                    }
                }
                if let Some(i) = (0..9).find(|i| bal[*i] != 0) {
                    if problems.len() < 4 {
                        problems.push(format!("step {}: {} gets - returns = {} after the call", s, FIELDS[i], bal[i]));
                    }
                }
                if s % 64 == 63 || s + 1 == steps {
                    if let Some(p) = probe_pooled_containers::<C>(g.get_manager_ref()) {
                        if problems.len() < 4 {
                            problems.push(format!("step {}: {}", s, p));
                        }
                    }
                }
            }
        });
        out.add("soak_events", events);
        out.add("soak_steps", steps as u64);
        match res {
            Ok(()) => {
                let after = snap_ig::<C>(&g);
                if after != before {
                    problems.push(format!("occupancy {} -> {}", list(&before), list(&after)));
                }
                emit(
                    false,
                    &format!("snap {} {}", list(&before), tag),
                    &list(&after),
                    Some(if problems.is_empty() { Ok(()) } else { Err(format!("{}: {}", tag, problems.join("; "))) }),
                );
            }
            Err(msg) => {
                for (ty, d, clean, _) in verif_log::take() {
                    if d == 0 {
                        problems.push(format!("pool exhausted for {}", ty));
                    }
                    if d == -1 && !clean && problems.len() < 4 {
                        problems.push(format!("returned {} not clean (in the call that panicked)", ty));
                    }
                }
                if msg.contains("Out of instances") || !problems.is_empty() {
                    emit(false, &format!("snap {} {}", list(&before), tag), "P", Some(Err(format!("{}: panic '{}' {}", tag, msg, problems.join("; ")))));
                } else {
                    out.foreign_panics.push(format!("{}: {}", tag, msg));
                }
            }
        }
    }
    // generic sampler soak
    let models = generic_models(thorough);
    let (n_runs, steps) = if thorough { (24, 15000) } else { (6, 2500) };
    let n_runs = n_runs * share.0 / share.1;
    for r in 0..n_runs {
        let gm = models[(r * 3 + 1) % models.len()].clone();
        let seed = gen.next();
        let beta = *gen.pick(&[1.0, 4.0]);
        let tag = format!("{}soak:generic:{}:b{}:steps{}:s{}", C::NAME, gm.name, show_f(beta), steps, seed);
        let mut q = match build_generic::<C>(&gm, seed, true, r % 2 == 1) {
            Some(q) => q,
            None => continue,
        };
        let _ = verif_log::take();
        let before = snap_gq::<C>(&q);
        let mut problems: Vec<String> = vec![];
        let res = catch(|| {
            for s in 0..steps {
                q.timestep(beta);
                if s % 5 == 0 {
                    q.loop_update();
                }
                let mut bal = [0i64; 9];
                for (ty, d, clean, _) in verif_log::take() {
                    if let Some(i) = LETTERS.iter().position(|l| *l == letter(ty)) {
                        bal[i] += d as i64;
                    }
                    if (d == 0 || (d == -1 && !clean)) && problems.len() < 4 {
                        problems.push(format!("step {}: {} {}", s, ty, if d == 0 { "exhausted" } else { "returned not clean" }));
                    }
                }
                if bal.iter().any(|b| *b != 0) && problems.len() < 4 {
                    problems.push(format!("step {}: unbalanced {:?}", s, bal));
                }
            }
        });
        out.add("soak_steps", steps as u64);
        match res {
            Ok(()) => {
                let after = snap_gq::<C>(&q);
                if after != before {
                    problems.push(format!("occupancy {} -> {}", list(&before), list(&after)));
                }
                emit(false, &format!("snap {} {}", list(&before), tag), &list(&after), Some(if problems.is_empty() { Ok(()) } else { Err(format!("{}: {}", tag, problems.join("; "))) }));
            }
            Err(msg) => {
                if msg.contains("Out of instances") {
                    emit(false, &format!("snap {} {}", list(&before), tag), "P", Some(Err(format!("{}: panic '{}'", tag, msg))));
                } else {
                    out.foreign_panics.push(format!("{}: {}", tag, msg));
                }
            }
        }
    }
}

// ---------------------------------------------------------------------------------------------
// BondContainer vs the model
// ---------------------------------------------------------------------------------------------
fn show_bc(b: &BondContainer<usize>) -> (String, usize) {
    let v = serde_json::to_value(b).unwrap();
    let map: Vec<String> = v["map"].as_array().unwrap().iter().map(|x| match x.as_u64() { Some(i) => i.to_string(), None => "n".into() }).collect();
    let keys: Vec<String> = v["keys"].as_array().unwrap().iter().map(|kw| format!("{}:{}", kw[0].as_u64().unwrap(), rat(kw[1].as_f64().unwrap()))).collect();
    let total = v["total_weight"].as_f64().unwrap();
    let m = if map.is_empty() { "-".to_string() } else { map.join(",") };
    let k = if keys.is_empty() { "-".to_string() } else { keys.join(",") };
    (format!("m={};k={};t={};c={}", m, k, rat(total), b.verif_is_clean() as u8), map.len())
}

fn bc_mode(out: &mut Out, gen: &mut SplitMix64, thorough: bool) {
    let n = if thorough { 20000 } else { 2000 };
    for ci in 0..n {
        let len = 1 + gen.below(if ci % 10 == 0 { 40 } else { 12 }) as usize;
        let span = 1 + gen.below(8);
        let mut b: BondContainer<usize> = Default::default();
        let mut ops: Vec<String> = vec![];
        let mut outs: Vec<String> = vec![];
        let mut problems: Vec<String> = vec![];
        let mut maplen = 0usize;
        let mut had_remove = false;
        // a panic inside the container (e.g. a stale address after clear) is an oracle failure
        let seq_seed = gen.next();
        let res = catch(|| {
        let mut gen = SplitMix64::new(seq_seed);
        let gen = &mut gen;
        for _ in 0..len {
            let r = gen.below(10);
            if r < 6 {
                let k = gen.below(span) as usize;
                let w = gen.range(0, 32) as f64 / 8.0;
                b.insert(k, w);
                ops.push(format!("i{}:{}", k, rat(w)));
            } else if r < 9 {
                let k = gen.below(span) as usize;
                if k >= maplen {
                    continue; // Rust indexes out of bounds (callers test `contains` first)
                }
                let had = b.contains(&k);
                let did = b.remove(&k);
                if had != did {
                    problems.push(format!("remove({}) returned {} but contains was {}", k, did, had));
                }
                had_remove |= did;
                ops.push(format!("r{}", k));
            } else {
                b.clear();
                ops.push("c".into());
                // oracle: observably empty
                let any = (0..maplen + 2).any(|k| b.contains(&k));
                if !b.is_empty() || b.len() != 0 || b.get_total_weight() != 0.0 || any || !b.verif_is_clean() {
                    problems.push("not empty after clear()".into());
                }
            }
            let (s, ml) = show_bc(&b);
            maplen = ml;
            outs.push(s);
        }
        // through the pool: a dirty container handed back must come out clean
        let mut m = FastOps::new_from_nvars(2);
        let held: BondContainer<usize> = m.get_instance();
        let before_ret = b.len();
        m.return_instance(b);
        let again: BondContainer<usize> = m.get_instance();
        if !again.verif_is_clean() || !again.is_empty() || again.get_total_weight() != 0.0 {
            problems.push(format!("container with {} keys came back from the pool dirty", before_ret));
        }
        m.return_instance(again);
        m.return_instance(held);
        });
        if let Err(msg) = res {
            problems.push(format!("panic in BondContainer after {}: {}", ops.join(","), msg));
            outs.push("P".into());
        }
        for (ty, d, clean, _) in verif_log::take() {
            if d == -1 && !clean {
                problems.push(format!("hook: returned {} not clean", ty));
            }
        }
        if ops.is_empty() {
            continue;
        }
        out.count("bc_sequences");
        if had_remove {
            out.count("bc_sequences_with_effective_remove");
        }
        emit(
            true,
            &format!("bc {}", ops.join(",")),
            &outs.join(" "),
            Some(if problems.is_empty() { Ok(()) } else { Err(problems.join("; ")) }),
        );
    }
}

/// Oracle-only (no model comparison: weights are not exactly representable): insert keys with
/// non-dyadic weights, update some, empty the container again through `remove()` only, hand it to
/// the pool and borrow it back: it must be blank, whatever rounding residue the history left.
fn bc_float_mode(out: &mut Out, gen: &mut SplitMix64, thorough: bool) {
    let n = if thorough { 20000 } else { 2500 };
    let ws = [0.1, 0.3, 0.7, 0.35, 0.45, 0.2, 0.6, 0.9, 1.1, 0.05, 2.3];
    for _ in 0..n {
        let span = 2 + gen.below(7) as usize;
        let nops = 2 + gen.below(14) as usize;
        let seq_seed = gen.next();
        let mut ops: Vec<String> = vec![];
        let mut problems: Vec<String> = vec![];
        let mut residue = 0.0f64;
        let res = catch(|| {
            let mut gen = SplitMix64::new(seq_seed);
            let mut m = FastOps::new_from_nvars(2);
            let mut b: BondContainer<usize> = m.get_instance();
            for _ in 0..nops {
                let k = gen.below(span as u64) as usize;
                if gen.chance(3, 4) {
                    let w = *gen.pick(&ws);
                    b.insert(k, w);
                    ops.push(format!("i{}:{}", k, w));
                } else if b.contains(&k) {
                    b.remove(&k);
                    ops.push(format!("r{}", k));
                }
            }
            // empty it through remove() only, in a random order
            let mut left: Vec<usize> = b.iter().map(|(k, _)| *k).collect();
            while !left.is_empty() {
                let k = left.swap_remove(gen.below(left.len() as u64) as usize);
                b.remove(&k);
                ops.push(format!("r{}", k));
            }
            if !b.is_empty() {
                problems.push("not empty after removing every key".into());
            }
            residue = b.get_total_weight();
            m.return_instance(b);
            let again: BondContainer<usize> = m.get_instance();
            if !again.is_empty() || again.get_total_weight() != 0.0 || !again.verif_is_clean() || (0..span + 1).any(|k| again.contains(&k)) {
                problems.push(format!(
                    "container emptied through remove() came back from the pool not blank: total_weight = {:e} (residue before return {:e})",
                    again.get_total_weight(),
                    residue
                ));
            }
            m.return_instance(again);
            for (ty, d, clean, _) in verif_log::take() {
                if d == -1 && !clean {
                    problems.push(format!("hook: returned {} not clean", ty));
                }
            }
        });
        if let Err(msg) = res {
            problems.push(format!("panic: {}", msg));
        }
        out.count("bcfloat_sequences");
        if residue != 0.0 {
            out.count("bcfloat_sequences_with_rounding_residue_before_return");
        }
        let input = format!("bcfloat {}", if ops.is_empty() { "-".to_string() } else { ops.join(",") });
        emit(false, &input, "-", Some(if problems.is_empty() { Ok(()) } else { Err(format!("{}: {}", ops.join(","), problems.join("; "))) }));
    }
}

fn main() {
    quiet_panics();
    let a = args();
    let mut out = Out::new();
    let mut gen = SplitMix64::new(a.seed.wrapping_mul(0x9E37_79B9).wrapping_add(18));
    match a.mode.as_str() {
        "pool" => {
            // the occupancy of a fresh pool must be the capacities the proofs were checked against
            let fresh = FastOps::new_from_nvars(3);
            emit(true, "caps", &list(&snap(&fresh)), Some(Ok(())));
            let v = serde_json::to_value(qmc::sse::fast_op_alloc::DefaultFastOpAllocator::default()).unwrap();
            let direct: Vec<u64> = FIELDS.iter().map(|f| v[*f]["instances"].as_u64().unwrap_or(u64::MAX)).collect();
            emit(false, "caps", &list(&direct), Some(Ok(())));
            ising_scenarios::<CfgDefault>(&mut out, &mut gen, a.thorough, (1, 1));
            generic_scenarios::<CfgDefault>(&mut out, &mut gen, a.thorough, (1, 1));
            tempering_scenarios::<CfgDefault>(&mut out, &mut gen, a.thorough, (1, 1));
            large_scenarios(&mut out, &mut gen, a.thorough);
            medium_scenarios(&mut out, &mut gen, a.thorough);
            // the public wrapper allocator in front of a bounded pool: same oracles, same grammars
            ising_scenarios::<CfgSwitchPool>(&mut out, &mut gen, a.thorough, (1, 3));
            generic_scenarios::<CfgSwitchPool>(&mut out, &mut gen, a.thorough, (1, 3));
            tempering_scenarios::<CfgSwitchPool>(&mut out, &mut gen, a.thorough, (1, 3));
            // the wrapper without a pool: nothing to exhaust or leak; run for panics, hook must stay silent
            ising_scenarios::<CfgSwitchNone>(&mut out, &mut gen, a.thorough, (1, 10));
            generic_scenarios::<CfgSwitchNone>(&mut out, &mut gen, a.thorough, (1, 10));
            tempering_scenarios::<CfgSwitchNone>(&mut out, &mut gen, a.thorough, (1, 8));
        }
        "soak" => {
            soak::<CfgDefault>(&mut out, &mut gen, a.thorough, (1, 1));
            soak::<CfgSwitchPool>(&mut out, &mut gen, a.thorough, (1, 4));
            soak::<CfgSwitchNone>(&mut out, &mut gen, a.thorough, (1, 8));
        }
        "bc" => {
            bc_mode(&mut out, &mut gen, a.thorough);
            bc_float_mode(&mut out, &mut gen, a.thorough);
        }
        m => {
            eprintln!("unknown mode {}", m);
            std::process::exit(2);
        }
    }
    stat("distinct_kind_word_pairs", out.seen.len());
    out.flush();
}
