//! C17 — measurement helpers: cadence of the fold, returned averages, tempering chunk loop,
//! imaginary-time fold.
//!
//! Modes (all run by default):
//!   measure : `QmcStepper::{timesteps_measure_with_self, timesteps_measure, timesteps_sample,
//!             timesteps_sample_iter, timesteps_sample_iter_zip, timesteps}` on a logging mock stepper
//!   temper  : `TemperingContainer::timesteps_sample` / `parallel_timesteps_sample` on logging mock replicas
//!   ising   : the same helpers on real `QmcIsingGraph` samplers / containers against a clone stepped one
//!             `timestep` at a time
//!   generic : `timesteps` / `timesteps_sample` / `timesteps_measure` and both tempering drivers on real generic
//!             `Qmc` samplers whose energy offset is non-zero (both signs; built with the `*_and_offset`
//!             constructors and by `into_qmc`; most of them through a mix of ACCEPTED and REJECTED constructor calls and
//!             reused after a rejected call), against -<n>/beta + the DOCUMENTED offset (minus the smallest diagonal
//!             entries of the accepted `_and_offset` calls) from a manual `timestep` loop; get_offset() must equal it
//!   itime   : `imaginary_time_fold` on real samplers (length, states, serde snapshot unchanged)
//!   edge    : excluded inputs, run once each (f = 0, f > T, s = 0)
//! The oracle column is the documented cadence / average computed here from the mock's call log (or from
//! the single-stepped clone), never from the Lean model.

use qmc::sse::*;
use rayon::prelude::*;
use std::cell::RefCell;
use std::sync::{Arc, Mutex};
use vh::*;

// ------------------------------------------------------------------------------------------------
// mock replica
// ------------------------------------------------------------------------------------------------

const GID_BITS: usize = 4;
const AGE_BITS: usize = 12;

/// what `swap_graphs` exchanges: the identity of the operator graph and how many steps it has seen
#[derive(Clone, Copy, Debug, PartialEq, Eq)]
struct G {
    gid: usize,
    age: usize,
}

fn enc(g: G) -> Vec<bool> {
    let mut v = Vec::with_capacity(GID_BITS + AGE_BITS);
    for b in (0..GID_BITS).rev() {
        v.push((g.gid >> b) & 1 == 1);
    }
    for b in (0..AGE_BITS).rev() {
        v.push((g.age >> b) & 1 == 1);
    }
    v
}
fn dec(s: &[bool]) -> G {
    let f = |bs: &[bool]| bs.iter().fold(0usize, |a, b| a * 2 + (*b as usize));
    G {
        gid: f(&s[..GID_BITS]),
        age: f(&s[GID_BITS..]),
    }
}

struct Mock {
    slot: usize,
    g: G,
    state: Vec<bool>,
    nscripts: Arc<Vec<Vec<usize>>>,
    offset: f64,
    cutoff: usize,
    /// raw call log: t timestep, n get_n, e energy, s state_ref, g get_op_cutoff, c set_op_cutoff,
    /// h ham_eq, r relative_weight, x swap_graphs
    log: Mutex<Vec<u8>>,
    eargs: Mutex<Vec<(f64, f64)>>,
    betas_seen: Mutex<Vec<f64>>,
    gcount: Mutex<usize>,
    swaps: Arc<Mutex<Vec<(usize, usize, usize)>>>,
    seed: u64,
    /// panic after this many energy calls (used to show a non-terminating loop)
    budget: Option<usize>,
    /// every proposed exchange is accepted (equal Hamiltonians and betas in the real thing)
    always: bool,
}

impl Mock {
    fn new(slot: usize, nscripts: Arc<Vec<Vec<usize>>>, offset: f64, seed: u64, swaps: Arc<Mutex<Vec<(usize, usize, usize)>>>) -> Self {
        let g = G { gid: slot, age: 0 };
        Mock {
            slot,
            g,
            state: enc(g),
            nscripts,
            offset,
            cutoff: 1 + slot,
            log: Mutex::new(vec![]),
            eargs: Mutex::new(vec![]),
            betas_seen: Mutex::new(vec![]),
            gcount: Mutex::new(0),
            swaps,
            seed,
            budget: None,
            always: false,
        }
    }
    fn push(&self, c: u8) {
        self.log.lock().unwrap().push(c);
    }
    fn n_of(&self, g: G) -> usize {
        n_script(&self.nscripts, g)
    }
    fn raw(&self) -> Vec<u8> {
        self.log.lock().unwrap().clone()
    }
}

fn n_script(ns: &[Vec<usize>], g: G) -> usize {
    if g.age == 0 {
        0
    } else {
        let sc = &ns[g.gid % ns.len()];
        sc[(g.age - 1) % sc.len()]
    }
}

impl QmcStepper for Mock {
    fn timestep(&mut self, beta: f64) -> &[bool] {
        self.push(b't');
        self.betas_seen.lock().unwrap().push(beta);
        self.g.age += 1;
        self.state = enc(self.g);
        &self.state
    }
    fn get_n(&self) -> usize {
        self.push(b'n');
        self.n_of(self.g)
    }
    fn get_energy_for_average_n(&self, average_n: f64, beta: f64) -> f64 {
        self.push(b'e');
        let calls = {
            let mut e = self.eargs.lock().unwrap();
            e.push((average_n, beta));
            e.len()
        };
        if let Some(b) = self.budget {
            if calls > b {
                panic!("mock: call budget exhausted");
            }
        }
        -(average_n / beta) + self.offset
    }
    fn state_ref(&self) -> &[bool] {
        self.push(b's');
        &self.state
    }
    fn get_bond_count(&self, _bond: usize) -> usize {
        0
    }
    fn imaginary_time_fold<F, T>(&self, _fold_fn: F, init: T) -> T
    where
        F: Fn(T, &[bool]) -> T,
    {
        init
    }
}

fn decision(seed: u64, slot: usize, step: usize) -> bool {
    let mut r = SplitMix64::new(seed ^ ((slot as u64) << 32) ^ (step as u64).wrapping_mul(0x9E37));
    r.next() & 1 == 1
}

impl GraphWeights for Mock {
    fn ham_eq(&self, _other: &Self) -> bool {
        self.push(b'h');
        false
    }
    /// `swap_on_chunks` multiplies `ga.relative_weight(gb) * gb.relative_weight(ga)`: the lower slot
    /// dictates the decision (0 => never swap, inf => always swap), the higher slot answers 1.
    fn relative_weight(&self, h: &Self) -> f64 {
        self.push(b'r');
        if self.slot < h.slot {
            if self.always || decision(self.seed, self.slot, *self.gcount.lock().unwrap()) {
                f64::INFINITY
            } else {
                0.0
            }
        } else {
            1.0
        }
    }
}

impl SwapManagers for Mock {
    fn can_swap_graphs(&self, _other: &Self) -> Result<(), String> {
        Ok(())
    }
    fn swap_graphs(&mut self, other: &mut Self) {
        self.push(b'x');
        other.push(b'x');
        std::mem::swap(&mut self.g, &mut other.g);
        self.state = enc(self.g);
        other.state = enc(other.g);
        let step = *self.gcount.lock().unwrap();
        self.swaps.lock().unwrap().push((step, self.slot, other.slot));
    }
    fn get_op_cutoff(&self) -> usize {
        self.push(b'g');
        *self.gcount.lock().unwrap() += 1;
        self.cutoff
    }
    fn set_op_cutoff(&mut self, cutoff: usize) {
        self.push(b'c');
        self.cutoff = cutoff;
    }
}

/// Compress a raw call log: one char per `timestep` call (`m` = state read and n read, `n` = only n read,
/// `s` = only state read, `-` = neither), `E` energy call, `W` one tempering step, `S` a state read outside a
/// step. Anything unexpected is kept verbatim behind a `?` so it cannot match the model.
fn compress(raw: &[u8]) -> String {
    let mut out = String::new();
    let mut i = 0;
    while i < raw.len() {
        match raw[i] {
            b't' => {
                let mut j = i + 1;
                let (mut ns, mut ss) = (0, 0);
                while j < raw.len() && (raw[j] == b'n' || raw[j] == b's') {
                    if raw[j] == b'n' {
                        ns += 1
                    } else {
                        ss += 1
                    }
                    j += 1;
                }
                // a state read that belongs to the sampling after the chunk cannot follow a step directly
                // (the energy call comes first), so the greedy grouping is unambiguous
                out.push(match (ss, ns) {
                    (0, 0) => '-',
                    (1, 1) => 'm',
                    (0, 1) => 'n',
                    (1, 0) => 's',
                    _ => '?',
                });
                if ss > 1 || ns > 1 {
                    out.push_str(&format!("[s{}n{}]", ss, ns));
                }
                i = j;
            }
            b'e' => {
                out.push('E');
                i += 1;
            }
            b's' => {
                out.push('S');
                i += 1;
            }
            b'g' | b'c' | b'h' | b'r' | b'x' | b'n' => {
                let mut j = i;
                let mut gs = 0;
                while j < raw.len() && matches!(raw[j], b'g' | b'c' | b'h' | b'r' | b'x' | b'n') {
                    if raw[j] == b'g' {
                        gs += 1;
                    }
                    j += 1;
                }
                if gs == 1 {
                    out.push('W');
                } else {
                    out.push_str(&format!("?W{}", gs));
                }
                i = j;
            }
            c => {
                out.push('?');
                out.push(c as char);
                i += 1;
            }
        }
    }
    if out.is_empty() {
        "-".into()
    } else {
        out
    }
}

fn fl(x: f64) -> String {
    if x.is_nan() {
        "nan".into()
    } else {
        format!("~{:e}", x)
    }
}

fn close(a: f64, b: f64) -> bool {
    (a - b).abs() <= 1e-9 * 1f64.max(a.abs()).max(b.abs())
}

fn show_gs(gs: &[G]) -> String {
    if gs.is_empty() {
        "-".into()
    } else {
        gs.iter().map(|g| format!("{}.{}", g.gid, g.age)).collect::<Vec<_>>().join(",")
    }
}

// ------------------------------------------------------------------------------------------------
// measure mode
// ------------------------------------------------------------------------------------------------

const VARIANTS: [&str; 6] = ["self", "measure", "sample", "iter", "zip", "steps"];

fn run_measure(variant: &str, t: usize, f: Option<usize>, beta: f64, offset: f64, nscript: &[usize], ziplen: usize) {
    let ns = Arc::new(vec![nscript.to_vec()]);
    let mut m = Mock::new(0, ns.clone(), offset, 0, Arc::new(Mutex::new(vec![])));
    let ftok = f.map(|x| x.to_string()).unwrap_or("none".into());
    let input = format!(
        "measure {} {} {} {} {} {} {}",
        variant,
        t,
        ftok,
        rat(beta),
        rat(offset),
        list(nscript),
        ziplen
    );
    // fold calls as (zip item or 0, age)
    let calls: RefCell<Vec<(usize, usize)>> = RefCell::new(vec![]);
    let res = catch(|| match variant {
        "self" => {
            let (acc, e) = m.timesteps_measure_with_self(
                t,
                beta,
                vec![],
                |mut acc: Vec<(usize, usize)>, s: &Mock| {
                    acc.push((0, s.g.age));
                    acc
                },
                f,
            );
            *calls.borrow_mut() = acc;
            e
        }
        "measure" => {
            let (acc, e) = m.timesteps_measure(
                t,
                beta,
                vec![],
                |mut acc: Vec<(usize, usize)>, s: &[bool]| {
                    acc.push((0, dec(s).age));
                    acc
                },
                f,
            );
            *calls.borrow_mut() = acc;
            e
        }
        "sample" => {
            let (states, e) = m.timesteps_sample(t, beta, f);
            *calls.borrow_mut() = states.iter().map(|s| (0, dec(s).age)).collect();
            e
        }
        "iter" => m.timesteps_sample_iter(t, beta, f, |s| calls.borrow_mut().push((0, dec(s).age))),
        "zip" => m.timesteps_sample_iter_zip(t, beta, f, 100..(100 + ziplen), |item, s| calls.borrow_mut().push((item, dec(s).age))),
        "steps" => m.timesteps(t, beta),
        _ => unreachable!(),
    });
    let calls = calls.into_inner();
    let raw = m.raw();
    let logc = compress(&raw);
    let eargs = m.eargs.lock().unwrap().clone();
    let callstr = if calls.is_empty() {
        "-".to_string()
    } else {
        calls.iter().map(|(i, a)| format!("{}:{}", i, a)).collect::<Vec<_>>().join(",")
    };
    let freq = if variant == "steps" { 1 } else { f.unwrap_or(1) };
    match res {
        Err(p) => {
            let out = "panic".to_string();
            // f = 0 is an excluded input; anything else panicking is a failure of the property
            let oracle = if freq == 0 { None } else { Some(Err(format!("panicked: {}", p))) };
            emit(false, &input, &out, oracle);
        }
        Ok(e) => {
            let avg = eargs.last().map(|x| x.0).unwrap_or(f64::NAN);
            let out = format!("{} {} {} {} {}", logc, callstr, m.g.age, fl(avg), fl(e));
            // ---- oracle: documented cadence and average, from the mock's log only ----
            let mut oracle: Result<(), String> = Ok(());
            let mut fail = |s: String| {
                if oracle.is_ok() {
                    oracle = Err(s)
                }
            };
            if freq > 0 {
                let want: Vec<usize> = (1..=t / freq).map(|k| k * freq).collect();
                if m.g.age != t {
                    fail(format!("took {} steps instead of {}", m.g.age, t));
                }
                // ages at which get_n was called
                let mut age = 0;
                let mut n_ages = vec![];
                for c in &raw {
                    match c {
                        b't' => age += 1,
                        b'n' => n_ages.push(age),
                        _ => {}
                    }
                }
                if n_ages != want {
                    fail(format!("get_n read after steps {:?}, documented {:?}", n_ages, want));
                }
                if variant != "steps" {
                    let got: Vec<usize> = calls.iter().map(|c| c.1).collect();
                    let wantc: Vec<usize> = if variant == "zip" { want.iter().cloned().take(ziplen).collect() } else { want.clone() };
                    if got != wantc {
                        fail(format!("fold called on states after steps {:?}, documented {:?}", got, wantc));
                    }
                    if variant == "zip" && calls.iter().enumerate().any(|(k, c)| c.0 != 100 + k) {
                        fail("zip items out of order".into());
                    }
                }
                if eargs.len() != 1 || eargs[0].1 != beta {
                    fail(format!("energy evaluated {} times / wrong beta", eargs.len()));
                }
                if m.betas_seen.lock().unwrap().iter().any(|b| *b != beta) {
                    fail("timestep called with a different beta".into());
                }
                if !want.is_empty() {
                    let mean = want.iter().map(|a| n_script(&ns, G { gid: 0, age: *a }) as f64).sum::<f64>() / want.len() as f64;
                    let doc = -(mean / beta) + offset;
                    if !(close(e, doc)) {
                        fail(format!("returned energy {} but -<n>/beta+offset over the sampled steps is {}", e, doc));
                    }
                }
            }
            let nontrivial = freq > 0 && t / freq.max(1) >= 1;
            // f > T (no sample) is the documented edge: energy is NaN, nothing to demand
            emit(nontrivial, &input, &out, if freq > 0 { Some(oracle) } else { None });
        }
    }
}

fn gen_nscript(g: &mut SplitMix64) -> Vec<usize> {
    let len = g.range(1, 7) as usize;
    (0..len).map(|_| g.range(0, 40) as usize).collect()
}

fn mode_measure(a: &Args) {
    let mut g = SplitMix64::new(a.seed ^ 0x17a);
    let (tmax, fmax) = if a.thorough { (130, 20) } else { (60, 12) };
    let betas = [0.5, 1.0, 2.0, 4.0, 0.25, 8.0, 1.5, 3.0];
    let mut cnt = 0usize;
    for t in 0..=tmax {
        for fi in 0..=fmax {
            let f = if fi == 0 { None } else { Some(fi) };
            for (vi, v) in VARIANTS.iter().enumerate() {
                if *v == "steps" && fi != 0 {
                    continue;
                }
                // every (T, f) with two variants in the quick tier (rotating), all six in thorough
                if !a.thorough && (t + fi + vi) % 3 != 0 && *v != "self" {
                    continue;
                }
                let beta = *g.pick(&betas);
                let offset = g.dyadic(-4, 12, 8);
                let ns = gen_nscript(&mut g);
                let ziplen = g.range(0, (t / fi.max(1) + 2) as i64) as usize;
                run_measure(v, t, f, beta, offset, &ns, ziplen);
                cnt += 1;
            }
        }
    }
    // larger random cases (incl. f > T and non-divisors)
    let extra = if a.thorough { 3000 } else { 300 };
    for _ in 0..extra {
        let t = g.range(0, 400) as usize;
        let f = if g.chance(1, 8) { None } else { Some(g.range(1, 60) as usize) };
        let v = *g.pick(&VARIANTS);
        let beta = *g.pick(&betas);
        let offset = g.dyadic(-4, 12, 8);
        let ns = gen_nscript(&mut g);
        let ziplen = g.range(0, 12) as usize;
        run_measure(v, t, if v == "steps" { None } else { f }, beta, offset, &ns, ziplen);
        cnt += 1;
    }
    stat("measure_cases", cnt);
}

// ------------------------------------------------------------------------------------------------
// temper mode
// ------------------------------------------------------------------------------------------------

type MockTc = TemperingContainer<SplitMix64, Mock>;

struct TemperSetup {
    parallel: bool,
    t: usize,
    s: usize,
    f: usize,
    betas: Vec<f64>,
    offs: Vec<f64>,
    nscripts: Vec<Vec<usize>>,
    seed: u64,
    always: bool,
}

fn build_tc(su: &TemperSetup, budget: Option<usize>) -> (MockTc, Arc<Mutex<Vec<(usize, usize, usize)>>>) {
    let swaps = Arc::new(Mutex::new(vec![]));
    let ns = Arc::new(su.nscripts.clone());
    let mut tc = MockTc::new(SplitMix64::new(su.seed));
    for i in 0..su.betas.len() {
        let mut m = Mock::new(i, ns.clone(), su.offs[i], su.seed, swaps.clone());
        m.budget = budget;
        m.always = su.always;
        tc.add_qmc_stepper(m, su.betas[i]).unwrap();
    }
    (tc, swaps)
}

fn show_swaps(swaps: &[(usize, usize, usize)], nsteps: usize) -> String {
    // per tempering step (1-based index recorded by the mock) the transpositions in execution order
    let maxstep = swaps.iter().map(|s| s.0).max().unwrap_or(0).max(nsteps);
    if maxstep == 0 {
        return "-".into();
    }
    (1..=maxstep)
        .map(|k| {
            let v: Vec<String> = swaps.iter().filter(|s| s.0 == k).map(|s| format!("{}-{}", s.1, s.2)).collect();
            if v.is_empty() {
                "_".to_string()
            } else {
                v.join(".")
            }
        })
        .collect::<Vec<_>>()
        .join(";")
}

fn run_temper(su: &TemperSetup) {
    let nrep = su.betas.len();
    let (mut tc, swaps) = build_tc(su, None);
    let res = catch(|| {
        if su.parallel {
            tc.parallel_timesteps_sample(su.t, su.s, su.f)
        } else {
            tc.timesteps_sample(su.t, su.s, su.f)
        }
    });
    let swaps = swaps.lock().unwrap().clone();
    // number of tempering steps seen by slot 0 (if any)
    let nsteps = tc.graph_ref().first().map(|(m, _)| *m.gcount.lock().unwrap()).unwrap_or(0);
    let input = format!(
        "temper {} {} {} {} {} {} {} {} {}",
        if su.parallel { "parallel" } else { "serial" },
        su.t,
        su.s,
        su.f,
        nrep,
        rats(&su.betas),
        rats(&su.offs),
        if nrep == 0 { "-".to_string() } else { su.nscripts.iter().map(|v| list(v).replace(',', ".")).collect::<Vec<_>>().join(",") },
        show_swaps(&swaps, nsteps)
    );
    match res {
        Err(p) => emit(false, &input, "panic", Some(Err(format!("panicked: {}", p)))),
        Ok(r) => {
            let mut out = vec![];
            let mut oracle: Result<(), String> = Ok(());
            let mut fail = |s: String| {
                if oracle.is_ok() {
                    oracle = Err(s)
                }
            };
            if r.len() != nrep {
                fail(format!("{} results for {} replicas", r.len(), nrep));
            }
            // ---- documented process, one step at a time, from the recorded swaps ----
            let mut arr: Vec<G> = (0..nrep).map(|i| G { gid: i, age: 0 }).collect();
            let mut esum = vec![0.0f64; nrep];
            let mut want_samples: Vec<Vec<G>> = vec![vec![]; nrep];
            for k in 1..=su.t {
                for i in 0..nrep {
                    arr[i].age += 1;
                    esum[i] += -(n_script(&su.nscripts, arr[i]) as f64 / su.betas[i]) + su.offs[i];
                }
                if k % su.s == 0 {
                    for sw in swaps.iter().filter(|x| x.0 == k / su.s) {
                        arr.swap(sw.1, sw.2);
                    }
                }
                if k % su.f == 0 {
                    for i in 0..nrep {
                        want_samples[i].push(arr[i]);
                    }
                }
            }
            // with <= 1 replica neither driver touches a replica in a tempering step (the rayon step since fix f20b8b5, finding F30)
            let expect_swaps = if nrep >= 2 { su.t / su.s } else { 0 };
            for (i, (states, e)) in r.iter().enumerate() {
                let (m, _) = &tc.graph_ref()[i];
                let raw = m.raw();
                let got: Vec<G> = states.iter().map(|s| dec(s)).collect();
                out.push(format!("{} {} {}", compress(&raw), show_gs(&got), fl(*e)));
                if i >= nrep {
                    continue;
                }
                if got != want_samples[i] {
                    fail(format!("slot {}: sampled (graph.age) {} but the documented cadence gives {}", i, show_gs(&got), show_gs(&want_samples[i])));
                }
                let steps = raw.iter().filter(|c| **c == b't').count();
                if steps != su.t {
                    fail(format!("slot {}: {} steps taken instead of {}", i, steps, su.t));
                }
                // swap steps exactly after steps that are multiples of s
                let mut age = 0;
                let mut at = vec![];
                for c in &raw {
                    match c {
                        b't' => age += 1,
                        b'g' => at.push(age),
                        _ => {}
                    }
                }
                let want_at: Vec<usize> = (1..=expect_swaps).map(|k| k * su.s).collect();
                if at != want_at {
                    fail(format!("slot {}: tempering steps after steps {:?}, documented {:?}", i, at, want_at));
                }
                if su.t > 0 {
                    let doc = esum[i] / su.t as f64;
                    if !close(*e, doc) {
                        fail(format!("slot {}: returned energy {} but the per-step average is {}", i, e, doc));
                    }
                }
                if m.betas_seen.lock().unwrap().iter().any(|b| *b != su.betas[i]) {
                    fail(format!("slot {}: stepped at a foreign beta", i));
                }
            }
            // ---- independent reference: an identically built container driven in lock step (serial semantics:
            // every replica one `timestep`, `tempering_step()` after every s-th step, then read the states) ----
            {
                let (mut tc2, _) = build_tc(su, None);
                let mut ref_samples: Vec<Vec<G>> = vec![vec![]; nrep];
                for k in 1..=su.t {
                    for (m, beta) in tc2.graph_mut().iter_mut() {
                        m.timestep(*beta);
                    }
                    if k % su.s == 0 {
                        tc2.tempering_step();
                    }
                    if k % su.f == 0 {
                        for i in 0..nrep {
                            ref_samples[i].push(tc2.graph_ref()[i].0.g);
                        }
                    }
                }
                let ref_fin: Vec<G> = tc2.graph_ref().iter().map(|(m, _)| m.g).collect();
                let got_fin: Vec<G> = tc.graph_ref().iter().map(|(m, _)| m.g).collect();
                for i in 0..nrep.min(r.len()) {
                    let got: Vec<G> = r[i].0.iter().map(|s| dec(s)).collect();
                    if got != ref_samples[i] {
                        fail(format!("slot {}: sampled {} but the lock-step reference container gives {}", i, show_gs(&got), show_gs(&ref_samples[i])));
                    }
                    if su.t > 0 && su.t % su.f == 0 && got.last() != Some(&got_fin[i]) {
                        fail(format!("slot {}: last sample {:?} is not the graph the slot holds when the driver returns ({:?})", i, got.last(), got_fin[i]));
                    }
                }
                if got_fin != ref_fin {
                    fail(format!("final arrangement {} but the lock-step reference ends in {}", show_gs(&got_fin), show_gs(&ref_fin)));
                }
                if tc.get_total_swaps() != tc2.get_total_swaps() {
                    fail(format!("total_swaps {} but the lock-step reference counts {}", tc.get_total_swaps(), tc2.get_total_swaps()));
                }
                if su.always && nrep >= 2 && tc2.get_total_swaps() as usize != (su.t / su.s) * (nrep - 1) {
                    fail(format!("reference: {} accepted exchanges, {} expected when every proposal is accepted", tc2.get_total_swaps(), (su.t / su.s) * (nrep - 1)));
                }
            }
            let fin: Vec<G> = tc.graph_ref().iter().map(|(m, _)| m.g).collect();
            if fin != arr {
                fail(format!("final arrangement {} documented {}", show_gs(&fin), show_gs(&arr)));
            }
            out.push(show_gs(&fin));
            let nontrivial = nrep >= 1 && su.t >= 1;
            emit(nontrivial, &input, &out.join(" "), Some(oracle));
        }
    }
}

fn gen_setup(g: &mut SplitMix64, parallel: bool, t: usize, s: usize, f: usize, nrep: usize) -> TemperSetup {
    let betas_pool = [0.5, 1.0, 2.0, 4.0];
    TemperSetup {
        parallel,
        t,
        s,
        f,
        betas: (0..nrep).map(|_| *g.pick(&betas_pool)).collect(),
        offs: (0..nrep).map(|_| g.dyadic(-2, 8, 4)).collect(),
        nscripts: (0..nrep.max(1)).map(|_| gen_nscript(g)).collect(),
        seed: g.next(),
        always: false,
    }
}

fn mode_temper(a: &Args) {
    let mut g = SplitMix64::new(a.seed ^ 0x7e);
    let (tmax, pmax) = if a.thorough { (100, 16) } else { (60, 12) };
    let mut cnt = 0usize;
    let mut swaps_seen = 0usize;
    for t in 0..=tmax {
        for s in 1..=pmax {
            for f in 1..=pmax {
                let k = t + s + f;
                let nrep = [2, 3, 1, 4, 2, 5, 3, 2][k % 8];
                let su = gen_setup(&mut g, false, t, s, f, nrep);
                run_temper(&su);
                cnt += 1;
                // the parallel driver on the same setup (a third of the grid in the quick tier)
                if a.thorough || k % 3 == 0 {
                    let su2 = TemperSetup { parallel: true, ..su };
                    run_temper(&su2);
                    cnt += 1;
                }
                swaps_seen += t / s;
            }
        }
    }
    // boundary of the swap period: s in {T-1, T, T+1, 2T}, sampling period dividing T, both drivers, with
    // scripted decisions and with every exchange accepted (equal betas)
    let tb: usize = if a.thorough { 48 } else { 24 };
    let mut boundary = 0usize;
    for t in 1..=tb {
        for s in [t.saturating_sub(1), t, t + 1, 2 * t] {
            if s == 0 {
                continue;
            }
            for f in (1..=t).filter(|f| t % f == 0) {
                for parallel in [false, true] {
                    let nrep = 2 + (t + s + f) % 3;
                    let mut su = gen_setup(&mut g, parallel, t, s, f, nrep);
                    su.always = (t + f + parallel as usize) % 2 == 0 || s == t;
                    if su.always {
                        su.betas = vec![1.0; nrep];
                    }
                    run_temper(&su);
                    boundary += 1;
                    cnt += 1;
                }
            }
        }
    }
    stat("temper_boundary_cases", boundary);
    // periods larger than T, zero replicas, many replicas
    let extra = if a.thorough { 1500 } else { 200 };
    for i in 0..extra {
        let t = g.range(0, 200) as usize;
        let s = g.range(1, 70) as usize;
        let f = g.range(1, 70) as usize;
        let nrep = if i % 40 == 0 { 0 } else { g.range(1, 9) as usize };
        let par = g.coin();
        let su = gen_setup(&mut g, par, t, s, f, nrep);
        run_temper(&su);
        cnt += 1;
    }
    stat("temper_cases", cnt);
    stat("temper_swap_steps", swaps_seen);
}

// ------------------------------------------------------------------------------------------------
// real Ising samplers
// ------------------------------------------------------------------------------------------------

type Ising = DefaultQmcIsingGraph<SplitMix64>;

fn gen_ising(g: &mut SplitMix64, nvars: usize) -> (Vec<((usize, usize), f64)>, f64, usize) {
    let mut edges = vec![];
    for v in 0..nvars - 1 {
        edges.push(((v, v + 1), g.dyadic(-2, 2, 4)));
    }
    if nvars > 2 && g.coin() {
        edges.push(((0, nvars - 1), g.dyadic(-2, 2, 4)));
    }
    for e in edges.iter_mut() {
        if e.1 == 0.0 {
            e.1 = 1.0;
        }
    }
    let transverse = g.range(1, 8) as f64 / 4.0;
    let cutoff = g.range(1, 12) as usize;
    (edges, transverse, cutoff)
}

/// Documented energy offset of the Ising sampler, from the constructor arguments only (exact for dyadic inputs):
/// sum over edges of |J| plus N * (Gamma + |h|) — every diagonal weight is shifted to be non-negative.
fn ising_offset(edges: &[((usize, usize), f64)], nvars: usize, transverse: f64, longitudinal: f64) -> f64 {
    edges.iter().map(|(_, j)| j.abs()).sum::<f64>() + nvars as f64 * (transverse + longitudinal.abs())
}

fn mode_ising(a: &Args) {
    let mut g = SplitMix64::new(a.seed ^ 0x151);
    let cases = if a.thorough { 300 } else { 40 };
    // (a) timesteps_measure on a real sampler against a clone stepped one timestep at a time
    for ci in 0..cases {
        let nvars = g.range(2, 6) as usize;
        let (edges, tr, cutoff) = gen_ising(&mut g, nvars);
        let beta = *g.pick(&[0.5, 1.0, 2.0, 4.0]);
        let t = g.range(1, 80) as usize;
        let f = g.range(1, 14) as usize;
        // longitudinal field of both signs (and none); the documented offset comes from the arguments, not get_offset()
        let h: f64 = [0.0, -0.75, 0.5, -0.25, 1.25, -1.5][ci % 6];
        let off = ising_offset(&edges, nvars, tr, h);
        let mut q = Ising::new_with_rng(edges, tr, h, cutoff, SplitMix64::new(g.next()), None);
        let off_reported = q.get_offset();
        q.timesteps(g.range(0, 20) as usize, beta);
        let mut q2 = q.clone();
        let (samples, e) = q.timesteps_measure(
            t,
            beta,
            vec![],
            |mut acc: Vec<Vec<bool>>, s| {
                acc.push(s.to_vec());
                acc
            },
            Some(f),
        );
        let mut ns = vec![];
        let mut states = vec![];
        for _ in 0..t {
            q2.timestep(beta);
            ns.push(q2.get_n());
            states.push(q2.state_ref().to_vec());
        }
        let mut oracle = Ok(());
        let want: Vec<&Vec<bool>> = (1..=t / f).map(|k| &states[k * f - 1]).collect();
        if samples.len() != want.len() || samples.iter().zip(want.iter()).any(|(a, b)| a != *b) {
            oracle = Err(format!("real sampler: fold saw {} states, not those after steps f,2f,..", samples.len()));
        }
        if t / f >= 1 {
            let mean = (1..=t / f).map(|k| ns[k * f - 1] as f64).sum::<f64>() / (t / f) as f64;
            let doc = -(mean / beta) + off;
            if !close(e, doc) {
                oracle = Err(format!(
                    "real sampler (h = {}): energy {} but -<n>/beta + offset = {} with the documented offset sum|J| + N(Gamma+|h|) = {} (get_offset() says {})",
                    h, e, doc, off, off_reported
                ));
            }
        }
        if !close(off_reported, off) {
            oracle = Err(format!("real sampler (h = {}): get_offset() = {} but sum|J| + N(Gamma+|h|) = {}", h, off_reported, off));
        }
        if q.state_ref() != q2.state_ref() || q.get_n() != q2.get_n() {
            oracle = Err("real sampler: final state differs from T single steps".into());
        }
        let input = format!("isingm {} {} {} {} {}", t, f, rat(beta), rat(off), list(&ns));
        emit(t / f >= 1, &input, &format!("{} {}", samples.len(), fl(e)), Some(oracle));
    }
    // (b) tempering drivers on real replicas against a clone driven one step at a time. Two thirds of the cases
    // use a Hamiltonian ladder (|J|, Gamma and |h| scaled per slot, same graph and signs: allowed by
    // `can_swap_graphs`), so that the slots' energy offsets differ; the offset belongs to the slot.
    let (mut ladder_cases, mut ladder_with_swap) = (0usize, 0usize);
    for ci in 0..cases {
        let nvars = g.range(2, 5) as usize;
        let nrep = g.range(2, 5) as usize;
        let (edges, tr, cutoff) = gen_ising(&mut g, nvars);
        let t = g.range(1, 60) as usize;
        let s = g.range(1, 9) as usize;
        let f = g.range(1, 9) as usize;
        let parallel = ci % 2 == 1;
        // every fifth pair of cases sits on the boundary of the swap period: s in {T-1, T, T+1, 2T}, sampling period
        // dividing T, identical Hamiltonians and one common beta (every proposed exchange is accepted)
        let boundary = (ci / 2) % 5 == 4;
        let (s, f) = if boundary {
            let sb = [t.saturating_sub(1).max(1), t, t, t + 1, 2 * t][(ci / 10) % 5];
            let divs: Vec<usize> = (1..=t).filter(|d| t % d == 0).collect();
            (sb, *g.pick(&divs))
        } else {
            (s, f)
        };
        let ladder = ci % 3 != 0 && !boundary;
        let h: f64 = if (ci / 2) % 2 == 1 && !boundary { [-0.5, 0.25, -1.25, 0.75][(ci / 4) % 4] } else { 0.0 };
        // a beta ladder, or (every other ladder case) one common beta so that only the Hamiltonians differ
        let common_beta = (ladder && ci % 6 < 3) || boundary;
        if boundary {
            stat("ising_tempering_boundary_cases", 1);
        }
        let mut tc: DefaultTemperingContainer<SplitMix64, SplitMix64> = TemperingContainer::new(SplitMix64::new(g.next()));
        let mut betas = vec![];
        let mut offs = vec![];
        let mut docs: Vec<f64> = vec![];
        for i in 0..nrep {
            let beta = if common_beta { 1.0 } else { [0.5, 1.0, 2.0, 4.0][i % 4] };
            // slot i: couplings scaled by (8 + i)/8, field by (8 + 2i)/8, longitudinal by (4 + i)/4 (all dyadic)
            let (sj, sg, sh) = if ladder { ((8 + i) as f64 / 8.0, (8 + 2 * i) as f64 / 8.0, (4 + i) as f64 / 4.0) } else { (1.0, 1.0, 1.0) };
            let e: Vec<((usize, usize), f64)> = edges.iter().map(|(ab, j)| (*ab, j * sj)).collect();
            // the slot's documented offset, from the constructor arguments; get_offset() as captured at construction
            docs.push(ising_offset(&e, nvars, tr * sg, h * sh));
            let q = Ising::new_with_rng(e, tr * sg, h * sh, cutoff, SplitMix64::new(g.next()), None);
            offs.push(q.get_offset());
            tc.add_qmc_stepper(q, beta).unwrap();
            betas.push(beta);
        }
        tc.timesteps(g.range(0, 10) as usize);
        let mut tc2 = tc.clone();
        let r = if parallel { tc.parallel_timesteps_sample(t, s, f) } else { tc.timesteps_sample(t, s, f) };
        let mut nseq: Vec<Vec<usize>> = vec![vec![]; nrep];
        let mut want: Vec<Vec<Vec<bool>>> = vec![vec![]; nrep];
        let mut offset_moved: Option<String> = None;
        for k in 1..=t {
            // manual reference: one `timestep` per replica, `get_n`, `tempering_step`
            for (q, beta) in tc2.graph_mut().iter_mut() {
                q.timestep(*beta);
            }
            for i in 0..nrep {
                nseq[i].push(tc2.graph_ref()[i].0.get_n());
            }
            if k % s == 0 {
                tc2.tempering_step();
            }
            for i in 0..nrep {
                let o = tc2.graph_ref()[i].0.get_offset();
                if o != offs[i] && offset_moved.is_none() {
                    offset_moved = Some(format!("slot {}: get_offset() is {} after step {} but was {} at construction", i, o, k, offs[i]));
                }
            }
            if k % f == 0 {
                for i in 0..nrep {
                    want[i].push(tc2.graph_ref()[i].0.state_ref().to_vec());
                }
            }
        }
        if ladder {
            ladder_cases += 1;
            if tc2.get_total_swaps() > 0 {
                ladder_with_swap += 1;
            }
        }
        let mut oracle = Ok(());
        for i in 0..nrep {
            if r[i].0 != want[i] {
                oracle = Err(format!("real replicas: slot {} sampled states differ from the single-step process", i));
            }
            let doc = nseq[i].iter().map(|n| -(*n as f64 / betas[i]) + docs[i]).sum::<f64>() / t as f64;
            if !close(r[i].1, doc) {
                oracle = Err(format!(
                    "real replicas (h = {}): slot {} energy {} but the per-step average of -n/beta + offset is {} with the documented offset {} (get_offset() said {})",
                    h, i, r[i].1, doc, docs[i], offs[i]
                ));
            }
            if !close(offs[i], docs[i]) {
                oracle = Err(format!("real replicas (h = {}): slot {}: get_offset() = {} at construction but sum|J| + N(Gamma+|h|) = {}", h, i, offs[i], docs[i]));
            }
            if tc.graph_ref()[i].0.state_ref() != tc2.graph_ref()[i].0.state_ref() {
                oracle = Err(format!("real replicas: slot {} final state differs from the lock-step reference", i));
            }
            if t % f == 0 && r[i].0.last().map(|x| &x[..]) != Some(tc.graph_ref()[i].0.state_ref()) {
                oracle = Err(format!("real replicas: slot {}: the last sample is not the state the slot holds when the driver returns (T = {}, s = {}, f = {})", i, t, s, f));
            }
        }
        if tc.get_total_swaps() != tc2.get_total_swaps() {
            oracle = Err("real replicas: number of accepted swaps differs".into());
        }
        for i in 0..nrep {
            let o = tc.graph_ref()[i].0.get_offset();
            if o != offs[i] {
                oracle = Err(format!("real replicas: slot {}: get_offset() is {} after the run but was {} at construction", i, o, offs[i]));
            }
        }
        if let Some(m) = offset_moved {
            oracle = Err(format!("real replicas (reference loop): {}", m));
        }
        let input = format!(
            "isingt {} {} {} {} {} {} {}",
            t,
            s,
            f,
            nrep,
            rats(&betas),
            rats(&docs),
            nseq.iter().map(|v| list(v).replace(',', ".")).collect::<Vec<_>>().join(",")
        );
        let out = r.iter().map(|x| format!("{} {}", x.0.len(), fl(x.1))).collect::<Vec<_>>().join(" ");
        emit(true, &input, &out, Some(oracle));
        stat("ising_swaps_accepted", tc.get_total_swaps());
        if h < 0.0 {
            stat("ising_tempering_negative_h", 1);
        }
    }
    stat("ising_ladder_cases", ladder_cases);
    stat("ising_ladder_cases_with_accepted_swap", ladder_with_swap);
}

// ------------------------------------------------------------------------------------------------
// real generic samplers (`Qmc`) with a non-zero energy offset of either sign
// ------------------------------------------------------------------------------------------------

type Generic = DefaultQmc<SplitMix64>;

/// one registered interaction: variables, ALL diagonal entries as handed to the constructor, and whether an
/// `_and_offset` constructor was used
#[derive(Clone, Debug)]
struct Term {
    vars: Vec<usize>,
    diag: Vec<f64>,
    with_offset: bool,
}

fn min_of(d: &[f64]) -> f64 {
    d.iter().cloned().fold(f64::MAX, f64::min)
}

/// Documented offset of a generic sampler (read off the unchanged `make_*_interaction_and_offset`:
/// `self.offset -= min_diag`, the matrix is stored with `min_diag` subtracted from its diagonal; the plain
/// constructors record nothing): `get_offset() = - sum over _and_offset terms of their smallest diagonal entry`.
fn doc_generic_offset(terms: &[Term]) -> f64 {
    -terms.iter().filter(|t| t.with_offset).map(|t| min_of(&t.diag)).sum::<f64>()
}

/// the stored matrices must be the registered ones minus the documented shift on the diagonal
fn check_stored(q: &Generic, terms: &[Term]) -> Result<(), String> {
    if q.get_bonds().len() != terms.len() {
        return Err(format!("{} interactions stored for {} registered", q.get_bonds().len(), terms.len()));
    }
    for (k, t) in terms.iter().enumerate() {
        let n = t.vars.len();
        let shift = if t.with_offset { min_of(&t.diag) } else { 0.0 };
        for idx in 0..(1usize << n) {
            let bits: Vec<bool> = (0..n).map(|b| (idx >> (n - 1 - b)) & 1 == 1).collect();
            let got = q.get_bonds()[k].at(&bits, &bits).map_err(|e| format!("term {}: at() failed: {}", k, e))?;
            let want = t.diag[idx] - shift;
            if got != want {
                return Err(format!(
                    "term {} (diagonal {:?}, {}): stored diagonal entry {} is {} but the documented shifted value is {}",
                    k,
                    t.diag,
                    if t.with_offset { "_and_offset" } else { "plain" },
                    idx,
                    got,
                    want
                ));
            }
        }
    }
    Ok(())
}

/// one `make_*_interaction_and_offset` / `make_interaction` call as issued, with the outcome the DOCUMENTATION
/// demands (`expect_ok`, decided when the call is generated) and the outcome observed
#[derive(Clone, Debug)]
struct CallRec {
    kind: &'static str,
    mat: Vec<f64>,
    vars: Vec<usize>,
    expect_ok: bool,
    got_ok: bool,
    why: &'static str,
}

fn show_calls(cs: &[CallRec]) -> String {
    if cs.is_empty() {
        "-".into()
    } else {
        cs.iter().map(|c| format!("{}:{}:{}", c.kind, rats(&c.mat), list(&c.vars))).collect::<Vec<_>>().join(";")
    }
}

fn show_results(cs: &[CallRec]) -> String {
    if cs.is_empty() {
        "-".into()
    } else {
        cs.iter().map(|c| if c.got_ok { 'A' } else { 'E' }).collect()
    }
}

/// the calls whose observed outcome is not the documented one
fn call_mismatch(cs: &[CallRec]) -> Result<(), String> {
    for (k, c) in cs.iter().enumerate() {
        if c.expect_ok != c.got_ok {
            return Err(format!(
                "constructor call {} ({} on vars {:?}, {}): returned {} but the documented outcome is {}",
                k,
                c.kind,
                c.vars,
                c.why,
                if c.got_ok { "Ok" } else { "Err" },
                if c.expect_ok { "Ok" } else { "Err" }
            ));
        }
    }
    Ok(())
}

/// issue one constructor call on a real sampler and record it
fn issue(q: &mut Generic, calls: &mut Vec<CallRec>, kind: &'static str, mat: Vec<f64>, vars: Vec<usize>, expect_ok: bool, why: &'static str) {
    let r = match kind {
        "new_off" => q.make_interaction_and_offset(mat.clone(), vars.clone()),
        "diag_off" => q.make_diagonal_interaction_and_offset(mat.clone(), vars.clone()),
        "new" => q.make_interaction(mat.clone(), vars.clone()),
        _ => q.make_diagonal_interaction(mat.clone(), vars.clone()),
    };
    calls.push(CallRec { kind, mat, vars, expect_ok, got_ok: r.is_ok(), why });
}

/// `n` dyadic diagonal entries whose minimum is NOT zero (so a rejected call that left its shift behind is visible)
fn nonzero_min_diag(g: &mut SplitMix64, n: usize) -> Vec<f64> {
    let mut d: Vec<f64> = (0..n).map(|_| g.dyadic(-3, 3, 4)).collect();
    if min_of(&d) == 0.0 {
        let bump = *g.pick(&[0.75, -1.25, 2.5]);
        d.iter_mut().for_each(|x| *x += bump);
    }
    d
}

/// A call the documentation REJECTS (`Err`, nothing registered, offset untouched), with a non-zero smallest diagonal
/// entry. Reasons: a variable named twice, a negative off-diagonal weight (full matrix only), a variable index the
/// sampler does not have, a matrix whose size does not fit the variable list, no variable at all, a size that is no
/// power of four / two.
fn gen_rejected(g: &mut SplitMix64, nvars: usize) -> (&'static str, Vec<f64>, Vec<usize>, &'static str) {
    let full = g.chance(2, 3);
    // a full matrix over k variables with the given diagonal and small non-negative off-diagonal weights
    let full_mat = |g: &mut SplitMix64, k: usize| -> Vec<f64> {
        let tn = 1usize << k;
        let d = nonzero_min_diag(g, tn);
        let mut m = vec![0.0; tn * tn];
        for r in 0..tn {
            for c in 0..tn {
                m[r * tn + c] = if r == c { d[r] } else { g.range(0, 3) as f64 / 4.0 };
            }
        }
        m
    };
    let v = g.range(0, nvars as i64 - 1) as usize;
    let w = (v + 1 + g.range(0, nvars as i64 - 2) as usize) % nvars; // != v (nvars >= 2)
    if full {
        match g.range(0, 9) {
            0 | 1 => ("new_off", full_mat(g, 2), vec![v, v], "variable named twice"),
            2 | 3 => {
                let k = if g.coin() { 1 } else { 2 };
                let mut m = full_mat(g, k);
                let tn = 1usize << k;
                let (r, c) = (g.range(0, tn as i64 - 1) as usize, g.range(0, tn as i64 - 2) as usize);
                let c = if c >= r { c + 1 } else { c };
                m[r * tn + c] = -(g.range(1, 6) as f64) / 4.0;
                ("new_off", m, if k == 1 { vec![v] } else { vec![v, w] }, "negative off-diagonal weight")
            }
            4 | 5 => {
                let far = nvars + g.range(0, 2) as usize;
                if g.coin() {
                    ("new_off", full_mat(g, 1), vec![far], "variable index >= nvars")
                } else {
                    let vs = if g.coin() { vec![v, far] } else { vec![far, v] };
                    ("new_off", full_mat(g, 2), vs, "variable index >= nvars")
                }
            }
            6 | 7 => match g.range(0, 2) {
                0 => ("new_off", full_mat(g, 2), vec![v], "16 entries for one variable"),
                1 => ("new_off", full_mat(g, 1), vec![v, w], "4 entries for two variables"),
                _ => ("new_off", full_mat(g, 2), vec![0, 1, nvars.min(2)], "16 entries for three variables"),
            },
            8 => ("new_off", nonzero_min_diag(g, 1), vec![], "no variable"),
            _ => {
                let mut m = full_mat(g, 2);
                m.truncate(8);
                ("new_off", m, vec![v, w], "8 entries: no power of four")
            }
        }
    } else {
        match g.range(0, 7) {
            0 | 1 => ("diag_off", nonzero_min_diag(g, 4), vec![v, v], "variable named twice"),
            2 | 3 => {
                let far = nvars + g.range(0, 2) as usize;
                if g.coin() {
                    ("diag_off", nonzero_min_diag(g, 2), vec![far], "variable index >= nvars")
                } else {
                    ("diag_off", nonzero_min_diag(g, 4), vec![v, far], "variable index >= nvars")
                }
            }
            4 | 5 => {
                if g.coin() {
                    ("diag_off", nonzero_min_diag(g, 4), vec![v], "4 entries for one variable")
                } else {
                    ("diag_off", nonzero_min_diag(g, 2), vec![v, w], "2 entries for two variables")
                }
            }
            6 => ("diag_off", nonzero_min_diag(g, 1), vec![], "no variable"),
            _ => ("diag_off", nonzero_min_diag(g, 3), vec![v, w], "3 entries: no power of two"),
        }
    }
}

/// issue one rejected call (see `gen_rejected`) on `q`
fn issue_rejected(g: &mut SplitMix64, q: &mut Generic, calls: &mut Vec<CallRec>, nvars: usize) {
    let (kind, mat, vars, why) = gen_rejected(g, nvars);
    stat(&format!("generic_rejected_call[{}:{}]", kind, why.replace(' ', "_")), 1);
    issue(q, calls, kind, mat, vars, false, why);
}

/// A generic sampler on a chain: per edge a diagonal interaction `[c-j, c+j, c+j, c-j]` registered with
/// `make_diagonal_interaction_and_offset` (or the full-matrix variant), so the documented offset is
/// `-Σ(c-|j|)`: negative for `c > |j|` (all diagonal entries strictly positive), positive for `c < |j|`; sometimes a
/// single-site `[a, 0, 0, b]` with offset; plus a constant single-site term (no offset).
/// `shift` moves every diagonal, which changes the offset but not the stored (shifted) matrices.
/// With `rejects`, calls the documentation rejects (non-zero smallest diagonal entry, every rejection reason) are
/// interleaved with the accepted ones — before the first, between them, after the last. `terms` holds the ACCEPTED
/// calls only; `calls` every call in the order issued.
fn gen_generic(g: &mut SplitMix64, nvars: usize, shift: f64, seed: u64, rejects: bool) -> (Generic, Vec<Term>, Vec<CallRec>) {
    let mut q = Generic::new_with_state(nvars, SplitMix64::new(seed), vec![false; nvars], false);
    let mut terms = vec![];
    let mut calls = vec![];
    for v in 0..nvars - 1 {
        if rejects && g.chance(2, 3) {
            issue_rejected(g, &mut q, &mut calls, nvars);
        }
        let j = *g.pick(&[-1.0, -0.5, 0.5, 1.0, 1.5]);
        let c = g.dyadic(-3, 3, 4);
        let (lo, hi) = (c + shift - j, c + shift + j);
        if v % 2 == 0 {
            issue(&mut q, &mut calls, "diag_off", vec![lo, hi, hi, lo], vec![v, v + 1], true, "chain edge");
        } else {
            let mut m = vec![0.0; 16];
            for (i, d) in [lo, hi, hi, lo].iter().enumerate() {
                m[5 * i] = *d;
            }
            issue(&mut q, &mut calls, "new_off", m, vec![v, v + 1], true, "chain edge");
        }
        terms.push(Term { vars: vec![v, v + 1], diag: vec![lo, hi, hi, lo], with_offset: true });
    }
    if g.coin() {
        let (a, b) = (g.range(1, 8) as f64 / 4.0 + shift, g.range(1, 8) as f64 / 4.0 + shift);
        issue(&mut q, &mut calls, "new_off", vec![a, 0.0, 0.0, b], vec![0], true, "single-site diagonal");
        terms.push(Term { vars: vec![0], diag: vec![a, b], with_offset: true });
    }
    if rejects && g.coin() {
        issue_rejected(g, &mut q, &mut calls, nvars);
    }
    let tr = g.range(1, 6) as f64 / 4.0;
    for v in 0..nvars {
        issue(&mut q, &mut calls, "new", vec![tr, tr, tr, tr], vec![v], true, "constant single-site term");
        terms.push(Term { vars: vec![v], diag: vec![tr, tr], with_offset: false });
    }
    if rejects && g.chance(2, 3) {
        issue_rejected(g, &mut q, &mut calls, nvars);
    }
    (q, terms, calls)
}

fn close12(a: f64, b: f64) -> bool {
    (a - b).abs() <= 1e-12 * 1f64.max(a.abs()).max(b.abs())
}

/// manual loop on a clone: n after every step, state after every step
fn single_steps(q: &mut Generic, t: usize, beta: f64) -> (Vec<usize>, Vec<Vec<bool>>) {
    let mut ns = vec![];
    let mut states = vec![];
    for _ in 0..t {
        q.timestep(beta);
        ns.push(q.get_n());
        states.push(q.state_ref().to_vec());
    }
    (ns, states)
}

fn mode_generic(a: &Args) {
    let mut gen = SplitMix64::new(a.seed ^ 0x6e17);
    let g = &mut gen;
    let cases = if a.thorough { 240 } else { 36 };
    let (mut npos, mut nneg) = (0, 0);
    let mut reused = 0usize;
    // (a) timesteps / timesteps_sample / timesteps_measure on a generic sampler with an offset, built through a mix of
    // accepted and REJECTED constructor calls (three quarters of the samplers), a rejected call also after the warm-up
    for ci in 0..cases {
        let label = format!("genericm case {} {}", a.seed, ci);
        let res = catch(|| {
            let beta = *g.pick(&[0.5, 1.0, 2.0, 4.0]);
            let t = g.range(1, 60) as usize;
            let f = g.range(1, 9) as usize;
            let rejects = g.chance(3, 4);
            // `off`: the DOCUMENTED offset, computed from the matrices of the ACCEPTED calls, never from get_offset();
            // `base`: the documented offset before the recorded calls (conversion), `nbase` the bonds it registered
            let (mut q0, off, stored, mut calls, nvars, base, nbonds): (Generic, f64, Result<(), String>, Vec<CallRec>, usize, f64, usize) = if ci % 3 == 2 {
                // obtained by conversion from an Ising sampler (with and without a longitudinal field, both signs):
                // into_qmc registers [-J, J, J, -J] per edge and [-h, 0, 0, h] per site with offset => sum|J| + N|h|
                let nvars = g.range(2, 5) as usize;
                let (edges, tr, cutoff) = gen_ising(g, nvars);
                let h: f64 = if ci % 2 == 0 { 0.0 } else { *g.pick(&[-0.75, 0.5, 1.25, -0.25]) };
                let off = edges.iter().map(|(_, j)| j.abs()).sum::<f64>() + nvars as f64 * h.abs();
                let mut q = Ising::new_with_rng(edges, tr, h, cutoff, SplitMix64::new(g.next()), None).into_qmc();
                let nb = q.get_bonds().len();
                // the converted sampler is reused: calls the documentation rejects must leave no trace
                let mut calls = vec![];
                if rejects {
                    for _ in 0..g.range(1, 3) {
                        issue_rejected(g, &mut q, &mut calls, nvars);
                    }
                }
                (q, off, Ok(()), calls, nvars, off, nb)
            } else {
                let nvars = g.range(2, 5) as usize;
                // force the sign of the offset in turn
                let shift = if ci % 2 == 0 { 3.0 } else { -3.0 };
                let seed = g.next();
                let (q, terms, calls) = gen_generic(g, nvars, shift, seed, rejects);
                let st = check_stored(&q, &terms);
                let nb = terms.len();
                (q, doc_generic_offset(&terms), st, calls, nvars, 0.0, nb)
            };
            q0.timesteps(g.range(0, 15) as usize, beta);
            // reused after it has been sampled: one more rejected call
            if rejects && g.coin() {
                issue_rejected(g, &mut q0, &mut calls, nvars);
            }
            let nrej = calls.iter().filter(|c| !c.expect_ok).count();
            if nrej > 0 {
                reused += 1;
            }
            stat("generic_rejected_calls_before_measuring", nrej);
            let got_off = q0.get_offset();
            let (ns, states) = single_steps(&mut q0.clone(), t, beta);
            let doc = |freq: usize| -> Option<f64> {
                let k = t / freq;
                if k == 0 {
                    None
                } else {
                    let mean = (1..=k).map(|i| ns[i * freq - 1] as f64).sum::<f64>() / k as f64;
                    Some(-(mean / beta) + off)
                }
            };
            for variant in ["steps", "sample", "measure"] {
                let mut q = q0.clone();
                let (freq, count, e, states_ok) = match variant {
                    "steps" => (1, t, q.timesteps(t, beta), true),
                    "sample" => {
                        let (st, e) = q.timesteps_sample(t, beta, Some(f));
                        let ok = st.len() == t / f && st.iter().enumerate().all(|(k, s)| *s == states[(k + 1) * f - 1]);
                        (f, st.len(), e, ok)
                    }
                    _ => {
                        let (c, e) = q.timesteps_measure(t, beta, 0usize, |c, _| c + 1, Some(f));
                        (f, c, e, true)
                    }
                };
                let mut oracle = Ok(());
                if !states_ok {
                    oracle = Err(format!("generic sampler ({}): sampled states are not those after steps f,2f,..", variant));
                }
                if got_off != off {
                    oracle = Err(format!(
                        "generic sampler: get_offset() = {} but the accepted interactions give {} ({} rejected calls on this sampler)",
                        got_off, off, nrej
                    ));
                }
                if let Some(d) = doc(freq) {
                    // same f64 expression as the library's on the harness' own tally of n: 1e-12 relative
                    if !close12(e, d) {
                        oracle = Err(format!(
                            "generic sampler ({}), documented offset {} = -(sum of the smallest diagonal entries of the ACCEPTED calls) (get_offset() says {}; {} rejected calls): returned energy {} but -<n>/beta + offset over the sampled steps is {}",
                            variant, off, got_off, nrej, e, d
                        ));
                    }
                }
                if q0.get_bonds().len() != nbonds {
                    oracle = Err(format!("generic sampler: {} interactions stored, {} accepted", q0.get_bonds().len(), nbonds));
                }
                if let Err(m) = call_mismatch(&calls) {
                    oracle = Err(format!("generic sampler: {}", m));
                }
                if let Err(m) = &stored {
                    oracle = Err(format!("generic sampler: {}", m));
                }
                // model: energy from the documented offset (input token); get_offset() and the outcome of every call
                // reproduced from the calls (QmcModel/QmcCtor.lean) starting at the documented base offset
                let input = format!(
                    "genericm {} {} {} {} {} {} {} {} {}",
                    variant,
                    t,
                    freq,
                    rat(beta),
                    rat(off),
                    list(&ns),
                    nvars,
                    rat(base),
                    show_calls(&calls)
                );
                emit(
                    t / freq >= 1 && off != 0.0,
                    &input,
                    &format!("{} {} {} {}", count, fl(e), rat(got_off), show_results(&calls)),
                    Some(oracle),
                );
            }
            off
        });
        match res {
            Ok(off) => {
                if off > 0.0 {
                    npos += 1
                } else if off < 0.0 {
                    nneg += 1
                }
            }
            Err(p) => emit(false, &label, "panic", Some(Err(format!("generic sampler scenario panicked: {}", p)))),
        }
    }
    stat("generic_samplers_reused_after_a_rejected_call", reused);
    // (b) the tempering drivers over generic replicas whose offsets differ from slot to slot
    let tcases = if a.thorough { 120 } else { 24 };
    for ci in 0..tcases {
        let label = format!("generict case {} {}", a.seed, ci);
        let res = catch(|| {
        let nvars = g.range(2, 4) as usize;
        let nrep = g.range(2, 4) as usize;
        let t = g.range(1, 40) as usize;
        let s = g.range(1, 7) as usize;
        let f = g.range(1, 7) as usize;
        let parallel = ci % 2 == 1;
        let rejects = ci % 4 != 3;
        let mut tc: TemperingContainer<SplitMix64, Generic> = TemperingContainer::new(SplitMix64::new(g.next()));
        // same couplings in every replica (same generator state), different diagonal shift => different offset,
        // identical stored matrices (so the graphs are swappable and `ham_eq` holds); the rejected calls of a replica
        // register nothing
        let gs = g.clone();
        let mut betas = vec![];
        // documented offsets (from the ACCEPTED matrices) and get_offset() as captured at construction
        let mut offs0: Vec<f64> = vec![];
        let mut caps: Vec<f64> = vec![];
        let mut callss: Vec<Vec<CallRec>> = vec![];
        let mut setup: Result<(), String> = Ok(());
        for i in 0..nrep {
            let mut gi = gs.clone();
            let shift = [3.0, -3.0, 0.5, -1.25][(i + ci) % 4];
            let (q, terms, calls) = gen_generic(&mut gi, nvars, shift, g.next(), rejects);
            let beta = [0.5, 1.0, 2.0, 4.0][i % 4];
            offs0.push(doc_generic_offset(&terms));
            caps.push(q.get_offset());
            if let Err(m) = check_stored(&q, &terms) {
                setup = Err(format!("slot {}: {}", i, m));
            }
            if let Err(m) = call_mismatch(&calls) {
                setup = Err(format!("slot {}: {}", i, m));
            }
            callss.push(calls);
            if let Err(m) = tc.add_qmc_stepper(q, beta) {
                // identical couplings, only the diagonal shift differs: the documented stored matrices are equal
                return Err(format!(
                    "generic replicas with identical shifted matrices refused by add_qmc_stepper ({}); {}",
                    m,
                    setup.err().unwrap_or_default()
                ));
            }
            betas.push(beta);
        }
        tc.timesteps(g.range(0, 8) as usize);
        // one replica is reused after the warm-up: a rejected call on the sampler inside the container
        if rejects && g.coin() {
            let i = ci % nrep;
            let before = callss[i].len();
            issue_rejected(g, &mut tc.graph_mut()[i].0, &mut callss[i], nvars);
            if let Err(m) = call_mismatch(&callss[i][before..]) {
                setup = Err(format!("slot {} (after the warm-up): {}", i, m));
            }
        }
        stat("generic_tempering_rejected_calls", callss.iter().map(|c| c.iter().filter(|x| !x.expect_ok).count()).sum::<usize>());
        let mut tc2 = tc.clone();
        let r = if parallel { tc.parallel_timesteps_sample(t, s, f) } else { tc.timesteps_sample(t, s, f) };
        // the slots' documented offsets
        let offs: Vec<f64> = offs0.clone();
        let mut nseq: Vec<Vec<usize>> = vec![vec![]; nrep];
        let mut want: Vec<Vec<Vec<bool>>> = vec![vec![]; nrep];
        for k in 1..=t {
            // one `timestep` per replica (not `timesteps(1)`, which goes through the energy helper under test)
            for (q, beta) in tc2.graph_mut().iter_mut() {
                q.timestep(*beta);
            }
            for i in 0..nrep {
                nseq[i].push(tc2.graph_ref()[i].0.get_n());
            }
            if k % s == 0 {
                tc2.tempering_step();
            }
            if k % f == 0 {
                for i in 0..nrep {
                    want[i].push(tc2.graph_ref()[i].0.state_ref().to_vec());
                }
            }
        }
        let mut oracle = Ok(());
        for i in 0..nrep {
            if r[i].0 != want[i] {
                oracle = Err(format!("generic replicas: slot {} sampled states differ from the single-step process", i));
            }
            let doc = nseq[i].iter().map(|n| -(*n as f64 / betas[i]) + offs[i]).sum::<f64>() / t as f64;
            if !close(r[i].1, doc) {
                oracle = Err(format!(
                    "generic replicas: slot {} (documented offset {} from the accepted calls, get_offset() says {}) energy {} but the per-step average of -n/beta + offset is {}",
                    i, offs[i], tc.graph_ref()[i].0.get_offset(), r[i].1, doc
                ));
            }
            for (which, c) in [("after the run", &tc), ("in the reference loop", &tc2)] {
                let o = c.graph_ref()[i].0.get_offset();
                if o != caps[i] {
                    oracle = Err(format!("generic replicas: slot {}: get_offset() is {} {} but was {} at construction", i, o, which, caps[i]));
                }
            }
            if caps[i] != offs[i] {
                oracle = Err(format!("generic replicas: slot {}: get_offset() = {} but the accepted interactions give {}", i, caps[i], offs[i]));
            }
        }
        if let Err(m) = &setup {
            oracle = Err(format!("generic replicas: {}", m));
        }
        let input = format!(
            "generict {} {} {} {} {} {} {} {} {}",
            t,
            s,
            f,
            nrep,
            rats(&betas),
            rats(&offs),
            nseq.iter().map(|v| list(v).replace(',', ".")).collect::<Vec<_>>().join(","),
            nvars,
            callss.iter().map(|c| show_calls(c)).collect::<Vec<_>>().join("&")
        );
        let got_offs: Vec<f64> = (0..nrep).map(|i| tc.graph_ref()[i].0.get_offset()).collect();
        let out = format!(
            "{} {} {}",
            r.iter().map(|x| format!("{} {}", x.0.len(), fl(x.1))).collect::<Vec<_>>().join(" "),
            rats(&got_offs),
            callss.iter().map(|c| show_results(c)).collect::<Vec<_>>().join("&")
        );
        emit(true, &input, &out, Some(oracle));
        stat("generic_swaps_accepted", tc.get_total_swaps());
        Ok(())
        });
        match res {
            Ok(Ok(())) => {}
            Ok(Err(m)) => emit(false, &label, "refused", Some(Err(m))),
            Err(p) => emit(false, &label, "panic", Some(Err(format!("generic tempering scenario panicked: {}", p)))),
        }
    }
    stat("generic_offset_positive", npos);
    stat("generic_offset_negative", nneg);
}

// ------------------------------------------------------------------------------------------------
// imaginary-time fold
// ------------------------------------------------------------------------------------------------

fn itime_case<Q, M>(name: &str, q: &Q, manager: &M, cutoff: usize, snapshot: impl Fn(&Q) -> String)
where
    Q: QmcStepper,
    M: OpContainer,
{
    let before = snapshot(q);
    let st0 = q.state_ref().to_vec();
    let states = q.imaginary_time_fold(
        |mut acc: Vec<Vec<bool>>, s| {
            acc.push(s.to_vec());
            acc
        },
        vec![],
    );
    let after = snapshot(q);
    let mut oracle = Ok(());
    if states.len() != cutoff {
        oracle = Err(format!("{}: {} states visited, cutoff {}", name, states.len(), cutoff));
    }
    if before != after || q.state_ref() != &st0[..] {
        oracle = Err(format!("{}: the sampler changed during imaginary_time_fold", name));
    }
    // independent propagation: state before slot p
    let mut s = st0.clone();
    for p in 0..cutoff {
        if states.get(p) != Some(&s) {
            oracle = Err(format!("{}: state shown for slot {} is not the state propagated up to it", name, p));
            break;
        }
        if let Some(op) = manager.get_pth(p) {
            for (k, v) in op.get_vars().iter().enumerate() {
                s[*v] = op.get_outputs()[k];
            }
        }
    }
    if s != st0 {
        oracle = Err(format!("{}: world lines do not close", name));
    }
    let input = format!("itime {} {}", bits(&st0), show_slots(manager));
    let out = if states.is_empty() { "-".to_string() } else { states.iter().map(|s| bits(s)).collect::<Vec<_>>().join(",") };
    emit(manager.get_n() > 0, &input, &format!("{} {}", states.len(), out), Some(oracle));
}

fn mode_itime(a: &Args) {
    let mut g = SplitMix64::new(a.seed ^ 0x171e);
    let cases = if a.thorough { 400 } else { 60 };
    for ci in 0..cases {
        let nvars = g.range(2, 6) as usize;
        let (edges, tr, cutoff) = gen_ising(&mut g, nvars);
        let beta = *g.pick(&[0.5, 1.0, 2.0, 4.0]);
        let mut q = Ising::new_with_rng(edges, tr, 0.0, cutoff, SplitMix64::new(g.next()), None);
        q.timesteps(g.range(0, 30) as usize, beta);
        if ci % 3 == 2 {
            // the generic sampler, obtained by conversion
            let mut q = q.into_qmc();
            q.timesteps(g.range(0, 10) as usize, beta);
            let c = q.get_manager_ref().get_cutoff();
            itime_case("generic", &q, q.get_manager_ref(), c, |q| serde_json::to_string(q).unwrap());
        } else {
            let c = q.get_manager_ref().get_cutoff();
            itime_case("ising", &q, q.get_manager_ref(), c, |q| serde_json::to_string(q).unwrap());
        }
    }
}

// ------------------------------------------------------------------------------------------------
// excluded inputs, run once each
// ------------------------------------------------------------------------------------------------

fn mode_edge(_a: &Args) {
    // sampling frequency 0 in the measuring loop: remainder by zero
    run_measure("measure", 3, Some(0), 1.0, 0.5, &[3, 5], 0);
    run_measure("measure", 0, Some(0), 1.0, 0.5, &[3, 5], 0);
    // f > T: no sample, energy is 0/0
    run_measure("measure", 3, Some(5), 1.0, 0.5, &[3, 5], 0);
    // tempering driver, sampling period 0: `timesteps / sampling_freq` panics before the loop
    let mut g = SplitMix64::new(5);
    for (s, f, nrep) in [(2usize, 0usize, 2usize), (0, 3, 2), (0, 3, 0)] {
        let su = gen_setup(&mut g, false, 6, s, f, nrep);
        let (mut tc, _) = build_tc(&su, Some(5000));
        let (tx, rx) = std::sync::mpsc::channel();
        std::thread::spawn(move || {
            let r = catch(|| tc.timesteps_sample(6, s, f).len());
            let steps: usize = tc.graph_ref().iter().map(|(m, _)| m.g.age).sum();
            let _ = tx.send((r, steps));
        });
        // "stuck": the loop was still spinning without having advanced a step when the mock's call budget
        // (5000 energy evaluations) ran out, or (no replica to count calls) after 2 s
        // generous limit when the mock can abort the loop itself; 2 s only for the replica-less spin
        let limit = if nrep == 0 { 2 } else { 60 };
        let out = match rx.recv_timeout(std::time::Duration::from_secs(limit)) {
            Ok((Ok(_), _)) => "returned".to_string(),
            Ok((Err(p), 0)) if p.contains("budget") => "stuck".to_string(),
            Ok((Err(p), steps)) => format!("panic steps={} {}", steps, if p.contains("divide by zero") { "div0" } else { "other" }),
            Err(std::sync::mpsc::RecvTimeoutError::Timeout) => "stuck".to_string(),
            Err(_) => "thread-died".to_string(),
        };
        emit(false, &format!("edge temper 6 {} {} {}", s, f, nrep), &out, None);
    }
}

fn main() {
    quiet_panics();
    let a = args();
    let _ = (0..4).into_par_iter().map(|x| x).sum::<usize>(); // start the rayon pool up front
    let all = a.mode == "all";
    if all || a.mode == "measure" {
        mode_measure(&a);
    }
    if all || a.mode == "temper" {
        mode_temper(&a);
    }
    if all || a.mode == "ising" {
        mode_ising(&a);
    }
    if all || a.mode == "generic" {
        mode_generic(&a);
    }
    if all || a.mode == "itime" {
        mode_itime(&a);
    }
    if all || a.mode == "edge" {
        mode_edge(&a);
    }
}
